import numpy as np, warnings, traceback, collections
warnings.filterwarnings("ignore")
from pybads import BADS
import pybads.bads.bads as bb
log = collections.defaultdict(list)
def noisy(x):
    x=np.atleast_1d(x).ravel(); y=float(np.sum(x**2) + 1.0*np.random.randn()); log[tuple(np.round(x,12))].append(y); return y
lb=np.array([-5.,-5.]); ub=np.array([5.,5.]); plb=np.array([-2.,-2.]); pub=np.array([2.,2.]); x0=np.array([1.,1.])
bad=0; swaps=0
for seed in range(8):
    log.clear()
    b = BADS(noisy, x0, lb, ub, plb, pub, options={"display":"off","random_seed":seed,"uncertainty_handling":True,"max_fun_evals":150}); r=b.optimize()
    h=b.iteration_history
    for i,(x,y) in enumerate(zip(h["x"],h["yval"])):
        if x is None: continue
        k=tuple(np.round(np.ravel(x),12))
        ok = k in log and any(abs(y-v)<1e-12 for v in log[k])
        if not ok:
            bad+=1; print("seed",seed,"iter",i,"x",x,"yval",y,"obs", log.get(k))
    print("seed",seed,"has best_u:", hasattr(b,"best_u"), "iters", len(h["x"]))
print("bad", bad)
