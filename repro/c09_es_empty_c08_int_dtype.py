import numpy as np, warnings, traceback, collections
warnings.filterwarnings("ignore")
from pybads import BADS
def run(name, *a, **k):
    try:
        b = BADS(*a, **k); r = b.optimize(); print(name, "OK", r.x, r.fval, r.func_count, r.message[:50])
        return b, r
    except Exception as e:
        tb = traceback.extract_tb(e.__traceback__)
        fr = [t for t in tb if "pybads" in t.filename][-1]
        print(name, "EXC", type(e).__name__, str(e)[:100], "@", fr.filename.split("pybads/")[-1], fr.lineno)
        return None, None
def quad(x): return float(np.sum(np.atleast_2d(x)**2))
lb=np.array([-5.,-5.]); ub=np.array([5.,5.]); plb=np.array([-2.,-2.]); pub=np.array([2.,2.]); x0=np.array([1.,1.])
# (c) feasible set = initial design points only
b = BADS(quad, x0, lb, ub, plb, pub, options={"display":"off","random_seed":3}); 
b._init_optimization_() if False else None
calls=[]
def q2(x): calls.append(np.array(x).ravel().copy()); return quad(x)
b = BADS(q2, x0, lb, ub, plb, pub, options={"display":"off","random_seed":3,"max_fun_evals":4}); b.optimize()
pts = np.array(calls)
print("initial pts", len(pts))
def cons(x):
    x=np.atleast_2d(x)
    d = np.min(np.abs(x[:,None,:]-pts[None,:,:]).max(-1), axis=1)
    return d > 1e-9
run("finite feasible set", quad, x0, lb, ub, plb, pub, non_box_cons=cons, options={"display":"off","random_seed":3,"max_fun_evals":60})
# (d) int dtype with log transform
def lq(x): return float(np.sum((np.log(np.atleast_2d(x))-1.0)**2))
b1,r1 = run("float log", lq, np.array([3.,3.]), np.array([1.,1.]), np.array([1000.,1000.]), np.array([2.,2.]), np.array([500.,500.]), options={"display":"off","random_seed":1,"max_fun_evals":40})
b2,r2 = run("int log", lq, np.array([3,3]), np.array([1,1]), np.array([1000,1000]), np.array([2,2]), np.array([500,500]), options={"display":"off","random_seed":1,"max_fun_evals":40})
if b1 and b2: print("same plb?", b1.plausible_lower_bounds, b2.plausible_lower_bounds, b1.lower_bounds, b2.lower_bounds)
b3,r3 = run("list log", lq, [3,3], [1,1], [1000,1000], [2,2], [500,500], options={"display":"off","random_seed":1,"max_fun_evals":40})
b4,r4 = run("list float", lq, [3.,3.], [1.,1.], [1000.,1000.], [2.,2.], [500.,500.], options={"display":"off","random_seed":1,"max_fun_evals":40})
b5,r5 = run("scalar 1D", quad, 1.0, -5.0, 5.0, -2.0, 2.0, options={"display":"off","random_seed":1,"max_fun_evals":30})
b6,r6 = run("arr 1D", quad, np.array([1.0]), np.array([-5.0]), np.array([5.0]), np.array([-2.0]), np.array([2.0]), options={"display":"off","random_seed":1,"max_fun_evals":30})
