"""C05: a noisy run that ends in iteration 0 takes no final samples at the returned x
(the final re-sampling block is additionally guarded by poll_iteration > 0)."""
import numpy as np
from pybads import BADS

calls = []
def f(x):
    calls.append(np.array(x, dtype=float).copy())
    return float(np.sum(np.asarray(x) ** 2) + 0.5 * np.random.randn())

for kw in ({"max_iter": 1}, {"max_fun_evals": 44}):
    calls.clear()
    opts = {"uncertainty_handling": True, "random_seed": 3, "display": "off", "noise_final_samples": 10}
    opts.update(kw)
    b = BADS(f, np.array([1.0, 1.0]), np.array([-5, -5.0]), np.array([5, 5.0]), np.array([-2, -2.0]), np.array([2, 2.0]), options=opts)
    r = b.optimize()
    last = calls[-10:]
    at_x = sum(np.allclose(c, r.x.flatten()) for c in last)
    print(kw, "iterations", r["iterations"], "func_count", r["func_count"], "yval_vec", None if r["yval_vec"] is None else len(r["yval_vec"]), "last-10 calls at x:", at_x)
