import numpy as np, warnings
warnings.filterwarnings("ignore")
from pybads import BADS
import pybads.bads.bads as bb
import pybads.bads.gaussian_process_train as gpt
seen=[]
orig = gpt.local_gp_fitting
def wrap(gp, cur, fl, *a, **k):
    r = orig(gp, cur, fl, *a, **k)
    g = r[0]
    if g.s2 is not None:
        # compare with logger S for matching rows
        idx = [int(np.argwhere(np.all(fl.X[:fl.Xn+1]==row,axis=1))[0,0]) for row in g.X[:5]]
        seen.append((g.s2[:5].ravel().copy(), fl.S[idx].ravel().copy()))
    return r
bb.local_gp_fitting = wrap
def hn(x):
    x=np.atleast_2d(x); sd = 0.1+ 0.2*float(np.abs(x).sum()); return float(np.sum(x**2) + sd*np.random.randn()), sd
lb=np.array([-5.,-5.]); ub=np.array([5.,5.]); plb=np.array([-2.,-2.]); pub=np.array([2.,2.]); x0=np.array([1.,1.])
b = BADS(hn, x0, lb, ub, plb, pub, options={"display":"off","random_seed":2,"specify_target_noise":True,"uncertainty_handling":True,"max_fun_evals":100,"noise_final_samples":1})
r = b.optimize()
s2, S = seen[3]
print("gp.s2[:5]", s2); print("log S [:5]", S); print("S**2     ", S**2)
print("x", r.x, "ysd_vec", np.ravel(r.ysd_vec), "expected sd(x)", 0.1+0.2*np.abs(r.x).sum(), "yval_vec", np.ravel(r.yval_vec))
fl=b.function_logger; print("S[Xn]", fl.S[fl.Xn], "X_orig[Xn]", fl.X_orig[fl.Xn])
