import numpy as np, warnings, itertools
warnings.filterwarnings("ignore")
from pybads import BADS
cnt=[0]
def quad(x): cnt[0]+=1; return float(np.sum(np.atleast_2d(x)**2))
def noisy(x): cnt[0]+=1; return float(np.sum(np.atleast_2d(x)**2)+np.random.randn())
bad=0
for D,(fun,opt),budget,seed in itertools.product([1,2,3],[(quad,{}),(noisy,{"uncertainty_handling":True}),(noisy,{})],[40,77,150],[0,1]):
    cnt[0]=0
    lb=-5*np.ones(D); ub=5*np.ones(D); plb=-2*np.ones(D); pub=2*np.ones(D); x0=np.ones(D)
    o={"display":"off","random_seed":seed,"max_fun_evals":budget}; o.update(opt)
    try:
        b=BADS(fun,x0,lb,ub,plb,pub,options=o); r=b.optimize()
        ok = cnt[0]<=budget and r.func_count==cnt[0]
        if not ok: bad+=1; print("D",D,fun.__name__,opt,budget,seed,"calls",cnt[0],"func_count",r.func_count, r.message[:40])
    except Exception as e:
        print("EXC",D,fun.__name__,opt,budget,seed,type(e).__name__,str(e)[:60])
print("bad",bad)
