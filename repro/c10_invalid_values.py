import numpy as np, warnings
warnings.filterwarnings("ignore")
from pybads.function_logger import FunctionLogger
def t(name, ret, he=True):
    fl = FunctionLogger(lambda x: ret, 2, he, 2 if he else 0)
    try:
        r = fl(np.array([1.,2.])); print(name, "-> accepted", r, "count", fl.func_count)
    except Exception as e:
        print(name, "->", type(e).__name__, "count", fl.func_count, "Xn", fl.Xn)
t("(1,None)", (1.0, None)); t("(1,'a')", (1.0, "a")); t("(1,nan)", (1.0, np.nan)); t("(1,-1)", (1.0,-1.0)); t("(1,[.1,.2])", (1.0, np.array([.1,.2])))
t("(1,1j)", (1.0, 1j)); t("[1,0.1] list", [1.0, 0.1]); t("1.0 only", 1.0); t("(None,1)", (None, 1.0)); t("(nan,1)", (np.nan,1.0)); t("(1,0.1,3)", (1.0,0.1,3))
t("det None", None, False); t("det nan", np.nan, False); t("det complex", 1+1j, False); t("det vec", np.array([1.,2.]), False); t("det str", "a", False); t("det [1.0]", [1.0], False); t("det True", True, False)
t("(1,True)", (1.0, True)); t("(1, [0.1])", (1.0,[0.1]))
