import numpy as np, warnings, traceback
warnings.filterwarnings("ignore")
from pybads import BADS
def quad(x): return float(np.sum(np.atleast_2d(x)**2))
def noisy(x): return float(np.sum(np.atleast_2d(x)**2) + np.random.randn())
def run(name, *a, **k):
    try:
        b = BADS(*a, **k); r = b.optimize(); print(name, "OK", r.fval, r.func_count, r.message[:60])
        return b, r
    except Exception as e:
        tb = traceback.extract_tb(e.__traceback__)
        fr = [t for t in tb if "pybads" in t.filename][-1]
        print(name, "EXC", type(e).__name__, str(e)[:100], "@", fr.filename.split("pybads/")[-1], fr.lineno)
        return None, None
lb=np.array([-5.,-5.]); ub=np.array([5.,5.]); plb=np.array([-2.,-2.]); pub=np.array([2.,2.]); x0=np.array([1.,1.])
# noisy with max_iter=1
run("noisy max_iter=1", noisy, x0, lb, ub, plb, pub, options={"display":"off","uncertainty_handling":True,"max_iter":1,"random_seed":1})
run("noisy budget=25", noisy, x0, lb, ub, plb, pub, options={"display":"off","uncertainty_handling":True,"max_fun_evals":25,"random_seed":1})
# constraint: thin feasible set (only points with x[0]==1 exactly)
run("thin cons", quad, x0, lb, ub, plb, pub, non_box_cons=lambda x: np.atleast_2d(x)[:,0] != 1.0, options={"display":"off","random_seed":1,"max_fun_evals":60})
# constraint: only x0 feasible
run("only x0 feasible", quad, x0, lb, ub, plb, pub, non_box_cons=lambda x: np.any(np.atleast_2d(x) != 1.0, axis=1), options={"display":"off","random_seed":1,"max_fun_evals":60})
