import numpy as np, warnings, traceback, sys
warnings.filterwarnings("ignore")
from pybads import BADS
import gpyreg
def quad(x): return float(np.sum(np.atleast_2d(x)**2))
def noisy(x): return float(np.sum(np.atleast_2d(x)**2) + 0.5*np.random.randn())
def hnoisy(x): return float(np.sum(np.atleast_2d(x)**2) + 0.5*np.random.randn()), 0.5
orig_fit = gpyreg.GP.fit
def make_faulty(fail_at):
    cnt = {"n": 0}
    def fit(self, *a, **k):
        cnt["n"] += 1
        if cnt["n"] in fail_at:
            raise np.linalg.LinAlgError("injected")
        return orig_fit(self, *a, **k)
    return fit, cnt
def run(name, fail_at, fun, opts):
    gpyreg.GP.fit, cnt = make_faulty(fail_at)
    lb=np.array([-5.,-5.]); ub=np.array([5.,5.]); plb=np.array([-2.,-2.]); pub=np.array([2.,2.]); x0=np.array([1.,1.])
    o = {"display":"off","random_seed":1,"max_fun_evals":80}; o.update(opts)
    try:
        b = BADS(fun, x0, lb, ub, plb, pub, options=o); r = b.optimize(); print(name, "OK fits=", cnt["n"], r.fval)
    except Exception as e:
        tb = traceback.extract_tb(e.__traceback__)
        fr = [t for t in tb if "pybads" in t.filename][-1]
        print(name, "EXC", type(e).__name__, str(e)[:90], "@", fr.filename.split("pybads/")[-1], fr.lineno, "fits=", cnt["n"])
    gpyreg.GP.fit = orig_fit
run("det fail#1", {1}, quad, {})
run("det fail#2", {2}, quad, {})
run("det fail#2,3", {2,3}, quad, {})
run("det fail#2,3,4", {2,3,4}, quad, {})
run("noisy fail#2", {2}, noisy, {"uncertainty_handling":True})
run("noisy fail#2,3", {2,3}, noisy, {"uncertainty_handling":True})
run("noisy fail#2,3,4", {2,3,4}, noisy, {"uncertainty_handling":True})
run("het fail#2,3", {2,3}, hnoisy, {"specify_target_noise":True,"uncertainty_handling":True})
run("het fail#2,3,4", {2,3,4}, hnoisy, {"specify_target_noise":True,"uncertainty_handling":True})
run("det fail 2..11", set(range(2,12)), quad, {})
