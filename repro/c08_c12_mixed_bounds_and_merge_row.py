import numpy as np, warnings
warnings.filterwarnings("ignore")
from pybads import BADS
f = lambda x: float(np.sum(np.atleast_2d(x)**2))
# C08 mixed bounded/unbounded
try:
    b = BADS(f, np.array([0.5, 0.0]), np.array([0., -np.inf]), np.array([1., np.inf]), np.array([0.1,-1.]), np.array([0.9,1.]), options={"display":"off"})
    print("C08 mixed accepted")
except Exception as e:
    print("C08 mixed ->", type(e).__name__, str(e)[:80])
# C12 wrong-row merge
from pybads.function_logger import FunctionLogger
fl = FunctionLogger(lambda x: (float(np.sum(x)), 1.0), 2, True, 2)
fl(np.array([5., 9.])); fl(np.array([1., 2.])); fl(np.array([5., 6.]))
print("before", fl.Y[:3].ravel(), fl.n_evals[:3].ravel())
fl(np.array([5., 6.]))
print("after ", fl.Y[:3].ravel(), fl.n_evals[:3].ravel(), "Xn", fl.Xn)
