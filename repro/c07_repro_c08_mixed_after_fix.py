import numpy as np, warnings, traceback
warnings.filterwarnings("ignore")
from pybads import BADS
def run(name, *a, **k):
    try:
        b = BADS(*a, **k); r = b.optimize(); print(name, "OK", r.x, r.fval, r.func_count, r.message[:50])
        return b, r
    except Exception as e:
        tb = traceback.extract_tb(e.__traceback__)
        fr = [t for t in tb if "pybads" in t.filename][-1]
        print(name, "EXC", type(e).__name__, str(e)[:100], "@", fr.filename.split("pybads/")[-1], fr.lineno)
        return None, None
calls=[]
def quad(x): calls.append(np.array(x).ravel().copy()); return float(np.sum((np.atleast_2d(x)-0.3)**2))
run("mixed", quad, np.array([0.5, 0.0]), np.array([0., -np.inf]), np.array([1., np.inf]), np.array([0.1,-1.]), np.array([0.9,1.]), options={"display":"off","random_seed":1})
c=np.array(calls); print("range dim0", c[:,0].min(), c[:,0].max(), "dim1", c[:,1].min(), c[:,1].max())
# reproducibility
def noisy(x): return float(np.sum(np.atleast_2d(x)**2) + np.random.randn())
lb=np.array([-5.,-5.]); ub=np.array([5.,5.]); plb=np.array([-2.,-2.]); pub=np.array([2.,2.])
def trace(fun, opts, pre=None):
    calls.clear()
    def f(x): calls.append(np.array(x).ravel().copy()); return fun(x)
    b = BADS(f, None, lb, ub, plb, pub, options=opts)
    if pre: pre()
    r = b.optimize(); return np.array(calls), r
o={"display":"off","random_seed":7,"max_fun_evals":80}
c1,r1 = trace(lambda x: float(np.sum(np.atleast_2d(x)**2)), dict(o))
def pre():
    np.random.rand(13)
    BADS(lambda x: float(np.sum(np.atleast_2d(x)**2)), np.zeros(3), -np.ones(3), np.ones(3), options={"display":"off","max_fun_evals":20}).optimize()
c2,r2 = trace(lambda x: float(np.sum(np.atleast_2d(x)**2)), dict(o), pre)
print("det same:", c1.shape==c2.shape and np.array_equal(c1,c2), r1.fval==r2.fval, r1.func_count, r2.func_count)
c1,r1 = trace(noisy, dict(o, uncertainty_handling=True))
c2,r2 = trace(noisy, dict(o, uncertainty_handling=True), pre)
print("noisy same:", c1.shape==c2.shape and np.array_equal(c1,c2), r1.fval==r2.fval, r1.func_count, r2.func_count)
