import numpy as np, warnings, traceback, collections
from pybads import BADS
print("numpy", np.__version__)
with warnings.catch_warnings(record=True) as w:
    warnings.simplefilter("always")
    try: print(float(np.array([1.0])), [str(x.message)[:60] for x in w])
    except Exception as e: print("float(arr1) EXC", e)
warnings.filterwarnings("ignore")
def run(name, *a, **k):
    try:
        b = BADS(*a, **k); r = b.optimize(); print(name, "OK", r.x, r.fval, r.func_count, r.message[:50])
        return b, r
    except Exception as e:
        tb = traceback.extract_tb(e.__traceback__)
        fr = [t for t in tb if "pybads" in t.filename][-1]
        print(name, "EXC", type(e).__name__, str(e)[:100], "@", fr.filename.split("pybads/")[-1], fr.lineno)
        return None, None
lb=np.array([-5.,-5.]); ub=np.array([5.,5.]); plb=np.array([-2.,-2.]); pub=np.array([2.,2.]); x0=np.array([1.,1.])
def hn(x): 
    x=np.atleast_2d(x); return float(np.sum((x-7)**2) + 0.5*np.random.randn()), 0.5
for s in range(3):
    b,r = run(f"het boundary s{s}", hn, x0, lb, ub, plb, pub, options={"display":"off","random_seed":s,"specify_target_noise":True,"uncertainty_handling":True,"max_fun_evals":120})
    if b is not None:
        fl=b.function_logger; print("   max n_evals", fl.n_evals[:fl.Xn+1].max(), "Xn", fl.Xn, "func_count", fl.func_count)
