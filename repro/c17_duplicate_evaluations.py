import numpy as np, warnings, traceback, collections
warnings.filterwarnings("ignore")
from pybads import BADS
calls=[]
def quad(x):
    calls.append(tuple(np.atleast_1d(x).ravel())); return float(np.sum((np.atleast_2d(x)-4.9)**2))
lb=np.array([-5.,-5.]); ub=np.array([5.,5.]); plb=np.array([-2.,-2.]); pub=np.array([2.,2.]); x0=np.array([1.,1.])
for seed in range(3):
    calls.clear()
    b = BADS(quad, x0, lb, ub, plb, pub, options={"display":"off","random_seed":seed}); r=b.optimize()
    c = collections.Counter(calls); dups = {k:v for k,v in c.items() if v>1}
    print(seed, "calls", len(calls), "distinct", len(c), "dups", len(dups), list(dups.items())[:3], r.x, r.fval)
# optimum on the boundary
def quadb(x):
    calls.append(tuple(np.atleast_1d(x).ravel())); return float(np.sum((np.atleast_2d(x)-7)**2))
for seed in range(3):
    calls.clear()
    b = BADS(quadb, x0, lb, ub, plb, pub, options={"display":"off","random_seed":seed}); r=b.optimize()
    c = collections.Counter(calls); dups = {k:v for k,v in c.items() if v>1}
    print(seed, "calls", len(calls), "distinct", len(c), "dups", len(dups), list(dups.items())[:3], r.x, r.fval)
