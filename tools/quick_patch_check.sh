#!/bin/bash
# usage: quick_patch_check.sh <patch> [props...]   -- runs the quick checks against a scratch copy of /repo with the patch applied
set -e
PATCH=$(readlink -f "$1"); shift
TMP=$(mktemp -d /tmp/qpc-XXXXXX)
trap 'rm -rf "$TMP"' EXIT
cp -r /repo/pybads "$TMP/pybads"
rm -rf "$TMP/pybads/testing"
(cd "$TMP" && patch -s -p1 < "$PATCH")
PROPS="$@"
if [ -z "$PROPS" ]; then PROPS="C01 C02 C03 C04 C05 C07 C08 C09 C10 C11 C12 C13 C14 C15 C16 C17 C18 C19 C20"; fi
cd /verif
for p in $PROPS; do
  out=$(PBSTATIC_REPO="$TMP" PBSTATIC_SCRATCH=1 python3-vt -m pbstatic.run $p --tier quick 2>&1) && rc=0 || rc=$?
  if [ $rc -ne 0 ]; then echo "== $p rc=$rc"; echo "$out" | grep -E "^\[$p-|ANALYSIS" | cut -c1-260 | head -4; fi
done
echo "-- checked: $PROPS"
