#!/usr/bin/env python3
"""Intake of an independently produced breaking change (see the brief).

  python3 tools/intake_seeded.py <property> <patch> <demo.py> <id> [--notes FILE] [--needs TEXT]

1. confirms in a scratch worktree of /repo HEAD (under /tmp, removed afterwards):
   the patch applies and compiles, the baseline test suite still passes with it,
   the demonstration exits 0 without the patch and non-zero with it;
2. runs every claimed property check (quick tier, PBSTATIC_SCRATCH) against the
   patched scratch tree and records which ones report a violation;
3. writes /verif/seeded/<id>/{patch.diff, demo.py, meta.json}.
Nothing is applied to /repo itself.
"""
import argparse
import json
import os
import shutil
import subprocess
import sys
import tempfile
import time

VERIF = os.path.dirname(os.path.dirname(os.path.abspath(__file__)))
PY = "/venv/bin/python"


def sh(cmd, cwd=None, env=None, timeout=3600):
    r = subprocess.run(cmd, shell=True, cwd=cwd, env=env, capture_output=True, text=True, timeout=timeout)
    return r.returncode, (r.stdout + r.stderr)


def main():
    ap = argparse.ArgumentParser()
    ap.add_argument("prop")
    ap.add_argument("patch")
    ap.add_argument("demo")
    ap.add_argument("id")
    ap.add_argument("--notes")
    ap.add_argument("--needs", default="")
    ap.add_argument("--skip-tests", action="store_true")
    ap.add_argument("--extra", action="append", default=[], help="helper module the demonstration imports (copied next to it)")
    a = ap.parse_args()
    wt = tempfile.mkdtemp(prefix="seedverify-")
    os.rmdir(wt)
    meta = {"id": a.id, "property": a.prop, "needs_to_manifest": a.needs, "ran": [], "at": time.strftime("%Y-%m-%d %H:%M:%S")}
    try:
        rc, out = sh(f"git -C /repo worktree add -q --detach {wt} HEAD")
        assert rc == 0, out
        env = dict(os.environ, PYTHONPATH=wt)
        # demo on the clean tree
        shutil.copy(a.demo, os.path.join(wt, "_demo.py"))
        for x in a.extra:
            shutil.copy(x, os.path.join(wt, os.path.basename(x)))
        rc0, out0 = sh(f"{PY} -W ignore _demo.py", cwd=wt, env=env, timeout=900)
        meta["ran"].append({"cmd": "demo on clean tree", "rc": rc0, "tail": out0[-300:]})
        rc, out = sh(f"git -C {wt} apply --whitespace=nowarn {os.path.abspath(a.patch)}")
        meta["ran"].append({"cmd": "git apply patch", "rc": rc, "tail": out[-300:]})
        if rc != 0:
            print("PATCH DOES NOT APPLY", out)
            meta["verdict"] = "rejected: patch does not apply"
            return finish(a, meta, keep=False)
        rc, out = sh(f"{PY} -m compileall -q pybads", cwd=wt)
        rc1, out1 = sh(f"{PY} -W ignore _demo.py", cwd=wt, env=env, timeout=900)
        meta["ran"].append({"cmd": "demo on patched tree", "rc": rc1, "tail": out1[-400:]})
        tests_ok = None
        if not a.skip_tests:
            rct, outt = sh(f"{PY} -m pytest -q -p no:cacheprovider --timeout=900 -n 8 -x", cwd=wt, timeout=3000)
            tail = [l for l in outt.splitlines() if "passed" in l or "failed" in l][-1:] or [outt[-200:]]
            tests_ok = rct == 0 or ("1 failed" in tail[0] and "test_he_noisy_sphere_opt" in outt)
            meta["ran"].append({"cmd": "pytest -q -n 8 on patched tree", "rc": rct, "tail": tail[0]})
        demo_ok = rc0 == 0 and rc1 != 0
        meta["demo_confirms"] = demo_ok
        meta["tests_pass_with_patch"] = tests_ok
        # run all checks against the patched tree
        manifest = json.load(open(os.path.join(VERIF, "MANIFEST.json")))
        fired = {}
        env2 = dict(os.environ, PBSTATIC_REPO=wt, PBSTATIC_SCRATCH="1")
        for chk in manifest["checks"]:
            pid = chk["property_id"]
            rc, out = sh(f"python3-vt -m pbstatic.run {pid} --tier quick", cwd=VERIF, env=env2, timeout=600)
            if rc != 0:
                lines = [l for l in out.splitlines() if l.startswith(f"[{pid}-") or l.startswith("ANALYSIS-ERROR")]
                fired[pid] = {"rc": rc, "reports": [l[:300] for l in lines[:4]]}
        meta["checks_reporting"] = fired
        meta["detected_by_target_check"] = a.prop in fired and fired[a.prop]["rc"] == 1
        meta["detected_by_any_check"] = any(v["rc"] == 1 for v in fired.values())
        if not demo_ok:
            meta["verdict"] = "rejected: demonstration does not discriminate"
        elif tests_ok is False:
            meta["verdict"] = "rejected: existing tests fail with the change"
        else:
            meta["verdict"] = "kept"
        return finish(a, meta, keep=meta["verdict"] == "kept")
    finally:
        sh(f"git -C /repo worktree remove --force {wt}")
        shutil.rmtree(wt, ignore_errors=True)
        sh("git -C /repo worktree prune")


def finish(a, meta, keep):
    print(json.dumps({k: meta[k] for k in meta if k != "ran"}, indent=1))
    if keep:
        d = os.path.join(VERIF, "seeded", a.id)
        os.makedirs(d, exist_ok=True)
        shutil.copy(a.patch, os.path.join(d, "patch.diff"))
        shutil.copy(a.demo, os.path.join(d, "demo.py"))
        for x in a.extra:
            shutil.copy(x, os.path.join(d, os.path.basename(x)))
        if a.notes and os.path.exists(a.notes):
            shutil.copy(a.notes, os.path.join(d, "NOTES.md"))
        with open(os.path.join(d, "meta.json"), "w") as fh:
            json.dump(meta, fh, indent=1)
    else:
        d = os.path.join(VERIF, "seeded", "_rejected")
        os.makedirs(d, exist_ok=True)
        with open(os.path.join(d, a.id + ".json"), "w") as fh:
            json.dump(meta, fh, indent=1)
    return 0


if __name__ == "__main__":
    sys.exit(main())
