#!/usr/bin/env python3
"""Print the markdown table of /verif/seeded/*/meta.json (for DESIGN.md section 11)."""
import glob, json, os
rows = []
for f in sorted(glob.glob(os.path.join(os.path.dirname(os.path.dirname(os.path.abspath(__file__))), "seeded", "*", "meta.json"))):
    m = json.load(open(f))
    fired = m.get("checks_reporting", {})
    by = ", ".join(f"{p} ({'; '.join(sorted({r.split(']')[0].split('-')[-1] for r in v['reports'] if r.startswith('[')}))})" for p, v in sorted(fired.items()) if v["rc"] == 1) or "none"
    rows.append((m["id"], m["property"], "yes" if m.get("detected_by_target_check") else ("other check" if m.get("detected_by_any_check") else "NO"), by, (m.get("needs_to_manifest") or "")[:110]))
print("| id | property | detected by its own check | checks reporting (rules) | needs to manifest |")
print("|----|----------|---------------------------|--------------------------|-------------------|")
for r in rows:
    print("| " + " | ".join(r) + " |")
