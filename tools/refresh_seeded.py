#!/usr/bin/env python3
"""Re-run the *current* quick checks against every kept seeded change (scratch copy of /repo's package + patch.diff)
and refresh ``checks_reporting`` / ``detected_by_*`` in its meta.json.  The confirmation part of the intake
(tests, demonstration) is not repeated.  Usage: python3 tools/refresh_seeded.py [-j N] [id ...]"""
import concurrent.futures as cf
import glob
import json
import os
import shutil
import subprocess
import sys
import tempfile
import time

VERIF = os.path.dirname(os.path.dirname(os.path.abspath(__file__)))
REPO = os.environ.get("PBSTATIC_REPO_SRC", "/repo")


def one(d):
    sid = os.path.basename(d)
    meta_f = os.path.join(d, "meta.json")
    meta = json.load(open(meta_f))
    tmp = tempfile.mkdtemp(prefix="seedrefresh-")
    try:
        shutil.copytree(os.path.join(REPO, "pybads"), os.path.join(tmp, "pybads"), ignore=shutil.ignore_patterns("testing", "__pycache__"))
        r = subprocess.run(["patch", "-s", "-p1", "-i", os.path.join(d, "patch.diff")], cwd=tmp, capture_output=True, text=True)
        if r.returncode != 0:
            return sid, "patch does not apply to the current tree: " + (r.stdout + r.stderr)[-200:]
        manifest = json.load(open(os.path.join(VERIF, "MANIFEST.json")))
        env = dict(os.environ, PBSTATIC_REPO=tmp, PBSTATIC_SCRATCH="1")
        fired = {}
        for chk in manifest["checks"]:
            pid = chk["property_id"]
            p = subprocess.run(["python3-vt", "-m", "pbstatic.run", pid, "--tier", "quick"], cwd=VERIF, env=env, capture_output=True, text=True, timeout=900)
            if p.returncode != 0:
                lines = [l for l in (p.stdout + p.stderr).splitlines() if l.startswith(f"[{pid}-") or l.startswith("ANALYSIS-ERROR")]
                fired[pid] = {"rc": p.returncode, "reports": [l[:300] for l in lines[:4]]}
        meta["checks_reporting"] = fired
        meta["detected_by_target_check"] = meta["property"] in fired and fired[meta["property"]]["rc"] == 1
        meta["detected_by_any_check"] = any(v["rc"] == 1 for v in fired.values())
        meta["checks_refreshed_at"] = time.strftime("%Y-%m-%d %H:%M:%S")
        json.dump(meta, open(meta_f, "w"), indent=1)
        return sid, ("own" if meta["detected_by_target_check"] else ("other" if meta["detected_by_any_check"] else "MISSED")) + " " + ",".join(sorted(fired))
    finally:
        shutil.rmtree(tmp, ignore_errors=True)


def main():
    args = sys.argv[1:]
    jobs = 8
    if args[:1] == ["-j"]:
        jobs = int(args[1])
        args = args[2:]
    dirs = [d for d in sorted(glob.glob(os.path.join(VERIF, "seeded", "C*"))) if os.path.exists(os.path.join(d, "meta.json")) and (not args or os.path.basename(d) in args)]
    bad = 0
    with cf.ThreadPoolExecutor(jobs) as ex:
        for sid, res in ex.map(one, dirs):
            print(sid, res)
            bad += res.startswith("MISSED") or res.startswith("patch")
    return 1 if bad else 0


if __name__ == "__main__":
    sys.exit(main())
