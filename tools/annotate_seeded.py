#!/usr/bin/env python3
"""Adds the 'needs_to_manifest' text (from the authors' notes) and the record of which seeded
changes were missed by the checks as they stood when the change arrived."""
import json, os
HERE = os.path.dirname(os.path.dirname(os.path.abspath(__file__)))
NEEDS = {
 "C01-A": "upper hard bound off the search mesh and rounding outward, plus a search candidate beyond that bound (optimum on or beyond it)",
 "C01-B": "bound values whose ginv(g(b)) round trip is inexact outward, the hard bound being a mesh point, optimum on that bound",
 "C02-A": "an initial-design point within half a search-mesh cell of the constraint boundary",
 "C02-B": "a real-valued constraint whose violation lies in (0, tol_mesh ~ 1.9e-6]",
 "C03-A": "noisy target with noise_final_samples > 0 and the reduced budget boundary falling in the middle of a poll",
 "C03-B": "max_iter as the stopping condition with the search stage switched off (search_n_try = 0)",
 "C04-A": "the last initial-design point is the best of the design and is never strictly beaten",
 "C04-B": "options['tol_noise'] = 0 with a deterministic target",
 "C05-A": "a noisy run that ends with iterations == 1 (budget exhausted during the second poll iteration)",
 "C05-B": "auto-detected noise with SD below about 1e-3",
 "C07-A": "the RNG is consumed / another BADS is constructed between constructing and running the instance",
 "C07-B": "an earlier BADS of a different dimension was constructed in the same process",
 "C08-A": "D >= 2 with a half-bounded variable next to a fully bounded one (or one half-bounded on the opposite side)",
 "C08-B": "integer-dtype x0 on or within 0.1% of a hard bound",
 "C09-A": "a noisy run that ends in its first poll iteration",
 "C09-B": "specified noise and two consecutive LinAlgErrors inside one GP refit",
 "C10-A": "specified noise and a reported SD of exactly 0",
 "C10-B": "a target returning an invalid value and a caller that reads func_count after the error",
 "C11-A": "pub/plb == 10 exactly with all four bounds positive",
 "C11-B": "an infinite hard upper bound and coordinates above 6.7e7",
 "C12-A": "specified noise, an exact repeat of a logged point, and an earlier record sharing some but not all coordinates",
 "C12-B": "a variable transform and a record made through add() at a point the transform does not fix",
 "C13-A": "an exact floating-point tie between the improvement and the threshold (quantised objective)",
 "C13-B": "accelerate_mesh=False, iteration > 3, a failed poll while the run is stalling",
 "C14-A": "mesh ratio >= 2 (search mesh coarser than the poll mesh, non-default grid options)",
 "C14-B": "force_poll_mesh=True and an incumbent off the coarse grid",
 "C15-A": "specified noise with reported SDs different from 1 (initial fit only)",
 "C15-B": "two consecutive LinAlgErrors within one GP refit",
 "C16-A": "exactly three consecutive LinAlgErrors at the initial GP fit",
 "C16-B": "specified noise and at least two consecutive LinAlgErrors inside one local refit",
 "C17-A": "", "C17-B": "",
 "C18-A": "bounds that are not multiples of the search mesh and candidates that reach a bound",
 "C18-B": "hedge_beta != 1, i.e. a non-default tol_fun",
 "C19-A": "stochastic target, a swap back to an earlier iterate, then a poll that does not move the incumbent",
 "C19-B": "a nested mutable value recorded and later mutated in place",
 "C20-A": "the user passes None for an advanced option whose default is not None",
 "C20-B": "a log-transformed variable and bounds passed as float ndarrays",
}
MISSED = {
 "C08-B": "missed by every check; C08-R3 generalised from 'float-valued expression' to a dtype dataflow of the stored value (and subscript stores keep the target's dtype)",
 "C11-B": "missed by every check; alias analysis of the stored original bounds added to C01-R1 and C11-R1",
 "C05-A": "missed by every check; C05-R6 added (guard of the final re-sampling), which also surfaced a genuine defect on the unchanged tree (known finding C05-R6)",
 "C20-A": "missed by every check; C20-R1 now requires that *all* user keys are added to the protected set",
 "C20-B": "missed by every check; the alias policy now treats np.asarray(x, dtype=..) as alias-preserving and follows generator-expression unpacking",
 "C14-B": "missed by every check; C14-R5 added (poll candidates are snapped to the search grid only)",
 "C16-A": "missed by every check; C16-R4 added (sibling fit calls agree on the shape of the fallback start)",
 "C16-B": "missed by every check; C16-R2 made path sensitive (the noise filter must lie on every path from the X/Y filter to the next fit)",
 "C15-B": "missed by every check; C15-R5 added (a fit on thinned data works on a deep copy, may-alias analysis)",
 "C07-B": "reported by C20-R3 only; C07-R4 now also flags direct writes into globals()",
 "C09-B": "reported by C16-R2 only; the retry-consistency rule is now shared as C09-R6",
 "C04-B": "reported by C05-R4 (the noise-test clause belongs to C05); not a C04 rule",
}
for sid in sorted(os.listdir(os.path.join(HERE, "seeded"))):
    f = os.path.join(HERE, "seeded", sid, "meta.json")
    if not os.path.exists(f):
        continue
    m = json.load(open(f))
    if NEEDS.get(sid):
        m["needs_to_manifest"] = NEEDS[sid]
    if sid in MISSED:
        m["missed_when_it_arrived"] = True
        m["strengthening"] = MISSED[sid]
    else:
        m["missed_when_it_arrived"] = False
    m["author"] = "independent sub-agent given only the property text and its own git worktree"
    json.dump(m, open(f, "w"), indent=1)
print("annotated")
