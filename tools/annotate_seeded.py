#!/usr/bin/env python3
"""Adds the 'needs_to_manifest' text (from the authors' notes) and the record of which seeded
changes were missed by the checks as they stood when the change arrived."""
import json, os
HERE = os.path.dirname(os.path.dirname(os.path.abspath(__file__)))
NEEDS = {
 "C01-A": "upper hard bound off the search mesh and rounding outward, plus a search candidate beyond that bound (optimum on or beyond it)",
 "C01-B": "bound values whose ginv(g(b)) round trip is inexact outward, the hard bound being a mesh point, optimum on that bound",
 "C02-A": "an initial-design point within half a search-mesh cell of the constraint boundary",
 "C02-B": "a real-valued constraint whose violation lies in (0, tol_mesh ~ 1.9e-6]",
 "C03-A": "noisy target with noise_final_samples > 0 and the reduced budget boundary falling in the middle of a poll",
 "C03-B": "max_iter as the stopping condition with the search stage switched off (search_n_try = 0)",
 "C04-A": "the last initial-design point is the best of the design and is never strictly beaten",
 "C04-B": "options['tol_noise'] = 0 with a deterministic target",
 "C05-A": "a noisy run that ends with iterations == 1 (budget exhausted during the second poll iteration)",
 "C05-B": "auto-detected noise with SD below about 1e-3",
 "C07-A": "the RNG is consumed / another BADS is constructed between constructing and running the instance",
 "C07-B": "an earlier BADS of a different dimension was constructed in the same process",
 "C08-A": "D >= 2 with a half-bounded variable next to a fully bounded one (or one half-bounded on the opposite side)",
 "C08-B": "integer-dtype x0 on or within 0.1% of a hard bound",
 "C09-A": "a noisy run that ends in its first poll iteration",
 "C09-B": "specified noise and two consecutive LinAlgErrors inside one GP refit",
 "C10-A": "specified noise and a reported SD of exactly 0",
 "C10-B": "a target returning an invalid value and a caller that reads func_count after the error",
 "C11-A": "pub/plb == 10 exactly with all four bounds positive",
 "C11-B": "an infinite hard upper bound and coordinates above 6.7e7",
 "C12-A": "specified noise, an exact repeat of a logged point, and an earlier record sharing some but not all coordinates",
 "C12-B": "a variable transform and a record made through add() at a point the transform does not fix",
 "C13-A": "an exact floating-point tie between the improvement and the threshold (quantised objective)",
 "C13-B": "accelerate_mesh=False, iteration > 3, a failed poll while the run is stalling",
 "C14-A": "mesh ratio >= 2 (search mesh coarser than the poll mesh, non-default grid options)",
 "C14-B": "force_poll_mesh=True and an incumbent off the coarse grid",
 "C15-A": "specified noise with reported SDs different from 1 (initial fit only)",
 "C15-B": "two consecutive LinAlgErrors within one GP refit",
 "C16-A": "exactly three consecutive LinAlgErrors at the initial GP fit",
 "C16-B": "specified noise and at least two consecutive LinAlgErrors inside one local refit",
 "C17-A": "", "C17-B": "",
 "C18-A": "bounds that are not multiples of the search mesh and candidates that reach a bound",
 "C18-B": "hedge_beta != 1, i.e. a non-default tol_fun",
 "C19-A": "stochastic target, a swap back to an earlier iterate, then a poll that does not move the incumbent",
 "C19-B": "a nested mutable value recorded and later mutated in place",
 "C20-A": "the user passes None for an advanced option whose default is not None",
 "C20-B": "a log-transformed variable and bounds passed as float ndarrays",
}
MISSED = {
 "C08-B": "missed by every check; C08-R3 generalised from 'float-valued expression' to a dtype dataflow of the stored value (and subscript stores keep the target's dtype)",
 "C11-B": "missed by every check; alias analysis of the stored original bounds added to C01-R1 and C11-R1",
 "C05-A": "missed by every check; C05-R6 added (guard of the final re-sampling), which also surfaced a genuine defect on the unchanged tree (known finding C05-R6)",
 "C20-A": "missed by every check; C20-R1 now requires that *all* user keys are added to the protected set",
 "C20-B": "missed by every check; the alias policy now treats np.asarray(x, dtype=..) as alias-preserving and follows generator-expression unpacking",
 "C14-B": "missed by every check; C14-R5 added (poll candidates are snapped to the search grid only)",
 "C16-A": "missed by every check; C16-R4 added (sibling fit calls agree on the shape of the fallback start)",
 "C16-B": "missed by every check; C16-R2 made path sensitive (the noise filter must lie on every path from the X/Y filter to the next fit)",
 "C15-B": "missed by every check; C15-R5 added (a fit on thinned data works on a deep copy, may-alias analysis)",
 "C07-B": "reported by C20-R3 only; C07-R4 now also flags direct writes into globals()",
 "C09-B": "reported by C16-R2 only; the retry-consistency rule is now shared as C09-R6",
 "C04-B": "reported by C05-R4 (the noise-test clause belongs to C05); not a C04 rule",
}
# wave 2 (ids *-C: two cooperating edits, each harmless alone; *-D: one edit away from the obvious place).
# 'arrival' = properties whose check (as committed when the change arrived: 9c38805 for C01-C12, ead47b7 for C11-C20) exited 1
# on the patched tree; reproduced with the old checker versions from git, see DESIGN.md 11.4.
WAVE2 = {
 "C01-C": (["C01", "C18"], False, "reported, but C01-R5 also fired on the harmless half C_part1 (false alarm, corrected: the rule now reads the effective grid of force_to_grid(x, mesh, tol)); the other half (rounding after the filter) is judged a real weakening and stays reported by C18-R3 / C02"),
 "C01-D": (["C01"], False, ""),
 "C02-C": ([], True, "missed: an optimistic memoised summary through a call cycle hid it (order dependent); summaries are now computed with unseeded parameters"),
 "C02-D": (["C02"], False, ""),
 "C03-C": (["C03", "C05"], False, "reported only because both harmless halves raised false alarms (C03-R4 pattern match, C05-R3 floor); C03-R4 is now a symbolic comparison of the reserve arithmetic and reports the combination only"),
 "C03-D": (["C03", "C04", "C20"], False, ""),
 "C04-C": (["C04", "C12"], False, "C04-R3 also fired on the harmless half C_part2 (false alarm, corrected: nanargmin over the table accepted iff allocation and growth fill with NaN); the other half (zero padding) is a real C12 break and stays reported"),
 "C04-D": (["C01", "C02"], True, "C03/C04/C05 stopped with an analysis error (a local alias of the log arrays was not resolved); aliases are followed now and C04-R3 reports the stale alias"),
 "C05-C": (["C19"], False, "reported only through a false alarm of C19-R1 on the harmless half C_part2; C19-R1 relaxed to the slot the next iteration restores from, C05-R7 added for the combination"),
 "C05-D": (["C07"], True, "the C07 report was a taint false alarm (tuple results tainted every element); own property missed: C05-R8 added (the SD an evaluation returns is the target's own)"),
 "C07-C": ([], True, "missed by every check; C07-R5 added (no value derived from the text rendering of a float array)"),
 "C07-D": (["C07", "C20"], False, ""),
 "C08-C": (["C01", "C08"], False, "reported, but C08-R1 also fired on the harmless half C_part1; the rule now keeps not(a <= b) apart from b < a and accepts the NaN-rejecting spelling in the validator or the transformer"),
 "C08-D": (["C01", "C08"], False, ""),
 "C09-C": ([], True, "missed by every check; C12-R4 now compares the guard of a conditionally allocated per-row array with the guard of its growth"),
 "C09-D": (["C12"], False, "reported by C12-R4 only (the crash is a C12 growth inconsistency)"),
 "C10-C": (["C10"], False, "reported, but C10-R2/R5 also fired on the harmless half C_part1 (validation factored into a helper); rules look one level into helpers now"),
 "C10-D": ([], True, "missed by every check; C10-R6 added (first-element extraction needs a size-1 guard)"),
 "C11-C": (["C01", "C08", "C11"], False, "reported only through false alarms on the harmless half C_part2 (bound conversion moved into a helper); tag policies now summarise package helpers, and the combination is reported by the alias rule C20-R5"),
 "C11-D": ([], True, "missed by every check; C11-R5 added (the masking helper selects by assignment, never by multiplication)"),
 "C12-C": (["C12"], False, "reported, but C12-R4 also fired on both harmless halves (pad / allocate-and-copy growth idioms); growth recognition generalised"),
 "C12-D": (["C12"], False, ""),
 "C13-C": (["C13"], False, "reported only through a false alarm of C13-R1 on the harmless half C_part1 (re-initialisation in run set-up); R1 accepts it now and the combination is reported by the coherence dataflow C13-R5 / C14-R6"),
 "C13-D": (["C04"], True, "reported by C04-R4 only; C05-R9 added (noise-mode decisions never read the logger's construction-time flag)"),
 "C14-C": (["C13"], False, "reported only through a false alarm of C13-R2/R3 on the harmless half C_part2 (local temporaries); locals are dereferenced now and the combination is reported by C14-R6 / C13-R5 (stale slot after the search-triggered expansion)"),
 "C14-D": (["C01", "C17", "C18"], False, ""),
 "C15-C": ([], True, "missed by every check; C15-R7 added (every incumbent move leaves the re-centring request set, or hands back a surrogate fitted around the new incumbent that every caller rebinds)"),
 "C15-D": ([], True, "missed by every check; C15-R6 added (the high-water mark advances per recorded row and is bounded only by the live capacity)"),
 "C16-C": ([], True, "missed by every check; C16-R5 added (the noise vector fit() falls back to is thinned with X and Y)"),
 "C16-D": (["C16"], False, ""),
 "C17-C": (["C02", "C18"], False, "each half is reported on its own as well (removing either constraint check weakens C02-R1 / C18-R3); C17-R3 now also requires the constraint stage"),
 "C17-D": (["C01"], False, "reported by C01-R5 (sibling implementations of the search-bound rounding disagree)"),
 "C18-C": ([], True, "missed by every check; coherence dataflow C18-R6 added"),
 "C18-D": ([], True, "missed by every check; C18-R7 added (GP-predicted quantities reach the hedge reward only under isfinite guards)"),
 "C19-C": (["C05", "C19"], False, ""),
 "C19-D": ([], True, "missed by every check; C19-R6 added (a result field stored anywhere is stored on every path, exceptional edges included)"),
 "C20-C": (["C08", "C20"], False, "the half C_part2 alone is reported by C08-R3 (integer x0 truncated in place) and judged real"),
 "C20-D": (["C07"], False, "reported by C07-R2 (the seed option is never applied)"),
}
# wave 3 (ids *-E interprocedural, *-F state over time, *-G numeric / dtype): what the checks of commit 271c305 reported
# when the changes arrived (tools/wave3_arrival.json, produced by tools/quick_patch_check.sh over the 57 patches)
WAVE3 = json.load(open(os.path.join(HERE, "tools", "wave3_arrival.json")))
WAVE3_NOTE = {
 "C03-F": "C03-R4: no call that can still raise the noise level after the reserve is decided",
 "C03-G": "C13-R4: sympy identity of the snapped mesh tolerance",
 "C13-G": "C13-R4: sympy identity of the snapped mesh tolerance",
 "C04-E": "analysis error (incumbent update discovered by its store of self.u); discovery made robust, C04-R1 reports the missing store",
 "C04-F": "C04-R4: the deterministic fsd = 0 carries no guard beyond the noise level",
 "C05-F": "C05-R7 / C19-R1: a swap assigns all of yval / fval / fsd",
 "C09-F": "C09-R7 / C16-R6: operands of the thinning mask are computed from the current arrays",
 "C09-G": "C09-R8: size of the high-density subset >= 1 at N = 1 (constant folding)",
 "C11-E": "C11-R6: internal boxes are g(<pristine copy of the bound>)",
 "C12-E": "analysis error (record call located by positional argument count); parameter roles are read off the stores and calls bound by name, C12-R3 reports the swapped positional call in add()",
 "C12-G": "C12-R6: integer-truncating operators on values not proven float",
 "C14-E": "C14-R7: the filter projects exactly when its flag is set",
 "C15-G": "NOT DECIDED: floating-point cancellation in the distance (numeric; the periodic branch of the unchanged code uses the same expansion)",
 "C17-E": "analysis error in all checks (constraint callable stored through a wrapper); discovery made robust, C02-R5 / C17-R4 added",
 "C17-F": "NOT DECIDED: rests on the known finding C17-R2 and on the surrogate's numerical state",
 "C18-E": "C01-R6 / C18-R8: helpers do not write into arrays they are handed",
 "C18-F": "C18-R10: survivor selection on every path of a generation",
 "C18-G": "C18-R9: ranked values carry the acquisition's provenance",
 "C19-E": "C19-R7: self.x0 does not may-alias a constructor argument",
 "C20-E": "C20-R7: option names handed to the dict unchanged",
 "C08-G": "reported by C01 only on arrival; C08-R3 dtype dataflow now follows numpy's promotion through broadcast_to",
 "C13-F": "reported by C04 / C05 only on arrival; C13-R6 added",
 "C16-E": "reported by C15 only on arrival; C16-R7 added",
 "C16-F": "reported by C15 only on arrival; C16-R6 added",
}
# wave 6 (ids *-H extract / move refactoring with a slip, *-I data-shape refactoring with a slip, *-J control-flow
# refactoring with a slip): what the checks of commit 63a0f4f.. (before any wave-6 fix) reported when the changes arrived
WAVE6 = json.load(open(os.path.join(HERE, "tools", "wave6_arrival.json")))
WAVE6_NOTE = {
 "C04-I": "missed by every check; C04-R5 added (must-dataflow: self.fval equals self.yval at the end of the initialisation)",
 "C04-J": "missed by every check; C04-R6 added (finite-domain evaluation of the noise-level start-up code over {None, False, True}^2)",
 "C10-J": "missed by every check (the pair-format test was matched loosely); C10-R4 now evaluates the test as a truth table over 'is a tuple' x 'has length 2'",
 "C12-H": "missed by every check because TagFlow bound the targets of a tuple assignment one after the other (a, b = b, a); the right-hand side is now evaluated first, C12-R3 reports the swapped pair",
 "C12-J": "missed by every check; C12-R5 now path-sensitive (every path to the new-row stores has tested the record flag true)",
 "C15-H": "missed by every check; C15-R8 added (the surrogate a step works with is selected around the incumbent)",
 "C16-H": "missed by every check; C16-R8 added (the vector installed with set_hyperparameters in the retry handler is the one the next attempt starts from)",
 "C20-J": "missed by every check; C20-R2 now rejects an early exit (break / return) from the name-validation loop",
 "C01-H": "reported by C02 / C08 only on arrival; C01-R2 now requires a finiteness guard before the validator's x0 (possibly the NaN placeholder) reaches the constraint callable",
 "C07-I": "reported by C01 / C08 / C11 only on arrival (conservatively: dtype / copy not established through the list built in a loop); the normaliser now unrolls the loop and the list, C20-R5 names the alias, and the rule is shared as C07-R6",
 "C08-H": "reported by C01 only on arrival - and for a reason that does not hold for C01 (a clamp to the hard bounds keeps x0 in the box): ValPolicy corrected, C08-R7 added (x0 is clamped to the *effective* bounds)",
 "C09-I": "reported by C20-R5 (the caller's arrays are overwritten; the crash of the second run is its consequence); not a C09 clause of its own",
 "C09-J": "reported by C18-R7 only on arrival; the hedge-reward finiteness rule is shared as C09-R9",
 "C04-H": "reported on arrival only as 'construct not found' (argmin(..).item() not followed), which the repaired refactoring triggered as well; C04-R3 now follows the scalar conversion and reports the short slice",
 "C15-I": "reported on arrival only as 'construct not found' (rows appended by a setattr loop over a dict), which the repaired refactoring triggered as well; dict-built loops are unrolled, C15-R1 reports the SD that is not squared",
 "C12-I": "reported on arrival with a confused message; lists built from literals are unrolled with per-copy temporaries and the growth analysis follows locals: C12-R4 reports the NaN fill of n_evals",
 "C17-H": "reported on arrival only as 'constraint stage not found'; new public helpers are inlined, the constraint mask is read NaN-strictly: 'not (C > 0)' keeps NaN rows",
 "C19-I": "reported on arrival as 'result field not found'; C19-R4 now says that dict.update() bypasses the copying item setter",
 # wave 7: the report on arrival was an alarm that the repaired refactoring raised as well
 "C13-J": "reported on arrival only through an alarm the repaired refactoring raised too; C13-R3 now requires the search-size refinement to be guarded by the failed poll and 'not search_size_locked' only",
 "C15-J": "reported on arrival only through an alarm the repaired refactoring raised too; C15-R3 evaluates the training-set size by cases against min(max(n_min, n_max - buffer, min(n_max, within radius)), logged)",
 "C16-I": "reported on arrival only through an alarm the repaired refactoring raised too; C16-R6 reports the restart vector that is a snapshot taken before its slot was re-bound in the retry loop",
 "C18-I": "reported on arrival only because the strategy call could not be resolved through the class table (the repaired refactoring alarmed too); class tables are resolved, C18-R11 added: the strategy class is selected by the drawn entry's name, not by its portfolio position",
 "C19-J": "reported on arrival by the structural label rule, which the repaired refactoring (branches re-ordered) triggered as well; C19-R4 decides the labels by cases and names the failing combination",
 "C20-H": "reported on arrival as 'options not handed to the constructor', which the repaired refactoring triggered as well; C20-R1 now requires that a file with derived defaults is not the constructor's file (read from the ini values)",
 "C08-I": "reported on arrival as 'guard not found', which the repaired refactoring (flags taken at entry) triggered as well; C08-R1/R6 are decided over which arguments are None (32 cases) and name the rejected valid definition",
}
# wave 8 (ids *-P performance change with a slip, *-Q feature / robustness addition with a slip, *-R idiom modernisation
# with a slip; each has a correct twin seeded/_refactor/*-{P,Q,R}ok.patch or seeded/_open/): what the checker of commit
# 695b07c reported when the changes arrived
WAVE8 = json.load(open(os.path.join(HERE, "tools", "wave8_arrival.json"))) if os.path.exists(os.path.join(HERE, "tools", "wave8_arrival.json")) else {}
WAVE8_NOTE = {
 "C01-Q": "missed by every check; C12-R9 added (no in-place numpy operation on a view of a log table)",
 "C09-P": "missed by every check; C12-R1 now requires the duplicate look-up to scan all filled rows ([: Xn + 1]); the ValueError of the demonstration is the consequence",
 "C12-P": "missed by every check; C12-R1 now requires the duplicate look-up to scan all filled rows ([: Xn + 1])",
 "C19-Q": "missed by every check; C19-R3 now forbids item stores past the checking setter anywhere in the result class",
 "C20-P": "missed by every check; the alias policy now follows astype(copy=False)",
 "C13-P": "reported on arrival by C04 only, through an alarm the correct version raised too; C13-R1 now requires the stall statistic to use the current self.fval / self.fsd (a copy taken before the incumbent could move is reported as stale)",
 "C04-P": "reported on arrival by C19 only, through an alarm the correct version raised too; C19-R2 decides the coherence of the cached self.x with self.u by must-dataflow",
 "C08-P": "reported on arrival only through an alarm the correct version raised too; C08-R7 now requires a guard that says all 2D bounds are infinite before the effective bounds may equal the hard bounds",
 "C08-R": "reported on arrival only through an alarm the correct version raised too; C08-R3 now follows ufunc out= stores",
 "C10-Q": "reported on arrival together with six other checks that lost the run method behind the try wrapper (the correct version alarmed too); the wrapper is unwrapped, C10-R3 accepts straight-line re-raising handlers and reports the rebuilt exception",
 "C13-R": "reported on arrival by rules that lost the noise-mode test behind the property (the correct version alarmed too); new read-only properties are expanded, C13-R6 / C05-R9 name the construction-time flag",
 "C07-P": "still missed: a module-level cache whose key leaves out the seed; the checker reports the shared mutable cache of the correct version as well (open false alarm), it cannot judge key completeness",
 "C07-Q": "still missed: RNG state restored before the final samples (ordering of a new feature's two statements)",
 "C10-R": "still missed: list comprehension for generator changes the evaluation order of the validity predicates (TypeError for None)",
 "C14-Q": "still missed: extra disjunct in the poll-loop condition of a new option",
 "C16-P": "still missed: cached distance matrix not shrunk with the training set (IndexError in the third retry)",
 "C16-Q": "still missed: new per-iteration statistic recorded at iteration -1 (ValueError during the initial training)",
 "C16-R": "still missed: np.size(None) == 1 reaches len(None)",
 "C18-P": "still missed: stale cached search bounds (>= for ==)",
 "C18-Q": "still missed: off-by-one in the step count of a new annealing option",
 "C20-Q": "missed by every check; C20-R2 now requires the membership test on the key as given (a lower-cased key accepts mis-capitalised names)",
}
import re
def needs_from_notes(sid):
    f = os.path.join(HERE, "seeded", sid, "NOTES.md")
    if not os.path.exists(f):
        return None
    txt = open(f, encoding="utf-8", errors="replace").read()
    letter = sid.split("-")[1]
    if sid in WAVE6 and letter in "HIJ":
        letter = {"H": "E", "I": "F", "J": "G"}.get(letter, letter)  # wave-6 notes are headed E / F / G
    m = re.search(r"^## Change %s\b.*?(?=^## Change [A-Z]\b|\Z)" % letter, txt, re.S | re.M)
    sec = m.group(0) if m else txt
    lines = sec.splitlines()
    for i, l in enumerate(lines):
        if re.search(r"manifest", l, re.I):
            out = []
            j = i
            if l.lstrip().startswith("#") or len(l.strip()) < 45:
                j = i + 1
                while j < len(lines) and not lines[j].strip():
                    j += 1
            for l2 in lines[j:j + 14]:
                if out and (not l2.strip() or l2.startswith("#")):
                    break
                out.append(l2.strip())
            t = " ".join(out)
            t = re.sub(r"^[#*\\-\\s]*", "", t)
            t = re.sub(r"^(What is )?[Nn]eeded (for it )?to manifest\\W*", "", t)
            return t[:600]
    return None

for sid in sorted(os.listdir(os.path.join(HERE, "seeded"))):
    f = os.path.join(HERE, "seeded", sid, "meta.json")
    if not os.path.exists(f):
        continue
    m = json.load(open(f))
    if NEEDS.get(sid):
        m["needs_to_manifest"] = NEEDS[sid]
    elif sid in WAVE2 or sid in ("C17-A", "C17-B"):
        nt = needs_from_notes(sid)
        if nt:
            m["needs_to_manifest"] = nt
    if sid in WAVE8:
        w = WAVE8[sid]
        m["wave"] = 8
        m["reported_on_arrival_by"] = w["reported_on_arrival_by"]
        m["rules_on_arrival"] = w.get("rules_on_arrival", [])
        if w["analysis_error_on_arrival"]:
            m["analysis_error_on_arrival"] = w["analysis_error_on_arrival"]
        m["missed_when_it_arrived"] = not w["reported_on_arrival_by"]
        if sid in WAVE8_NOTE:
            m["strengthening"] = WAVE8_NOTE[sid]
        nt = needs_from_notes(sid)
        if nt:
            m["needs_to_manifest"] = nt
    elif sid in WAVE6:
        w = WAVE6[sid]
        m["wave"] = 6
        m["reported_on_arrival_by"] = w["reported_on_arrival_by"]
        m["rules_on_arrival"] = w.get("rules_on_arrival", [])
        if w["analysis_error_on_arrival"]:
            m["analysis_error_on_arrival"] = w["analysis_error_on_arrival"]
        m["missed_when_it_arrived"] = not w["reported_on_arrival_by"]
        if sid in WAVE6_NOTE:
            m["strengthening"] = WAVE6_NOTE[sid]
        nt = needs_from_notes(sid)
        if nt:
            m["needs_to_manifest"] = nt
    elif sid in WAVE3:
        w = WAVE3[sid]
        m["wave"] = 3
        m["reported_on_arrival_by"] = w["reported_on_arrival_by"]
        if w["analysis_error_on_arrival"]:
            m["analysis_error_on_arrival"] = w["analysis_error_on_arrival"]
        m["missed_when_it_arrived"] = not w["reported_on_arrival_by"]
        if sid in WAVE3_NOTE:
            m["strengthening"] = WAVE3_NOTE[sid]
        nt = needs_from_notes(sid)
        if nt:
            m["needs_to_manifest"] = nt
    elif sid in WAVE2:
        arr, missed, note = WAVE2[sid]
        m["reported_on_arrival_by"] = arr
        m["missed_when_it_arrived"] = missed
        if note:
            m["strengthening"] = note
        m["wave"] = 2
    elif sid in MISSED:
        m["missed_when_it_arrived"] = True
        m["strengthening"] = MISSED[sid]
    else:
        m["missed_when_it_arrived"] = False
    m["author"] = "independent sub-agent given only the property text and its own git worktree"
    json.dump(m, open(f, "w"), indent=1)
print("annotated")
