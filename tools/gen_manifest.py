#!/usr/bin/env python3
"""Regenerate /verif/MANIFEST.json from the table below.  A property is listed
under ``checks`` only when its rule pack exists under pbstatic/rules/ and is
marked ready here; everything else is listed under ``not_applicable`` with the
reason.  Run:  python3 tools/gen_manifest.py"""
import json
import os

HERE = os.path.dirname(os.path.dirname(os.path.abspath(__file__)))

T = {
    "C01": dict(
        technique="static analysis: provenance (must-tag) dataflow over CFGs + clamp recogniser + sibling cross-check + effect analysis (no in-place write through array parameters of helpers)",
        text="Decides, for every path, that each argument of the target, of the constraint callable and the stored result.x has passed the two-sided clamp to the original hard box (inverse transform), that point-valued slots only receive filtered/clamped rows, and that the two implementations of the inward-rounded search box agree. Floating-point rounding beyond the clamp and NaN are not decided.",
        note="Trusted: numpy min/max/clip semantics, CPython parser, finite-bounds validation (NaN excluded), effective bounds lie inside the hard bounds (shape checked, arithmetic trusted).",
        ref="4/C01",
    ),
    "C02": dict(
        technique="static analysis: provenance dataflow for FEASIBLE tag, must-pass-through on the CFG, call-graph reachability, identity check of the stored constraint callable",
        text="Decides that every argument of the target carries 'filtered with the user's constraint callable' provenance on all paths (filter summary: mask C<=0 on inverse(U) of the rows selected, last selection before return), that x0 is rejected before and after snapping on all paths, and that the constructor cannot reach the target. Purity of the user's constraint function is assumed.",
        note="Trusted: boolean row selection semantics; the constraint callable is deterministic.",
        ref="4/C02",
    ),
    "C03": dict(
        technique="static analysis: who-may-call (call graph), CFG dominance/post-dominance of the counter increment, linear normal forms of loop guards, symbolic reserve arithmetic, CFG ordering of the reserve after noise detection",
        text="Decides the safety clauses: single target call site, func_count incremented exactly once after validation on every normal path and on no raising path, a budget exit (count >= max_fun_evals as a linear normal form) in every evaluating loop, reserve arithmetic for the final samples, progress counters, and agreement between each termination message and its guard. Liveness as a whole is not decided (necessary conditions only).",
        note="Trusted: implicit exceptions outside try bodies are not modelled; the user's target terminates.",
        ref="4/C03",
    ),
    "C04": dict(
        technique="static analysis: def-use pairing of (point, value) at incumbent updates, term normalisation of the improvement orientation, must-dataflow of the initial estimate, finite-domain evaluation of the noise-level start-up code",
        text="Decides that result fields are read from the incumbent tuple, that every (point, value) pair handed to the incumbent update stems from the same logger call, that improvement is f_base - f_new with strict moves, that the running poll best is replaced on '>' only, and that the initial incumbent is argmin with point and value taken at the same index.",
        note="Trusted: the log stores the value unchanged (C12-R3).",
        ref="4/C04",
    ),
    "C05": dict(
        technique="static analysis: CFG reachability + def-use on the final sampling loop, sympy term identity for mean / standard error, slice-offset agreement, guard analysis, provenance of the returned SD, store-group coherence, noise-mode read discipline",
        text="Decides the structure of the final estimate: samples are taken at the very u that becomes x with the no-record flag, nothing evaluates after them, fval/fsd are mean / std/sqrt(n) of yval_vec, argmin over a[k:] is offset by k, and the noise test raises the level iff |y - y'| > tol_noise; the final re-sampling is guarded by the noisy mode and noise_final_samples > 0 only (known finding: an extra poll_iteration > 0 guard); the SD an evaluation returns is the target's own; the incumbent tuple stays coherent (shared with C19-R1). Numeric values are not decided.",
        note="Trusted: np.mean/np.std semantics.",
        ref="4/C05",
    ),
    "C07": dict(
        technique="static analysis: effect enumeration of randomness/entropy sources, CFG dominance of the seed call, interprocedural time-taint, global mutable state / globals() write lint, print-option dependency lint",
        text="Decides randomness-source discipline (only numpy's global generator and a Sobol engine seeded from the start point), that seeding dominates every draw in the constructor and in optimize(), that wall-clock values reach only timing slots, and that no process-global mutable state survives between instances.",
        note="Trusted: gpyreg/scipy draw from numpy's global legacy stream when no rng is passed; BLAS determinism.",
        ref="4/C07",
    ),
    "C08": dict(
        technique="static analysis: guard checklist over NaN-strict quantified-predicate normal forms (helpers inlined, validator and transformer combined), quantifier-distribution lint, dtype dataflow of in-place stores, call-graph reachability, finite-domain evaluation of the constructor's opening over which arguments are None, clamp of x0 to the effective bounds",
        text="Decides the structure of the validator: every documented invalid class has a raising guard (strictness included) on all paths before the transformer is built, validity predicates are per-coordinate, caller-supplied integer arrays are cast before float in-place stores, inputs are normalised with atleast_2d before comparison, and the constructor cannot reach the target.",
        note="Not proven: that no valid problem is rejected beyond the per-coordinate/strictness checks; rounding-distance cells are numeric.",
        ref="4/C08",
    ),
    "C09": dict(
        technique="static analysis: maybe-empty dataflow, dict-key must-definition with writer/reader guard agreement, return-rank abstract interpretation",
        text="Decides named crash classes only: possibly-empty candidate sets indexed without an emptiness guard, optim_state keys read under a weaker guard than their writes, rank disagreement between the return paths of the log record routine, result keys outside the allowed list, missing non-finite GP fallback. Numeric crashes are out of reach and not claimed.",
        note="Known findings (recorded, not repaired): ES survivors indexed without guard; eff_starting_points at max_fun_evals=1.",
        ref="4/C09",
    ),
    "C10": dict(
        technique="static analysis: CFG of the target-call handler, dominance of validation over record/count (one level into helpers), call graph through try bodies, sibling cross-check, target-value provenance with an is-array type-state, truth table of the (value, SD) format test",
        text="Decides that the handler around the target re-raises the same exception on every path, that validation raises dominate the record call and the counter increment, that no other try body in the package can reach the target, and that __call__ and add agree on the value/SD checklist (isscalar first).",
        note="Trusted: bare raise re-raises the active exception.",
        ref="4/C10",
    ),
    "C11": dict(
        technique="static analysis: term algebra (sympy normal forms) on the transform lambdas, clamp recogniser, mask complement check, form check of the masking helper, provenance of the returned internal boxes, truth table of the transform-type classification",
        text="Decides algebraic/structural clauses: both directions end in a two-sided clamp, ginv(g(x)) = x, g(plb) = -1, g(pub) = +1, positive slope, complementary masks shared by g and ginv, the log rule (all four bounds > 0 and pub/plb >= 10 on undetermined coordinates only), and that the masking helper selects by assignment (never v * mask, which is NaN for infinite entries). The 1e-9 accuracy is numeric and not decided.",
        note="Trusted: sympy simplification; exp/log are mutually inverse on positive reals.",
        ref="4/C11",
    ),
    "C12": dict(
        technique="static analysis: rank abstract interpretation, parallel-array consistency, parameter-provenance dataflow, growth-idiom recognition (fill / copy bound / guard agreement relative to the increment order), effect sets, sympy term identity, parameter roles read off the stores, integer-truncation lint on the merge, look-up range of the duplicate scan, in-place-operation lint on views of the log tables",
        text="Decides the structure of the record routine on all paths: row index from a rank-1 mask, one index per path, parameters stored unchanged, growth covers exactly the per-row arrays, no-record path writes only counters/timing, merge is the precision-weighted mean, n_evals advances once per path.",
        note="Trusted: numpy argwhere/append semantics.",
        ref="4/C12",
    ),
    "C13": dict(
        technique="static analysis: store-site enumeration with guard normal forms, ini-file constant reader, interprocedural must-dataflow (gen/kill method summaries, flag-conditional facts) for the coherence of the mesh-size slots with their exponents, sympy identity of the snapped mesh tolerance",
        text="Decides the complete set of stores to the poll mesh exponent (+1 capped on success, -1 otherwise, a further -1 under acceleration and stall, one option-gated site dead under shipped defaults), that mesh size is multiplier**exponent with constants from the ini files, that the search exponent is min(., m*k - n) hence <= m, the tol_mesh message guard, and that every read of a mesh-size slot sees multiplier ** exponent computed after the last store to the exponent on all paths.",
        note="Trusted: configparser reading of the two ini files as re-implemented by the ini reader.",
        ref="4/C13",
    ),
    "C14": dict(
        technique="static analysis: finite-set abstract evaluation of the random draws, CFG post-dominance in the poll loop, term agreement of the scale round trip, mesh-size coherence dataflow in the poll step, guard analysis of the filter's projection branch",
        text="Decides that the generator returns [M; -M] with M strictly triangular plus a non-zero diagonal followed only by rank-preserving operations, entries bounded by the mesh ratio, the poll scale divided out and multiplied back by the same expression, the polled row deleted and the counter advanced on every evaluating path, the loop bounded by 2*D, and the mesh sizes read by the poll step are current.",
        note="Trusted: randint(1,3) in {1,2}; tril/triu semantics; row permutation and transpose preserve rank.",
        ref="4/C14",
    ),
    "C15": dict(
        technique="static analysis: unit-tag (SD/VAR) dataflow into every s2 sink, who-may-write the GP training triple, parallel-array selector consistency, may-alias analysis of the retried fit, sympy identity for the LCB schedule, normal form of the log high-water mark, must-dataflow of the re-centring request after incumbent moves, finite-domain evaluation of the training-set size, centre of the selected neighbourhood",
        text="Decides SD->variance unit discipline at every sink of gp.s2 / fit(s2), that the training triple is written only from the neighbour selector / incremental add, that U, Y, S are indexed by one ascending-distance selector with min/max clamps, that the acquisition is mean - sqrt(beta_t)*sd with the documented schedule, that the high-water mark the selector slices the log with advances per recorded row bounded only by the live capacity, and that every incumbent move leaves the re-centring request set (or returns a surrogate fitted around the new incumbent).",
        note="Trusted: gpyreg's s2 is a variance; argsort ascending.",
        ref="4/C15",
    ),
    "C16": dict(
        technique="static analysis: handler analysis of every GP.fit call site, retry-loop bound, path-sensitive parallel-array consistency inside the retry, sibling agreement of fallback shapes, stored-noise consistency against gpyreg's fit contract, def-use closure of the thinning mask, completeness of re-bound training triples, staleness (reaching-definition) check of the restart vector",
        text="Decides that every hyperparameter fit is inside a retry loop under a non-re-raising LinAlgError handler admitting at least five attempts, that X, Y and the noise vector passed to the next fit are filtered through the same mask (including the stored vector fit() falls back to when its argument is None), and that the posterior update has a fallback.",
        note="Ten consecutive failures (res unbound) are outside the property's quantifier and reported as a diagnostic.",
        ref="4/C16",
    ),
    "C17": dict(
        technique="static analysis: pipeline-order dataflow in the candidate filter, row-set abstract interpretation of the removal idiom",
        text="Decides that box stage, de-duplication, evaluated-row removal and constraint stage are present in dataflow order on all paths with the right polarity, that the removal idiom is a set difference, and that only rows that passed the box, removal and constraint stages reach the target; the only no-record repeat in deterministic mode is the noise test.",
        note="Known finding (recorded, not repaired): the removal idiom keeps evaluated rows; the existing test pins that behaviour.",
        ref="4/C17",
    ),
    "C18": dict(
        technique="static analysis: min-selection idiom check, lock-step accumulation, CFG (one logger call outside loops), sympy affine form of the hedge probabilities, guard check of the hedge reward (def-use closure from GP predictions), mesh-size coherence dataflow for the search mesh, provenance of the ranked values, CFG check that the survivor selection is on every path of a generation, helper purity, name-to-class dispatch table of the strategy that runs (class tables resolved)",
        text="Decides ascending argsort with index 0 / argmin on the same array, lock-step accumulation of candidates and values, acquisition evaluated on filtered rows only, one target call per search step outside any loop, and hedge probabilities affine in a normalised vector with a + n*b = 1, b = gamma, a >= 0, hedge rewards finite (GP-predicted quantities only under isfinite guards), search-mesh slots current where read. The rank-selection mask combinatorics are not decided.",
        note="Trusted: np.argsort ascending; ini constants gamma=0.125, n=2.",
        ref="4/C18",
    ),
    "C19": dict(
        technique="static analysis: store-group (incumbent tuple) coherence, record-block index agreement, deep-copy setter check, result source table, must-definition dataflow of the result fields over exceptional edges, may-alias analysis of the stored x0, finite-domain evaluation of the result labels, item-setter bypass lint over the whole result class, must-dataflow (gen/preserve method summaries) for the coherence of a cached original-space incumbent",
        text="Decides that value/estimate/SD and the point the next iteration reads move together from the same history index, that one record block with one index records each iteration with x = inverse(u), that history/result setters deep-copy and reject unknown keys, that result fields read their designated state locations, and that the field set is the same on every path.",
        note="Trusted: copy.deepcopy semantics.",
        ref="4/C19",
    ),
    "C20": dict(
        technique="static analysis: guard/dominance analysis of the options loader, ini reader, who-may-write options table, alias + in-place store analysis, key-identity check of the options container, load order of option files with derived defaults, membership test of option names on the key as given",
        text="Decides that loader writes are guarded by the protected-names set filled before the second file loads, name validation post-dominates loading, evaluation parameters are exec'd before every eval loop with no deferred use, every store into options outside the loader is a classified site, and no in-place store goes through an alias of a caller array or the caller's dict.",
        note="Known finding (recorded): in-place write into the caller's plausible bounds on the multi-row-x0 path.",
        ref="4/C20",
    ),
}

NA = {
    "C06": "population statistics of numerical outcomes of an adaptive floating-point algorithm (>=90% of >=60 random quadratics within 1e-3; median evaluations): no dataflow/typestate/effect abstraction bounds convergence; its only structural clause (never worse than the snapped start) is the monotone-incumbent argument claimed under C04.",
}

NOT_READY_REASON = "rule pack not yet built in this tree (static-analysis design in DESIGN.md section 4); not claimed until its rules fire on mutants and are silent on the clean tree"


def main():
    ready = []
    for pid in sorted(T):
        if os.path.exists(os.path.join(HERE, "pbstatic", "rules", pid.lower() + ".py")):
            ready.append(pid)
    checks = []
    for pid in ready:
        t = T[pid]
        checks.append(
            {
                "property_id": pid,
                "quick_cmd": f"python3-vt -m pbstatic.run {pid} --tier quick",
                "thorough_cmd": f"python3-vt -m pbstatic.run {pid} --tier thorough",
                "evidence_file": f"/verif/evidence/{pid}.json",
                "replay_cmd_template": "python3-vt -m pbstatic.run --replay {path}",
                "engine": "pbstatic",
                "level_claimed": {"category": "other", "text": t["text"], "design_ref": f"DESIGN.md section {t['ref']}"},
                "level_note": t["note"],
                "technique": t["technique"],
            }
        )
    na = [{"property_id": k, "reason": v} for k, v in sorted(NA.items())]
    for pid in sorted(T):
        if pid not in ready:
            na.append({"property_id": pid, "reason": NOT_READY_REASON})
    m = {
        "version": 1,
        "setup_cmd": "python3-vt -m pbstatic.selfcheck --fast",
        "hooks": {
            "guard": "ACERBILAB_PYBADS_VERIF",
            "enable": "none needed: static analysis reads /repo's sources, no instrumentation is compiled in",
            "baseline_off_cmd": "cd /repo && /venv/bin/python -m pytest -ra -q -p no:cacheprovider --timeout=900 --continue-on-collection-errors",
            "source_commits": [],
            "add_only": True,
        },
        "engines": [
            {
                "name": "pbstatic",
                "path": "/verif/pbstatic",
                "serves_properties": ready,
                "kind_free_text": "repository-specific static analyser (Python ast, hand-built CFGs with dominators, call graph, must-tag dataflow, term normaliser with sympy bridge, ini reader; the parsed program is first normalised syntactically - helpers not in the confirmed inventory are inlined at their call sites, single-definition locals are dereferenced - so rules see the same shapes after an extract-method or rename refactoring); never imports or runs pybads",
            }
        ],
        "checks": checks,
        "not_applicable": sorted(na, key=lambda d: d["property_id"]),
        "notes": "All checks are static (no execution of pybads, no solver). Exit 0 holds / 1 VIOLATION / 2 ANALYSIS-ERROR. Known findings live in /verif/known_findings.json. Before the rules run, the parsed tree is normalised (pbstatic/inline.py, DESIGN.md section 3 A9): reports made inside an inlined helper name the helper and the function it was analysed in. Thorough tier additionally runs the checker's own mutant/twin corpus on scratch copies under a temporary directory outside /repo and /verif.",
    }
    with open(os.path.join(HERE, "MANIFEST.json"), "w") as fh:
        json.dump(m, fh, indent=1)
    print("claimed:", ready)


if __name__ == "__main__":
    main()
