"""A10 normalisation: scalar replacement of small aggregates.

A maintainer groups values that travel together into a private NamedTuple /
namedtuple / dataclass or a literal tuple (``box = (lb, ub)``;
``_update_incumbent_(_Incumbent(u, y, f, s))``; ``checked = self._bounds_check_(..)``
followed by ``checked.lb``).  Nothing about the behaviour changes, but every rule
that follows a value from its producer to its consumer would have to look through
the constructor and the field read.  This pass removes the aggregate again, purely
syntactically and only where that is exact:

* a local whose every definition has one known shape (record constructor, tuple
  literal, call of a function all of whose returns have that shape, another such
  local) and which is only read field-wise (``t.a``, ``t[0]``, ``a, b = t``,
  ``f(*t)``) - or also passed on whole, in which case the aggregate is rebuilt from
  the scalars right after the definition - becomes one local per field;
* a parameter of a private function that receives such a shape at every call site
  and is only read field-wise becomes one parameter per field (all call sites are
  rewritten);
* ``return X(a, b, c)`` of a function whose every call site is consumed field-wise
  becomes ``return (a, b, c)``.

Names are ``<var>__<field>``.  The pass never guesses: an unknown use, a rebinding
of another shape, a closure, a default value, a call site that cannot be resolved
leaves the aggregate alone.
"""
from __future__ import annotations

import ast
import copy
from typing import Dict, List, Optional, Set, Tuple

from .model import FunctionInfo, Program, bind_args

Shape = Tuple[str, str, Tuple[str, ...]]  # (kind 'rec'|'tup', class name | arity, field names)


class Rec:
    def __init__(self, name: str, fields: List[str], defaults: Dict[str, ast.AST], mutable: bool):
        self.name, self.fields, self.defaults, self.mutable = name, fields, defaults, mutable

    @property
    def shape(self) -> Shape:
        return ("rec", self.name, tuple(self.fields))


def _const_names(spec) -> Optional[List[str]]:
    if isinstance(spec, ast.Constant) and isinstance(spec.value, str):
        return [x for x in spec.value.replace(",", " ").split() if x]
    if isinstance(spec, (ast.List, ast.Tuple)) and all(isinstance(e, ast.Constant) and isinstance(e.value, str) for e in spec.elts):
        return [e.value for e in spec.elts]
    return None


def record_classes(prog: Program) -> Dict[str, Rec]:
    out: Dict[str, Optional[Rec]] = {}

    def put(r: Rec):
        if r.name in out and (out[r.name] is None or out[r.name].fields != r.fields):
            out[r.name] = None  # ambiguous name: never used
        else:
            out[r.name] = r

    for m in prog.modules.values():
        for node in m.tree.body:
            if isinstance(node, ast.ClassDef):
                bases = [b.id if isinstance(b, ast.Name) else b.attr if isinstance(b, ast.Attribute) else None for b in node.bases]
                decos = []
                for d in node.decorator_list:
                    f = d.func if isinstance(d, ast.Call) else d
                    decos.append(f.id if isinstance(f, ast.Name) else f.attr if isinstance(f, ast.Attribute) else None)
                is_nt = "NamedTuple" in bases
                is_dc = "dataclass" in decos
                if not (is_nt or is_dc) or (is_dc and bases):
                    continue
                if any(isinstance(x, (ast.FunctionDef, ast.AsyncFunctionDef)) and x.name in ("__post_init__", "__new__", "__init__", "__getattr__") for x in node.body):
                    continue
                fields, defaults = [], {}
                for x in node.body:
                    if isinstance(x, ast.AnnAssign) and isinstance(x.target, ast.Name):
                        fields.append(x.target.id)
                        if x.value is not None:
                            defaults[x.target.id] = x.value
                if fields:
                    put(Rec(node.name, fields, defaults, mutable=is_dc))
            elif isinstance(node, ast.Assign) and len(node.targets) == 1 and isinstance(node.targets[0], ast.Name) and isinstance(node.value, ast.Call):
                f = node.value.func
                fname = f.id if isinstance(f, ast.Name) else f.attr if isinstance(f, ast.Attribute) else None
                if fname == "namedtuple" and len(node.value.args) >= 2 and not node.value.keywords:
                    names = _const_names(node.value.args[1])
                    if names:
                        put(Rec(node.targets[0].id, names, {}, mutable=False))
    return {k: v for k, v in out.items() if v is not None}


def _always_returns(stmts: List[ast.stmt]) -> bool:
    if not stmts:
        return False
    s = stmts[-1]
    if isinstance(s, (ast.Return, ast.Raise)):
        return True
    if isinstance(s, ast.If):
        return _always_returns(s.body) and _always_returns(s.orelse)
    if isinstance(s, ast.Try):
        return (_always_returns(s.finalbody) if s.finalbody else False) or (
            _always_returns(s.body + s.orelse) and all(_always_returns(h.body) for h in s.handlers)
        )
    if isinstance(s, ast.With):
        return _always_returns(s.body)
    return False


def _own_nodes(fn_node):
    """Nodes of a function excluding nested function / lambda / class bodies (the nested node itself is yielded)."""
    stack = list(ast.iter_child_nodes(fn_node))
    while stack:
        n = stack.pop()
        yield n
        if isinstance(n, (ast.FunctionDef, ast.AsyncFunctionDef, ast.Lambda, ast.ClassDef)):
            continue
        stack.extend(ast.iter_child_nodes(n))


def _nested_names(fn_node) -> Set[str]:
    out = set()
    for n in _own_nodes(fn_node):
        if isinstance(n, (ast.FunctionDef, ast.AsyncFunctionDef, ast.Lambda, ast.ClassDef)):
            for x in ast.walk(n):
                if isinstance(x, ast.Name):
                    out.add(x.id)
        elif isinstance(n, (ast.ListComp, ast.SetComp, ast.DictComp, ast.GeneratorExp)):
            pass  # comprehensions read enclosing locals by value at evaluation time: fine
    return out


class Flattener:
    def __init__(self, prog: Program):
        self.prog = prog
        self.recs = record_classes(prog)
        self.var_shape: Dict[Tuple[int, str], Shape] = {}
        self.param_shape: Dict[Tuple[int, str], Shape] = {}
        self.ret_shape: Dict[int, Shape] = {}
        self.whole: Dict[Tuple[int, str], bool] = {}
        self.log: List[str] = []
        self._parents: Dict[int, ast.AST] = {}
        self._fn_by_id: Dict[int, FunctionInfo] = {id(f.node): f for f in prog.functions()}
        self._value_uses = self._names_used_as_values()
        self.nested_created: Dict[int, Set[str]] = {}
        self.builders: Dict[Tuple[int, str], Dict[int, int]] = {}

    # ------------------------------------------------------------------ facts
    def _names_used_as_values(self) -> Dict[str, int]:
        """function names that occur other than as the callee of a call (callbacks, attributes stored...)"""
        cnt: Dict[str, int] = {}
        for m in self.prog.modules.values():
            callee_ids = {id(n.func) for n in ast.walk(m.tree) if isinstance(n, ast.Call)}
            for n in ast.walk(m.tree):
                nm = None
                if isinstance(n, ast.Attribute) and isinstance(n.ctx, ast.Load):
                    nm = n.attr
                elif isinstance(n, ast.Name) and isinstance(n.ctx, ast.Load):
                    nm = n.id
                if nm is not None and id(n) not in callee_ids:
                    cnt[nm] = cnt.get(nm, 0) + 1
        return cnt

    def _calls_by_name(self, name: str) -> int:
        k = 0
        for m in self.prog.modules.values():
            for n in ast.walk(m.tree):
                if isinstance(n, ast.Call):
                    f = n.func
                    if (isinstance(f, ast.Attribute) and f.attr == name) or (isinstance(f, ast.Name) and f.id == name):
                        k += 1
        return k

    def rec_of_call(self, e) -> Optional[Rec]:
        if not isinstance(e, ast.Call):
            return None
        f = e.func
        nm = f.id if isinstance(f, ast.Name) else f.attr if isinstance(f, ast.Attribute) and isinstance(f.value, ast.Name) else None
        return self.recs.get(nm) if nm else None

    @staticmethod
    def unrollable(comp) -> bool:
        """a comprehension / generator with one plain ``for name in seq`` clause and an element expression without scopes of
        its own (a lambda would capture the loop variable late)"""
        if not isinstance(comp, (ast.ListComp, ast.GeneratorExp)) or len(comp.generators) != 1:
            return False
        g = comp.generators[0]
        if g.ifs or g.is_async or not isinstance(g.target, ast.Name):
            return False
        return not any(isinstance(n, (ast.Lambda, ast.ListComp, ast.SetComp, ast.DictComp, ast.GeneratorExp, ast.NamedExpr, ast.Yield, ast.Await)) for n in ast.walk(comp.elt))

    def seq_elements(self, fn: Optional[FunctionInfo], e, depth: int = 0) -> Optional[List[ast.AST]]:
        """Element expressions of a fixed-length sequence expression whose container identity does not matter: a tuple / list
        literal, a record construction, a local that is replaced by its fields, ``a + b``, ``tuple(..)`` / ``list(..)`` of
        those, and a one-clause comprehension over those (element expressions must be read-only: they are duplicated)."""
        if depth > 6:
            return None
        if isinstance(e, (ast.Tuple, ast.List)) and isinstance(getattr(e, "ctx", ast.Load()), ast.Load):
            if any(isinstance(x, ast.Starred) for x in e.elts):
                return None
            return list(e.elts)
        if isinstance(e, ast.Name) and fn is not None:
            k = (id(fn.node), e.id)
            sh = self.var_shape.get(k) or self.param_shape.get(k)
            if sh is not None:
                return [ast.copy_location(ast.Name(id=self._field_name(e.id, f), ctx=ast.Load()), e) for f in sh[2]]
            return None
        if isinstance(e, ast.Attribute) and e.attr == "_fields" and isinstance(e.value, ast.Name) and e.value.id in self.recs:
            return [ast.copy_location(ast.Constant(value=f), e) for f in self.recs[e.value.id].fields]
        if isinstance(e, ast.BinOp) and isinstance(e.op, ast.Add):
            l, r = self.seq_elements(fn, e.left, depth + 1), self.seq_elements(fn, e.right, depth + 1)
            return l + r if l is not None and r is not None else None
        if isinstance(e, ast.Call) and isinstance(e.func, ast.Name) and e.func.id in ("tuple", "list") and len(e.args) == 1 and not e.keywords:
            return self.seq_elements(fn, e.args[0], depth + 1)
        if self.unrollable(e):
            src = self.seq_elements(fn, e.generators[0].iter, depth + 1)
            if src is None or not all(_read_only(x) for x in src):
                return None
            var = e.generators[0].target.id

            class S(ast.NodeTransformer):
                def __init__(self, c):
                    self.c = c

                def visit_Name(self, node):
                    if node.id == var and isinstance(node.ctx, ast.Load):
                        return ast.copy_location(copy.deepcopy(self.c), node)
                    return node

            return [S(c).visit(copy.deepcopy(e.elt)) for c in src]
        if self.rec_of_call(e) is not None:
            return self.elements(e, fn)
        return None

    def elements(self, e, fn: Optional[FunctionInfo] = None) -> Optional[List[ast.AST]]:
        """Field expressions of a literal construction, in field order; None when not literal."""
        if isinstance(e, ast.Tuple) and isinstance(getattr(e, "ctx", ast.Load()), ast.Load):
            if any(isinstance(x, ast.Starred) for x in e.elts):
                return None
            return list(e.elts)
        r = self.rec_of_call(e)
        if r is None:
            if isinstance(e, (ast.List, ast.ListComp, ast.BinOp)) or (isinstance(e, ast.Call) and isinstance(e.func, ast.Name) and e.func.id in ("tuple", "list")):
                return self.seq_elements(fn, e)
            return None
        if len(e.args) == 1 and not e.keywords and isinstance(e.args[0], ast.Starred):
            inner = self.seq_elements(fn, e.args[0].value)
            if inner is not None and len(inner) == len(r.fields):
                return inner
        # X(*(f(key) for key in X._fields)) / over a literal tuple of constants: one element per field
        if len(e.args) == 1 and not e.keywords and isinstance(e.args[0], ast.Starred) and isinstance(e.args[0].value, (ast.GeneratorExp, ast.ListComp)):
            ge = e.args[0].value
            if len(ge.generators) == 1 and not ge.generators[0].ifs and not ge.generators[0].is_async and isinstance(ge.generators[0].target, ast.Name):
                it = ge.generators[0].iter
                consts = None
                if isinstance(it, ast.Attribute) and it.attr == "_fields" and isinstance(it.value, ast.Name) and it.value.id == r.name:
                    consts = list(r.fields)
                elif isinstance(it, (ast.Tuple, ast.List)) and all(isinstance(x, ast.Constant) for x in it.elts):
                    consts = [x.value for x in it.elts]
                if consts is not None and len(consts) == len(r.fields):
                    var = ge.generators[0].target.id

                    class S(ast.NodeTransformer):
                        def __init__(self, c):
                            self.c = c

                        def visit_Name(self, node):
                            if node.id == var and isinstance(node.ctx, ast.Load):
                                return ast.copy_location(ast.Constant(value=self.c), node)
                            return node

                    return [S(c).visit(copy.deepcopy(ge.elt)) for c in consts]
            return None
        if any(isinstance(a, ast.Starred) for a in e.args) or any(k.arg is None for k in e.keywords):
            return None
        vals: Dict[str, ast.AST] = {}
        if len(e.args) > len(r.fields):
            return None
        for fld, a in zip(r.fields, e.args):
            vals[fld] = a
        for k in e.keywords:
            if k.arg not in r.fields or k.arg in vals:
                return None
            vals[k.arg] = k.value
        out = []
        for fld in r.fields:
            if fld in vals:
                out.append(vals[fld])
            elif fld in r.defaults:
                out.append(copy.deepcopy(r.defaults[fld]))
            else:
                return None
        # keyword arguments are evaluated in call order, positional first: only exact when keywords follow field order
        kw_order = [k.arg for k in e.keywords]
        if kw_order != [f for f in r.fields if f in kw_order]:
            return None
        return out

    def shape_of(self, fn: FunctionInfo, e) -> Optional[Shape]:
        if isinstance(e, ast.Tuple):
            if any(isinstance(x, ast.Starred) for x in e.elts) or len(e.elts) < 2:
                return None
            return ("tup", str(len(e.elts)), tuple(str(i) for i in range(len(e.elts))))
        r = self.rec_of_call(e)
        if r is not None:
            return r.shape
        if isinstance(e, ast.Name):
            k = (id(fn.node), e.id)
            return self.var_shape.get(k) or self.param_shape.get(k)
        if isinstance(e, (ast.List, ast.ListComp, ast.BinOp)) or (isinstance(e, ast.Call) and isinstance(e.func, ast.Name) and e.func.id in ("tuple", "list")):
            el = self.seq_elements(fn, e)
            if el is not None and len(el) >= 2:
                return ("tup", str(len(el)), tuple(str(i) for i in range(len(el))))
            return None
        if isinstance(e, ast.Call):
            tg = [t for t in self.prog.resolve_call(fn, e) if isinstance(t, FunctionInfo)]
            if len(tg) == 1 and id(tg[0].node) in self.ret_shape:
                return self.ret_shape[id(tg[0].node)]
        return None

    def _annotation_shape(self, ann) -> Optional[Shape]:
        if ann is None:
            return None
        nm = ann.id if isinstance(ann, ast.Name) else ann.attr if isinstance(ann, ast.Attribute) else ann.value if isinstance(ann, ast.Constant) and isinstance(ann.value, str) else None
        r = self.recs.get(nm) if isinstance(nm, str) else None
        return r.shape if r else None

    # ------------------------------------------------------------------ inference
    def _index_parents(self, fn_node):
        for p in ast.walk(fn_node):
            for c in ast.iter_child_nodes(p):
                self._parents[id(c)] = p

    def _classify_uses(self, fn: FunctionInfo, name: str, shape: Shape) -> Optional[bool]:
        """None = some use defeats the replacement; else whether whole uses exist."""
        fields = shape[2]
        whole = False
        self._fieldwise_seen = False
        mutable = shape[0] == "rec" and self.recs[shape[1]].mutable
        for n in _own_nodes(fn.node):
            if not (isinstance(n, ast.Name) and n.id == name):
                continue
            if not isinstance(n.ctx, ast.Load):
                continue
            par = self._parents.get(id(n))
            if isinstance(par, ast.Attribute) and par.value is n:
                if not isinstance(par.ctx, ast.Load):
                    return None
                if shape[0] == "rec" and par.attr in fields:
                    self._fieldwise_seen = True
                    continue
                return None  # _replace, _asdict, index, count...
            if isinstance(par, ast.Subscript) and par.value is n:
                if isinstance(par.ctx, ast.Load) and isinstance(par.slice, ast.Constant) and isinstance(par.slice.value, int) and -len(fields) <= par.slice.value < len(fields):
                    self._fieldwise_seen = True
                    continue
                return None
            if isinstance(par, ast.Assign) and par.value is n and len(par.targets) == 1 and isinstance(par.targets[0], (ast.Tuple, ast.List)):
                tg = par.targets[0]
                if len(tg.elts) == len(fields) and not any(isinstance(x, ast.Starred) for x in tg.elts):
                    self._fieldwise_seen = True
                    continue
                return None
            if isinstance(par, ast.Starred):
                gp = self._parents.get(id(par))
                if isinstance(gp, ast.Call) and any(a is par for a in gp.args):
                    self._fieldwise_seen = True
                    continue
                return None
            # iterated by a comprehension that is unrolled (possibly through ``a + b`` / tuple(..))
            top, up = n, par
            while (isinstance(up, ast.BinOp) and isinstance(up.op, ast.Add)) or (isinstance(up, ast.Call) and isinstance(up.func, ast.Name) and up.func.id in ("tuple", "list") and top in up.args):
                top, up = up, self._parents.get(id(up))
            if isinstance(up, ast.comprehension) and up.iter is top:
                comp = self._parents.get(id(up))
                if self.unrollable(comp) and (top is n or self.seq_elements(fn, top) is not None):
                    self._fieldwise_seen = True
                    continue
            if mutable:
                return None  # a shared mutable record may be written through the alias
            if self._is_flat_argument(fn, n, par):
                self._fieldwise_seen = True
                continue
            whole = True
        return whole

    def _list_builder(self, f: FunctionInfo, name: str, d: ast.Assign) -> bool:
        """``L = [a]; L.append(b); L.append(c); x, y, z = L``: a list literal grown by unconditional appends in the same
        straight-line block and only read field-wise afterwards is a tuple built in instalments."""
        blk = None
        par = self._parents.get(id(d))
        for fld in ("body", "orelse", "finalbody"):
            b = getattr(par, fld, None)
            if isinstance(b, list) and any(x is d for x in b):
                blk = b
        if blk is None:
            return False
        di = next(i for i, x in enumerate(blk) if x is d)
        elems = list(d.value.elts)
        if any(isinstance(e, ast.Starred) for e in elems):
            return False
        appends = {}
        last = di
        occ = [n for n in _own_nodes(f.node) if isinstance(n, ast.Name) and n.id == name and n is not d.targets[0]]
        used = set()
        for i in range(di + 1, len(blk)):
            st = blk[i]
            names_here = [n for n in ast.walk(st) if isinstance(n, ast.Name) and n.id == name]
            if not names_here:
                continue
            if (isinstance(st, ast.Expr) and isinstance(st.value, ast.Call) and isinstance(st.value.func, ast.Attribute) and st.value.func.attr == "append"
                    and isinstance(st.value.func.value, ast.Name) and st.value.func.value.id == name and len(st.value.args) == 1 and not st.value.keywords
                    and len(names_here) == 1):
                appends[id(st)] = len(elems)
                elems.append(st.value.args[0])
                last = i
                used.add(id(names_here[0]))
                continue
            break
        if not appends or len(elems) < 2:
            return False
        # every other occurrence lies in a statement of this block after the last append
        later = {id(n) for st in blk[last + 1:] for n in ast.walk(st)}
        rest = [n for n in occ if id(n) not in used]
        if not rest or any(id(n) not in later for n in rest):
            return False
        k = (id(f.node), name)
        shape = ("tup", str(len(elems)), tuple(str(i) for i in range(len(elems))))
        self.var_shape[k] = shape
        # the append statements hold the name in a non-field-wise position: judge the remaining uses only
        saved = {id(n): n.id for n in occ if id(n) in used}
        for n in occ:
            if id(n) in used:
                n.id = name + "__builder"
        try:
            w = self._classify_uses(f, name, shape)
        finally:
            for n in occ:
                if id(n) in saved:
                    n.id = saved[id(n)]
        if w is None or w or not self._fieldwise_seen:
            del self.var_shape[k]
            return False
        self.whole[k] = False
        self.builders[k] = appends
        return True

    def _is_flat_argument(self, fn: FunctionInfo, n, par) -> bool:
        """n is passed directly to a parameter that is itself replaced by its fields."""
        call = par if isinstance(par, ast.Call) else self._parents.get(id(par)) if isinstance(par, ast.keyword) else None
        if not isinstance(call, ast.Call):
            return False
        tg = [t for t in self.prog.resolve_call(fn, call) if isinstance(t, FunctionInfo)]
        if len(tg) != 1:
            return False
        b = bind_args(tg[0], call)
        for pn, ex in b.items():
            if ex is n and (id(tg[0].node), pn) in self.param_shape:
                return True
        return False

    def flatten_nested_returns(self) -> int:
        """``return x0, X(a, b)`` consumed everywhere as ``p, t = f(..)`` with t only read field-wise:
        the return becomes ``x0, a, b`` and the targets ``p, t__a, t__b``."""
        prog = self.prog
        done = 0
        fns = [f for f in prog.functions() if isinstance(f.node, (ast.FunctionDef, ast.AsyncFunctionDef))]
        for f in fns:
            self._index_parents(f.node)
        for f in fns:
            if not f.name.startswith("_") or (f.name.startswith("__") and f.name.endswith("__")) or self._value_uses.get(f.name, 0) > 0:
                continue
            if any(isinstance(n, (ast.Yield, ast.YieldFrom)) for n in _own_nodes(f.node)):
                continue
            rets = [n for n in _own_nodes(f.node) if isinstance(n, ast.Return)]
            if not rets or not all(isinstance(r.value, ast.Tuple) and not any(isinstance(x, ast.Starred) for x in r.value.elts) for r in rets):
                continue
            n = len(rets[0].value.elts)
            if any(len(r.value.elts) != n for r in rets):
                continue
            callers = prog.callers_of(f)
            if not callers or self._calls_by_name(f.name) != len(callers):
                continue
            for i in reversed(range(n)):
                shapes = set()
                for r in rets:
                    e = r.value.elts[i]
                    rec = self.rec_of_call(e)
                    shapes.add(rec.shape if rec is not None and self.elements(e, f) is not None else None)
                if len(shapes) != 1 or None in shapes:
                    continue
                sh = next(iter(shapes))
                if self.recs[sh[1]].mutable:
                    continue
                sites = []
                for cf, call in callers:
                    par = self._parents.get(id(call))
                    if not (isinstance(par, ast.Assign) and par.value is call and len(par.targets) == 1 and isinstance(par.targets[0], ast.Tuple) and len(par.targets[0].elts) == n):
                        sites = None
                        break
                    t = par.targets[0].elts[i]
                    if not isinstance(t, ast.Name) or t.id in _nested_names(cf.node) or t.id in cf.params:
                        sites = None
                        break
                    occ = [x for x in _own_nodes(cf.node) if isinstance(x, ast.Name) and x.id == t.id]
                    if sum(1 for x in occ if not isinstance(x.ctx, ast.Load)) != 1:
                        sites = None
                        break
                    reads = []
                    for x in occ:
                        if x is t:
                            continue
                        px = self._parents.get(id(x))
                        if isinstance(px, ast.Attribute) and px.value is x and isinstance(px.ctx, ast.Load) and px.attr in sh[2]:
                            reads.append((px, px.attr))
                        elif isinstance(px, ast.Subscript) and px.value is x and isinstance(px.ctx, ast.Load) and isinstance(px.slice, ast.Constant) and isinstance(px.slice.value, int) and -len(sh[2]) <= px.slice.value < len(sh[2]):
                            reads.append((px, sh[2][px.slice.value]))
                        else:
                            reads = None
                            break
                    if reads is None:
                        sites = None
                        break
                    sites.append((cf, par, t, reads))
                if not sites:
                    continue
                for r in rets:
                    r.value.elts[i:i + 1] = self.elements(r.value.elts[i], f)
                for cf, par, t, reads in sites:
                    par.targets[0].elts[i:i + 1] = [ast.copy_location(ast.Name(id=self._field_name(t.id, fld), ctx=ast.Store()), t) for fld in sh[2]]
                    for node, fld in reads:
                        # turn the read node into a plain name in place (its parent keeps pointing at it)
                        new = ast.Name(id=self._field_name(t.id, fld), ctx=ast.Load())
                        pp = self._parents.get(id(node))
                        for fname, val in ast.iter_fields(pp):
                            if val is node:
                                setattr(pp, fname, ast.copy_location(new, node))
                            elif isinstance(val, list):
                                for j, x in enumerate(val):
                                    if x is node:
                                        val[j] = ast.copy_location(new, node)
                    self.nested_created.setdefault(id(cf.node), set()).update(self._field_name(t.id, fld) for fld in sh[2])
                n = len(rets[0].value.elts)
                self.log.append(f"{f.qualname} (record in position {i} of the returned tuple flattened at {len(sites)} call site(s))")
                done += 1
        return done

    def infer(self):
        prog = self.prog
        fns = [f for f in prog.functions() if isinstance(f.node, (ast.FunctionDef, ast.AsyncFunctionDef))]
        for f in fns:
            self._index_parents(f.node)
        nested = {id(f.node): _nested_names(f.node) for f in fns}
        for _round in range(6):
            changed = False
            # returns
            for f in fns:
                key = id(f.node)
                if key in self.ret_shape:
                    continue
                if any(isinstance(n, (ast.Yield, ast.YieldFrom)) for n in _own_nodes(f.node)):
                    continue
                rets = [n for n in _own_nodes(f.node) if isinstance(n, ast.Return)]
                if not rets or any(r.value is None for r in rets) or not _always_returns(f.node.body):
                    continue
                shapes = [self.shape_of(f, r.value) for r in rets]
                ann = self._annotation_shape(f.node.returns)
                if ann is not None and all(s is None or s == ann for s in shapes):
                    shapes = [ann]
                if shapes and shapes[0] is not None and all(s == shapes[0] for s in shapes):
                    self.ret_shape[key] = shapes[0]
                    changed = True
            # locals
            for f in fns:
                params = set(f.params)
                stores: Dict[str, List] = {}
                bad: Set[str] = set()
                for n in _own_nodes(f.node):
                    if isinstance(n, ast.Name) and isinstance(n.ctx, (ast.Store, ast.Del)):
                        par = self._parents.get(id(n))
                        if isinstance(par, ast.Assign) and len(par.targets) == 1 and par.targets[0] is n:
                            stores.setdefault(n.id, []).append(par)
                        elif isinstance(par, ast.AnnAssign) and par.target is n and par.value is not None:
                            stores.setdefault(n.id, []).append(par)
                        else:
                            bad.add(n.id)
                    elif isinstance(n, (ast.Global, ast.Nonlocal)):
                        bad.update(n.names)
                for name, defs in stores.items():
                    k = (id(f.node), name)
                    if k in self.var_shape or name in bad or name in params or name in nested[id(f.node)]:
                        continue
                    if len(defs) == 1 and isinstance(defs[0], ast.Assign) and isinstance(defs[0].value, ast.List) and self._list_builder(f, name, defs[0]):
                        changed = True
                        continue
                    shapes = [self.shape_of(f, d.value) for d in defs]
                    cand = next((s_ for s_ in shapes if s_ is not None), None)
                    if cand is None:
                        continue
                    if any(s_ is None for s_ in shapes):
                        # a definition in terms of the variable itself (``rows = [g(b) for b in rows]``): assume, then verify
                        self.var_shape[k] = cand
                        shapes = [self.shape_of(f, d.value) for d in defs]
                        del self.var_shape[k]
                    if any(s_ != cand for s_ in shapes):
                        continue
                    self.var_shape[k] = cand  # (uses inside unrolled comprehensions are judged with the shape known)
                    w = self._classify_uses(f, name, cand)
                    if w is None or not self._fieldwise_seen:
                        del self.var_shape[k]
                        continue
                    self.whole[k] = w
                    changed = True
            # parameters of private functions
            for f in fns:
                if not f.name.startswith("_") or (f.name.startswith("__") and f.name.endswith("__")):
                    continue
                if self._value_uses.get(f.name, 0) > 0:
                    continue
                if f.cls is not None and (f.cls.subclasses(prog) or len(f.cls.mro()) > 1 and any(f.name in b.methods for b in f.cls.mro()[1:])):
                    continue
                if f.node.decorator_list and not all(isinstance(d, ast.Name) and d.id == "staticmethod" for d in f.node.decorator_list):
                    continue
                callers = prog.callers_of(f)
                if not callers or self._calls_by_name(f.name) != len(callers):
                    continue
                a = f.node.args
                if a.vararg or a.kwarg:
                    continue
                pos = list(a.posonlyargs) + list(a.args)
                defaults = [None] * (len(pos) - len(a.defaults)) + list(a.defaults)
                for p, dflt in zip(pos, defaults):
                    name = p.arg
                    k = (id(f.node), name)
                    if k in self.param_shape or name in ("self", "cls") or dflt is not None or name in nested[id(f.node)]:
                        continue
                    # never rebound
                    if any(isinstance(n, ast.Name) and n.id == name and not isinstance(n.ctx, ast.Load) for n in _own_nodes(f.node)):
                        continue
                    shapes = []
                    for cf, call in callers:
                        if any(isinstance(x, ast.Starred) for x in call.args) or any(kw.arg is None for kw in call.keywords):
                            shapes.append(None)
                            continue
                        b = bind_args(f, call)
                        shapes.append(self.shape_of(cf, b[name]) if name in b else None)
                    ann = self._annotation_shape(p.annotation)
                    if ann is not None:
                        if any(s is not None and s != ann for s in shapes):
                            continue
                        sh = ann
                    else:
                        if not shapes or shapes[0] is None or any(s != shapes[0] for s in shapes):
                            continue
                        sh = shapes[0]
                    w = self._classify_uses(f, name, sh)
                    if w is None:
                        continue
                    self.param_shape[k] = sh
                    self.whole[k] = w
                    changed = True
            if not changed:
                break
        # whole uses, once more, now that the flattened parameters are known
        for k, sh in list(self.var_shape.items()) + list(self.param_shape.items()):
            f = self._fn_by_id.get(k[0])
            if k in self.builders:
                continue
            if f is not None:
                w = self._classify_uses(f, k[1], sh)
                if w is not None:
                    self.whole[k] = w

    # ------------------------------------------------------------------ rewriting
    def _field_name(self, var: str, fld: str) -> str:
        return f"{var}__{fld}"

    def _ctor(self, shape: Shape, elts: List[ast.AST]) -> ast.AST:
        if shape[0] == "tup":
            return ast.Tuple(elts=elts, ctx=ast.Load())
        return ast.Call(func=ast.Name(id=shape[1], ctx=ast.Load()), args=elts, keywords=[])

    def _split_key(self, fn: FunctionInfo, e) -> Optional[Shape]:
        if isinstance(e, ast.Name):
            k = (id(fn.node), e.id)
            return self.var_shape.get(k) or self.param_shape.get(k)
        return None

    def field_exprs(self, fn: FunctionInfo, e, shape: Shape) -> List[ast.AST]:
        """Per-field expressions for the (already rewritten) value e of the given shape."""
        el = self.elements(e, fn)
        if el is not None and len(el) == len(shape[2]):
            return el
        if self._split_key(fn, e) == shape:
            return [ast.copy_location(ast.Name(id=self._field_name(e.id, f), ctx=ast.Load()), e) for f in shape[2]]
        out = []
        for i, f in enumerate(shape[2]):
            base = copy.deepcopy(e)
            if shape[0] == "rec":
                out.append(ast.copy_location(ast.Attribute(value=base, attr=f, ctx=ast.Load()), e))
            else:
                out.append(ast.copy_location(ast.Subscript(value=base, slice=ast.Constant(value=i), ctx=ast.Load()), e))
        return out

    def rewrite(self) -> bool:
        prog = self.prog
        if not (self.var_shape or self.param_shape):
            return False
        fl = self
        # which returns can become plain tuples: every call result is consumed field-wise
        ret_plain: Set[int] = set()
        for f in prog.functions():
            key = id(f.node)
            sh = self.ret_shape.get(key)
            if sh is None or sh[0] != "rec":
                continue
            ok = True
            callers = prog.callers_of(f)
            if not callers or self._calls_by_name(f.name) != len(callers) or self._value_uses.get(f.name, 0) > 0:
                continue
            for cf, call in callers:
                par = self._parents.get(id(call))
                if isinstance(par, (ast.Assign, ast.AnnAssign)) and par.value is call:
                    tg = par.targets[0] if isinstance(par, ast.Assign) and len(par.targets) == 1 else getattr(par, "target", None)
                    if isinstance(tg, ast.Name) and (id(cf.node), tg.id) in self.var_shape and not self.whole.get((id(cf.node), tg.id)):
                        continue
                    if isinstance(tg, (ast.Tuple, ast.List)):
                        continue
                if isinstance(par, ast.Starred):
                    continue
                ok = False
                break
            if ok:
                ret_plain.add(key)

        flat_params: Dict[int, List[Tuple[str, Shape]]] = {}
        for (fid, name), sh in self.param_shape.items():
            flat_params.setdefault(fid, []).append((name, sh))

        class T(ast.NodeTransformer):
            def __init__(self, fn: FunctionInfo):
                self.fn = fn
                self.fid = id(fn.node)

            def _shape(self, name) -> Optional[Shape]:
                k = (self.fid, name)
                return fl.var_shape.get(k) or fl.param_shape.get(k)

            # nested scopes are never touched (names used there were excluded)
            def visit_FunctionDef(self, node):
                if node is self.fn.node:
                    return self.generic_visit(node)
                return node

            visit_AsyncFunctionDef = visit_FunctionDef

            def visit_Lambda(self, node):
                return node

            def visit_ClassDef(self, node):
                return node

            def visit_Attribute(self, node):
                if isinstance(node.value, ast.Name) and isinstance(node.ctx, ast.Load):
                    sh = self._shape(node.value.id)
                    if sh is not None and sh[0] == "rec" and node.attr in sh[2]:
                        return ast.copy_location(ast.Name(id=fl._field_name(node.value.id, node.attr), ctx=ast.Load()), node)
                return self.generic_visit(node)

            def visit_Subscript(self, node):
                if isinstance(node.value, ast.Name) and isinstance(node.ctx, ast.Load) and isinstance(node.slice, ast.Constant) and isinstance(node.slice.value, int):
                    sh = self._shape(node.value.id)
                    if sh is not None:
                        fld = sh[2][node.slice.value]
                        return ast.copy_location(ast.Name(id=fl._field_name(node.value.id, fld), ctx=ast.Load()), node)
                return self.generic_visit(node)

            def visit_ListComp(self, node):
                el = fl.seq_elements(self.fn, node)
                if el is not None:
                    return ast.copy_location(ast.List(elts=[self.visit(x) for x in el], ctx=ast.Load()), node)
                return self.generic_visit(node)

            def visit_Call(self, node):
                targets = [t for t in prog.resolve_call(self.fn, node) if isinstance(t, FunctionInfo)]
                # all(.. for b in seq) / any(..) over a fixed sequence: the conjunction / disjunction of the instances
                if isinstance(node.func, ast.Name) and node.func.id in ("all", "any", "tuple", "list") and len(node.args) == 1 and not node.keywords:
                    el = fl.seq_elements(self.fn, node.args[0]) if isinstance(node.args[0], (ast.GeneratorExp, ast.ListComp)) or node.func.id in ("all", "any") else None
                    if el is not None:
                        el = [self.visit(x) for x in el]
                        if node.func.id == "tuple":
                            return ast.copy_location(ast.Tuple(elts=el, ctx=ast.Load()), node)
                        if node.func.id == "list":
                            return ast.copy_location(ast.List(elts=el, ctx=ast.Load()), node)
                        if len(el) >= 2:
                            bo = ast.BoolOp(op=ast.And() if node.func.id == "all" else ast.Or(), values=el)
                            return ast.copy_location(ast.Call(func=ast.Name(id="bool", ctx=ast.Load()), args=[bo], keywords=[]), node)
                node = self.generic_visit(node)
                # f(*t) with t split, f(*[g(b) for b in t])
                new_args = []
                for a in node.args:
                    if isinstance(a, ast.Starred) and isinstance(a.value, ast.Name) and self._shape(a.value.id) is not None:
                        sh = self._shape(a.value.id)
                        new_args += [ast.copy_location(ast.Name(id=fl._field_name(a.value.id, f), ctx=ast.Load()), a) for f in sh[2]]
                    elif isinstance(a, ast.Starred) and isinstance(a.value, (ast.List, ast.Tuple)) and not any(isinstance(x, ast.Starred) for x in a.value.elts):
                        new_args += list(a.value.elts)
                    else:
                        new_args.append(a)
                node.args = new_args
                if len(targets) == 1 and id(targets[0].node) in flat_params:
                    g = targets[0]
                    fp = dict(flat_params[id(g.node)])
                    params = list(g.params)
                    if g.cls is not None and params and params[0] in ("self", "cls") and not any(isinstance(d, ast.Name) and d.id == "staticmethod" for d in g.node.decorator_list):
                        params = params[1:]
                    args2 = []
                    for i, a in enumerate(node.args):
                        pn = params[i] if i < len(params) else None
                        if pn in fp:
                            args2 += fl.field_exprs(self.fn, a, fp[pn])
                        else:
                            args2.append(a)
                    kws2 = []
                    for kw in node.keywords:
                        if kw.arg in fp:
                            sh = fp[kw.arg]
                            for f, ex in zip(sh[2], fl.field_exprs(self.fn, kw.value, sh)):
                                kws2.append(ast.keyword(arg=fl._field_name(kw.arg, f), value=ex))
                        else:
                            kws2.append(kw)
                    node.args, node.keywords = args2, kws2
                return node

            def visit_Return(self, node):
                node = self.generic_visit(node)
                if self.fid in ret_plain and node.value is not None:
                    sh = fl.ret_shape[self.fid]
                    el = fl.elements(node.value, self.fn)
                    if el is None and isinstance(node.value, ast.Name) and self._shape(node.value.id) == sh:
                        el = fl.field_exprs(self.fn, node.value, sh)
                    if el is not None:
                        node.value = ast.copy_location(ast.Tuple(elts=el, ctx=ast.Load()), node.value)
                return node

            def _assign(self, node, target, value):
                # a, b, c = (f(x) for x in t) with t of known length: unpacking consumes the generator completely before
                # any target is bound, exactly like a tuple of the elements
                if isinstance(target, (ast.Tuple, ast.List)) and isinstance(value, (ast.GeneratorExp, ast.ListComp)):
                    el = fl.seq_elements(self.fn, value)
                    if el is not None and len(el) == len(target.elts) and not any(isinstance(x, ast.Starred) for x in target.elts):
                        tg2 = self.visit(target)
                        return [ast.copy_location(ast.Assign(targets=[tg2], value=ast.Tuple(elts=[self.visit(x) for x in el], ctx=ast.Load())), node)]
                # unpacking of a split variable
                if isinstance(target, (ast.Tuple, ast.List)) and isinstance(value, ast.Name) and self._shape(value.id) is not None:
                    sh = self._shape(value.id)
                    if len(target.elts) == len(sh[2]):
                        out = []
                        for tg, f in zip(target.elts, sh[2]):
                            tg2 = self.visit(tg)
                            out.append(ast.copy_location(ast.Assign(targets=[tg2], value=ast.Name(id=fl._field_name(value.id, f), ctx=ast.Load())), node))
                        return out
                if isinstance(target, ast.Name) and (self.fid, target.id) in fl.var_shape:
                    sh = fl.var_shape[(self.fid, target.id)]
                    value2 = self.visit(value)
                    el = fl.elements(value2, self.fn)
                    names = [fl._field_name(target.id, f) for f in sh[2]]
                    out = []
                    if (self.fid, target.id) in fl.builders and isinstance(value2, ast.List):
                        # the literal part of a list built in instalments (the appends define the remaining fields)
                        return [ast.copy_location(ast.Assign(targets=[ast.Name(id=nm, ctx=ast.Store())], value=ex), node) for nm, ex in zip(names, value2.elts)] or [ast.copy_location(ast.Pass(), node)]
                    if el is not None and len(el) == len(names):
                        # element i may read a field that an earlier element assignment of this statement overwrites
                        # (``t = (t[1], t[0])``): then all fields are assigned at once
                        cross = any(isinstance(x, ast.Name) and x.id in names[:i] for i, ex in enumerate(el) for x in ast.walk(ex))
                        if cross:
                            tg = ast.Tuple(elts=[ast.Name(id=nm, ctx=ast.Store()) for nm in names], ctx=ast.Store())
                            out.append(ast.copy_location(ast.Assign(targets=[tg], value=ast.Tuple(elts=list(el), ctx=ast.Load())), node))
                        else:
                            for nm, ex in zip(names, el):
                                out.append(ast.copy_location(ast.Assign(targets=[ast.Name(id=nm, ctx=ast.Store())], value=ex), node))
                    elif isinstance(value2, ast.Name) and self._shape(value2.id) == sh:
                        for nm, f in zip(names, sh[2]):
                            out.append(ast.copy_location(ast.Assign(targets=[ast.Name(id=nm, ctx=ast.Store())], value=ast.Name(id=fl._field_name(value2.id, f), ctx=ast.Load())), node))
                    else:
                        tg = ast.Tuple(elts=[ast.Name(id=nm, ctx=ast.Store()) for nm in names], ctx=ast.Store())
                        out.append(ast.copy_location(ast.Assign(targets=[tg], value=value2), node))
                    if fl.whole.get((self.fid, target.id)):
                        rebuilt = fl._ctor(sh, [ast.Name(id=nm, ctx=ast.Load()) for nm in names])
                        out.append(ast.copy_location(ast.Assign(targets=[ast.Name(id=target.id, ctx=ast.Store())], value=rebuilt), node))
                    return out
                return None

            def visit_Expr(self, node):
                c = node.value
                if isinstance(c, ast.Call) and isinstance(c.func, ast.Attribute) and c.func.attr == "append" and isinstance(c.func.value, ast.Name):
                    b = fl.builders.get((self.fid, c.func.value.id))
                    if b is not None and id(node) in b:
                        fld = str(b[id(node)])
                        val = self.visit(c.args[0])
                        return ast.copy_location(ast.Assign(targets=[ast.Name(id=fl._field_name(c.func.value.id, fld), ctx=ast.Store())], value=val), node)
                return self.generic_visit(node)

            def visit_Assign(self, node):
                if len(node.targets) == 1:
                    r = self._assign(node, node.targets[0], node.value)
                    if r is not None:
                        return r
                return self.generic_visit(node)

            def visit_AnnAssign(self, node):
                if node.value is not None:
                    r = self._assign(node, node.target, node.value)
                    if r is not None:
                        return r
                return self.generic_visit(node)

        done = 0
        for f in list(prog.functions()):
            if not isinstance(f.node, (ast.FunctionDef, ast.AsyncFunctionDef)):
                continue
            T(f).visit(f.node)
        # signatures
        for f in list(prog.functions()):
            fid = id(f.node)
            if fid not in flat_params:
                continue
            fp = dict(flat_params[fid])
            a = f.node.args
            for lst_name in ("posonlyargs", "args"):
                lst = getattr(a, lst_name)
                new = []
                for p in lst:
                    if p.arg in fp:
                        for fld in fp[p.arg][2]:
                            new.append(ast.copy_location(ast.arg(arg=self._field_name(p.arg, fld), annotation=None), p))
                    else:
                        new.append(p)
                setattr(a, lst_name, new)
            for name, sh in fp.items():
                if self.whole.get((fid, name)):
                    rebuilt = self._ctor(sh, [ast.Name(id=self._field_name(name, fld), ctx=ast.Load()) for fld in sh[2]])
                    st = ast.copy_location(ast.Assign(targets=[ast.Name(id=name, ctx=ast.Store())], value=rebuilt), f.node.body[0])
                    at = 1 if (isinstance(f.node.body[0], ast.Expr) and isinstance(getattr(f.node.body[0], "value", None), ast.Constant) and isinstance(f.node.body[0].value.value, str)) else 0
                    f.node.body.insert(at, st)
                self.log.append(f"{f.qualname} (parameter {name} -> {', '.join(self._field_name(name, x) for x in sh[2])})")
                done += 1
        by_fn: Dict[int, List[str]] = {}
        for (fid, name), sh in self.var_shape.items():
            by_fn.setdefault(fid, []).append(name)
        for fid, names in by_fn.items():
            f = self._fn_by_id.get(fid)
            if f is not None:
                self.log.append(f"{f.qualname} (aggregate locals {', '.join(sorted(names))} replaced by their fields)")
                done += 1
        for fid in ret_plain:
            f = self._fn_by_id.get(fid)
            if f is not None:
                self.log.append(f"{f.qualname} (returns plain tuple instead of {self.ret_shape[fid][1]})")
        for m in prog.modules.values():
            ast.fix_missing_locations(m.tree)
        return done > 0


def _propagate_field_copies(prog: Program, created: Dict[int, Set[str]]) -> int:
    """``t__a = x`` (the only definition of the field local, x a plain name that is not re-bound on any path from the copy
    to a use of ``t__a``): the uses read x directly and the copy disappears.  Only names this pass created are touched."""
    from .cfg import CFG

    n_done = 0
    for f in prog.functions():
        names = created.get(id(f.node))
        if not names:
            continue
        for _pass in range(4):
            progress = False
            parents = {}
            for p_ in ast.walk(f.node):
                for c_ in ast.iter_child_nodes(p_):
                    parents[id(c_)] = p_
            cfg = None
            cands = set(names)
            for n in _own_nodes(f.node):
                if isinstance(n, ast.Assign) and len(n.targets) == 1 and isinstance(n.targets[0], ast.Name) and isinstance(n.value, ast.Name) and n.value.id in names:
                    cands.add(n.targets[0].id)  # ``lower = box__0``: a copy *of* a field local
            params = set(f.params) | _nested_names(f.node)
            for c in sorted(cands):
                if c in params:
                    continue
                stores = [n for n in _own_nodes(f.node) if isinstance(n, ast.Name) and n.id == c and not isinstance(n.ctx, ast.Load)]
                if not stores:
                    continue
                sts = [parents.get(id(s_)) for s_ in stores]
                if not all(isinstance(st, ast.Assign) and len(st.targets) == 1 and st.targets[0] is s_ and isinstance(st.value, ast.Name) and st.value.id != c for st, s_ in zip(sts, stores)):
                    continue
                if len({st.value.id for st in sts}) != 1:
                    continue  # every definition copies the same name (one per branch of an inlined early return)
                x = sts[0].value.id
                if cfg is None:
                    cfg = CFG(f.node)
                cns = [cfg.node_of(st) for st in sts]
                if any(cn is None for cn in cns):
                    continue
                cn_ids = [cn.id for cn in cns]
                uses = [n for n in _own_nodes(f.node) if isinstance(n, ast.Name) and n.id == c and isinstance(n.ctx, ast.Load)]
                use_ids = {cfg.node_of(u).id for u in uses if cfg.node_of(u) is not None}
                if len(use_ids) == 0 and uses:
                    continue
                xstores = [n for n in _own_nodes(f.node) if isinstance(n, ast.Name) and n.id == x and not isinstance(n.ctx, ast.Load)]
                after_copy = set()
                for ci in cn_ids:
                    after_copy |= cfg.reachable(ci)
                safe = True
                for xs in xstores:
                    xn = cfg.node_of(xs)
                    if xn is None:
                        safe = False
                        break
                    if xn.id not in after_copy:
                        continue
                    reach = set()
                    for y in cfg.succ(xn.id):
                        if y not in cn_ids:
                            reach |= cfg.reachable(y, avoiding=cn_ids)
                    if reach & use_ids:
                        safe = False
                        break
                if not safe:
                    continue
                blks = []
                for st in sts:
                    blk = None
                    par = parents.get(id(st))
                    for fld in ("body", "orelse", "finalbody"):
                        b = getattr(par, fld, None)
                        if isinstance(b, list) and any(z is st for z in b):
                            blk = b
                    if blk is None and isinstance(par, ast.Try):
                        for h in par.handlers:
                            if any(z is st for z in h.body):
                                blk = h.body
                    blks.append(blk)
                if any(b is None for b in blks):
                    continue
                for u in uses:
                    u.id = x
                for st, blk in zip(sts, blks):
                    i = next(k for k, z in enumerate(blk) if z is st)
                    if len(blk) == 1:
                        blk[i] = ast.copy_location(ast.Pass(), st)
                    else:
                        del blk[i]
                progress = True
                n_done += 1
                cfg = None
            if not progress:
                break
    return n_done


def _coalesce_param_fields(prog: Program, pfields: Dict[int, Set[str]]) -> int:
    """``def f(self, p__a): x = p__a; ...`` where the copy is the only use of the field parameter and x is not mentioned
    before it: the parameter is simply called x (the function unpacked its record argument into working locals)."""
    k = 0
    for f in prog.functions():
        names = pfields.get(id(f.node))
        if not names:
            continue
        nested = _nested_names(f.node)
        body = f.node.body
        for p_ in sorted(names):
            occ = [n for n in _own_nodes(f.node) if isinstance(n, ast.Name) and n.id == p_]
            if len(occ) != 1 or not isinstance(occ[0].ctx, ast.Load) or p_ in nested:
                continue
            idx = next((i for i, st in enumerate(body) if isinstance(st, ast.Assign) and st.value is occ[0] and len(st.targets) == 1 and isinstance(st.targets[0], ast.Name)), None)
            if idx is None:
                continue
            x = body[idx].targets[0].id
            if x in f.params or x in nested:
                continue
            if any(isinstance(n, ast.Name) and n.id == x for st in body[:idx] for n in ast.walk(st)):
                continue
            a = f.node.args
            for arg in list(a.posonlyargs) + list(a.args) + list(a.kwonlyargs):
                if arg.arg == p_:
                    arg.arg = x
            for _cf, call in prog.callers_of(f):
                for kw_ in call.keywords:
                    if kw_.arg == p_:
                        kw_.arg = x
            del body[idx]
            if not body:
                body.append(ast.Pass())
            k += 1
    return k


READ_ONLY_METHODS = {"get", "copy", "item", "flatten", "astype", "ravel", "squeeze", "reshape", "keys", "values", "items"}
READ_ONLY_CALLS = {"float", "int", "bool", "len", "np.copy", "np.asarray", "np.atleast_1d", "np.atleast_2d", "np.isfinite", "np.isnan", "np.sqrt", "np.abs"}


def _read_only(e) -> bool:
    """Evaluating e neither writes anything nor consumes anything (random numbers, target evaluations): names, attributes,
    subscripts, constants, operators, and calls of the listed non-mutating methods / conversions."""
    if isinstance(e, (ast.Name, ast.Constant)):
        return True
    if isinstance(e, ast.Attribute):
        return _read_only(e.value)
    if isinstance(e, ast.Subscript):
        return _read_only(e.value) and _read_only(e.slice)
    if isinstance(e, ast.Slice):
        return all(x is None or _read_only(x) for x in (e.lower, e.upper, e.step))
    if isinstance(e, (ast.Tuple, ast.List)):
        return all(_read_only(x) for x in e.elts)
    if isinstance(e, ast.UnaryOp):
        return _read_only(e.operand)
    if isinstance(e, ast.BinOp):
        return _read_only(e.left) and _read_only(e.right)
    if isinstance(e, ast.BoolOp):
        return all(_read_only(x) for x in e.values)
    if isinstance(e, ast.Compare):
        return _read_only(e.left) and all(_read_only(x) for x in e.comparators)
    if isinstance(e, ast.Call):
        if any(isinstance(a, ast.Starred) for a in e.args) or any(k.arg is None for k in e.keywords):
            return False
        if not all(_read_only(a) for a in e.args) or not all(_read_only(k.value) for k in e.keywords):
            return False
        f = e.func
        if isinstance(f, ast.Attribute) and f.attr in READ_ONLY_METHODS and _read_only(f.value):
            return True
        try:
            nm = ast.unparse(f)
        except Exception:
            return False
        return nm in READ_ONLY_CALLS
    return False


def _same_object_each_time(e) -> bool:
    """evaluating e twice yields the same object: names, attributes, subscripts, constants and dictionary-style ``.get``"""
    if isinstance(e, (ast.Name, ast.Constant)):
        return True
    if isinstance(e, ast.Attribute):
        return _same_object_each_time(e.value)
    if isinstance(e, ast.Subscript):
        return _same_object_each_time(e.value) and (isinstance(e.slice, ast.Constant) or isinstance(e.slice, ast.Name))
    if isinstance(e, ast.Call) and isinstance(e.func, ast.Attribute) and e.func.attr == "get" and not e.keywords and all(isinstance(a, ast.Constant) for a in e.args):
        return _same_object_each_time(e.func.value)
    return False


def _paths(e) -> Set[str]:
    out = set()
    for n in ast.walk(e):
        if isinstance(n, (ast.Name, ast.Attribute)):
            try:
                out.add(ast.unparse(n))
            except Exception:
                pass
    return out


def _forward_fields(prog: Program, created: Dict[int, Set[str]]) -> int:
    """``t__a = <read-only expr>`` followed, in the same straight-line block, by its uses with only moves and other
    read-only field definitions in between: the uses get the expression, the field local disappears.  (A literal
    ``X(H.get('u')[i], ...)`` whose fields are stored one by one reads again as ``self.u = H.get('u')[i]``.)"""
    n_done = 0
    for f in prog.functions():
        names = created.get(id(f.node))
        if not names:
            continue
        nested = _nested_names(f.node)
        for _pass in range(3):
            progress = False
            loads: Dict[str, List[ast.Name]] = {}
            stores: Dict[str, int] = {}
            for n in _own_nodes(f.node):
                if isinstance(n, ast.Name) and n.id in names:
                    if isinstance(n.ctx, ast.Load):
                        loads.setdefault(n.id, []).append(n)
                    else:
                        stores[n.id] = stores.get(n.id, 0) + 1
            blocks = []
            for n in ast.walk(f.node):
                for fld in ("body", "orelse", "finalbody"):
                    b = getattr(n, fld, None)
                    if isinstance(b, list) and b and isinstance(b[0], ast.stmt):
                        blocks.append(b)
            for blk in blocks:
                i = 0
                while i < len(blk):
                    st = blk[i]
                    i += 1
                    if not (isinstance(st, ast.Assign) and len(st.targets) == 1 and isinstance(st.targets[0], ast.Name)):
                        continue
                    c = st.targets[0].id
                    if c not in names or c in nested or stores.get(c) != 1 or isinstance(st.value, ast.Name) or not _read_only(st.value):
                        continue
                    uses = loads.get(c, [])
                    if not uses:
                        continue
                    if len(uses) > 1 and not _same_object_each_time(st.value):
                        continue  # duplicating an allocating expression would hide that the uses share one object
                    epaths = _paths(st.value)
                    # statements of this block that contain the uses
                    use_stmt_idx = set()
                    ok = True
                    for u in uses:
                        j = next((k for k in range(i, len(blk)) if any(x is u for x in ast.walk(blk[k]))), None)
                        if j is None:
                            ok = False
                            break
                        use_stmt_idx.add(j)
                    if not ok:
                        continue
                    last = max(use_stmt_idx)
                    for k in range(i, last + 1):
                        sk = blk[k]
                        if not (isinstance(sk, ast.Assign) and len(sk.targets) == 1 and _read_only(sk.value)):
                            ok = False
                            break
                        tg = sk.targets[0]
                        if not isinstance(tg, (ast.Name, ast.Attribute)) and not (isinstance(tg, ast.Subscript) and isinstance(tg.slice, ast.Constant)):
                            ok = False
                            break
                        try:
                            tpath = ast.unparse(tg)
                        except Exception:
                            ok = False
                            break
                        if k < last and any(p == tpath or p.startswith(tpath + ".") or p.startswith(tpath + "[") for p in epaths):
                            ok = False
                            break
                    if not ok:
                        continue

                    class S(ast.NodeTransformer):
                        def visit_Name(self, node):
                            if node.id == c and isinstance(node.ctx, ast.Load):
                                return ast.copy_location(copy.deepcopy(st.value), node)
                            return node

                    for j in use_stmt_idx:
                        blk[j] = S().visit(blk[j])
                    i -= 1
                    del blk[i]
                    loads[c] = []
                    progress = True
                    n_done += 1
            if not progress:
                break
    return n_done


def flatten_aggregates(prog: Program) -> Tuple[Program, List[str]]:
    fl = Flattener(prog)
    if fl.flatten_nested_returns():
        trees = {m.relpath: m.tree for m in prog.modules.values()}
        for m in prog.modules.values():
            ast.fix_missing_locations(m.tree)
        prog = Program(prog.root, override_trees=trees)
        fl0, fl = fl, Flattener(prog)
        fl.log, fl.nested_created = fl0.log, fl0.nested_created
    fl.infer()
    if not fl.rewrite() and not fl.nested_created:
        return prog, fl.log
    trees = {m.relpath: m.tree for m in prog.modules.values()}
    prog2 = Program(prog.root, override_trees=trees)
    created: Dict[int, Set[str]] = {k: set(v) for k, v in fl.nested_created.items()}
    for (fid, name), sh in list(fl.var_shape.items()) + list(fl.param_shape.items()):
        created.setdefault(fid, set()).update(fl._field_name(name, f) for f in sh[2])
    pfields: Dict[int, Set[str]] = {}
    for (fid, name), sh in fl.param_shape.items():
        pfields.setdefault(fid, set()).update(fl._field_name(name, f) for f in sh[2])
    k0 = _coalesce_param_fields(prog2, pfields)
    k1 = _propagate_field_copies(prog2, created) + k0
    k2 = _forward_fields(prog2, created)
    if k1 or k2:
        for m in prog2.modules.values():
            ast.fix_missing_locations(m.tree)
        trees = {m.relpath: m.tree for m in prog2.modules.values()}
        prog2 = Program(prog.root, override_trees=trees)
    return prog2, fl.log
