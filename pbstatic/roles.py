"""Role discovery: public names are anchors, private helpers are found by what
they do (DESIGN.md section 2.2), so a rename or an extracted helper does not
move a verdict."""
from __future__ import annotations

import ast
from functools import lru_cache
from typing import Dict, List, Optional, Tuple

from .model import AnalysisError, ClassInfo, FunctionInfo, Program, bind_args
from .terms import dotted


class Roles:
    def __init__(self, prog: Program):
        self.prog = prog
        self.bads: ClassInfo = prog.find_class("BADS")
        self.bads_init: FunctionInfo = self._need(self.bads.find_method("__init__"), "BADS.__init__")
        self.optimize: FunctionInfo = self._need(self.bads.find_method("optimize"), "BADS.optimize")
        # a public ``optimize`` that only wraps the run in a try statement (to add context to an exception, to log): the role is played by the wrapped method; the wrappers are kept for the rules about exception propagation
        self.optimize_wrappers = []
        for _ in range(3):
            body = [b for b in self.optimize.node.body if not (isinstance(b, ast.Expr) and isinstance(b.value, ast.Constant))]
            if len(body) != 1 or not isinstance(body[0], ast.Try) or body[0].orelse or body[0].finalbody:
                break
            tb = body[0].body
            call = None
            if len(tb) == 1 and isinstance(tb[0], ast.Return) and isinstance(tb[0].value, ast.Call):
                call = tb[0].value
            elif len(tb) == 2 and isinstance(tb[0], ast.Assign) and isinstance(tb[0].value, ast.Call) and isinstance(tb[1], ast.Return) and isinstance(tb[1].value, ast.Name) \
                    and len(tb[0].targets) == 1 and isinstance(tb[0].targets[0], ast.Name) and tb[0].targets[0].id == tb[1].value.id:
                call = tb[0].value
            if call is None or not (isinstance(call.func, ast.Attribute) and isinstance(call.func.value, ast.Name) and call.func.value.id == "self") or call.args or call.keywords:
                break
            inner = self.bads.find_method(call.func.attr)
            if inner is None or inner is self.optimize:
                break
            # (what the handlers do with the exception is C10-R3's business; the role is the wrapped method either way)
            self.optimize_wrappers.append(self.optimize)
            self.optimize = inner
        self.transformer: ClassInfo = prog.find_class("VariableTransformer")
        self.inverse: FunctionInfo = self._need(self.transformer.find_method("inverse_transf"), "VariableTransformer.inverse_transf")
        self.direct: FunctionInfo = self._need(self.transformer.find_method("__call__"), "VariableTransformer.__call__")
        self.logger_cls: ClassInfo = prog.find_class("FunctionLogger")
        self.options_cls: ClassInfo = prog.find_class("Options")
        self.history_cls: ClassInfo = prog.find_class("IterationHistory")
        self.result_cls: ClassInfo = prog.find_class("OptimizeResult")
        self._discover_target()
        self._discover_bads_attrs()

    @staticmethod
    def _need(x, what):
        if x is None:
            raise AnalysisError(f"public anchor {what} not found")
        return x

    # ---------------------------------------------------------------- target
    def _discover_target(self):
        """target sink = ``self.<a>(...)`` in the logger class where ``<a>`` is
        stored from the constructor parameter that BADS binds to its own first
        parameter (the user callable)."""
        prog = self.prog
        fun_param = [p for p in self.bads_init.params if p != "self"][0]
        self.fun_param = fun_param
        ctor_call = None
        for call, targets in prog.calls_in(self.bads_init):
            if any(isinstance(t, FunctionInfo) and t.cls is self.logger_cls and t.name == "__init__" for t in targets):
                ctor_call = call
        if ctor_call is None:
            raise AnalysisError("BADS.__init__ no longer constructs a FunctionLogger")
        self.logger_ctor_call = ctor_call
        init = self.logger_cls.find_method("__init__")
        bound = bind_args(init, ctor_call)
        lparam = None
        for pname, expr in bound.items():
            if isinstance(expr, ast.Name) and expr.id == fun_param:
                lparam = pname
        if lparam is None:
            raise AnalysisError("FunctionLogger is not constructed with BADS' target callable")
        self.logger_ctor_bound = bound
        attrs = []
        for node in ast.walk(init.node):
            if isinstance(node, ast.Assign) and isinstance(node.value, ast.Name) and node.value.id == lparam:
                for t in node.targets:
                    a = prog._self_attr(t)
                    if a:
                        attrs.append(a)
        if not attrs:
            raise AnalysisError("FunctionLogger.__init__ does not store the target callable")
        self.target_attrs = attrs
        self.target_sinks: List[Tuple[FunctionInfo, ast.Call]] = []
        for fn in prog.functions():
            for node in ast.walk(fn.node):
                if isinstance(node, ast.Call) and isinstance(node.func, ast.Attribute) and node.func.attr in attrs:
                    recv = node.func.value
                    rc = prog.expr_class(fn, recv)
                    if rc is not None and self.logger_cls in rc.mro():
                        if prog.function_of(node) is fn:
                            self.target_sinks.append((fn, node))
        self.logger_call: Optional[FunctionInfo] = self.logger_cls.find_method("__call__")
        self.logger_add: Optional[FunctionInfo] = self.logger_cls.find_method("add")

    def _discover_bads_attrs(self):
        prog = self.prog
        self.logger_attr = None
        self.transformer_attr = None
        for c in self.bads.mro():
            for a, t in c.attr_types.items():
                if t is self.logger_cls:
                    self.logger_attr = a
                if t is self.transformer:
                    self.transformer_attr = a
        if self.logger_attr is None:
            raise AnalysisError("BADS holds no FunctionLogger attribute")
        # constraint attribute: self.<a> = <3rd-party constraint param>
        self.cons_param = "non_box_cons" if "non_box_cons" in self.bads_init.params else None
        self.cons_attr = None
        self.cons_stores = []  # (stmt, value) of every store to the attribute in __init__
        if self.cons_param:
            for node in ast.walk(self.bads_init.node):
                if isinstance(node, ast.Assign) and isinstance(node.value, ast.Name) and node.value.id == self.cons_param:
                    for t in node.targets:
                        a = prog._self_attr(t)
                        if a:
                            self.cons_attr = a
            if self.cons_attr is None:
                # stored through a wrapper / conditional expression that mentions the parameter
                for node in ast.walk(self.bads_init.node):
                    if isinstance(node, ast.Assign) and any(isinstance(x, ast.Name) and x.id == self.cons_param for x in ast.walk(node.value)):
                        for t in node.targets:
                            a = prog._self_attr(t)
                            if a:
                                self.cons_attr = a
            if self.cons_attr:
                for node in ast.walk(self.bads_init.node):
                    if isinstance(node, ast.Assign) and any(prog._self_attr(t) == self.cons_attr for t in node.targets):
                        self.cons_stores.append((node, node.value))
        if self.cons_attr is None:
            raise AnalysisError("BADS no longer stores the non_box_cons parameter")

    # ------------------------------------------------------------ call sites
    def is_logger_call(self, fn: FunctionInfo, call: ast.Call) -> bool:
        """``<logger>(x, ...)`` -- an evaluation request."""
        targets = self.prog.resolve_call(fn, call)
        return any(isinstance(t, FunctionInfo) and t is self.logger_call for t in targets)

    def logger_calls(self, fn: FunctionInfo) -> List[ast.Call]:
        return [c for c, t in self.prog.calls_in(fn) if any(x is self.logger_call for x in t if isinstance(x, FunctionInfo))]

    def evaluating_functions(self) -> List[FunctionInfo]:
        """Functions that contain a logger call (outside the logger class)."""
        return [f for f in self.prog.functions() if f.cls is not self.logger_cls and self.logger_calls(f)]

    def can_reach_target(self, fn: FunctionInfo) -> bool:
        reach = self.prog.reachable_from(fn)
        return any(s in reach for s, _ in self.target_sinks)

    # ---------------------------------------------------------------- filter
    @property
    def filter_fn(self) -> FunctionInfo:
        """candidate filter = the module-level function that BADS calls with
        both its logger and its constraint callable."""
        if not hasattr(self, "_filter"):
            hits: Dict[FunctionInfo, int] = {}
            for fn in self.bads.methods.values():
                for call, targets in self.prog.calls_in(fn):
                    ds = {dotted(a) for a in list(call.args) + [k.value for k in call.keywords]}
                    if f"self.{self.logger_attr}" in ds and f"self.{self.cons_attr}" in ds:
                        for t in targets:
                            if isinstance(t, FunctionInfo) and t.cls is None:
                                hits[t] = hits.get(t, 0) + 1
            if not hits:
                f = self.prog.try_function("contraints_check")
                if f is None:
                    raise AnalysisError("candidate filter (called with logger and constraint) not found")
                self._filter = f
            else:
                self._filter = max(hits, key=lambda k: hits[k])
        return self._filter

    def filter_calls(self) -> List[Tuple[FunctionInfo, ast.Call]]:
        return self.prog.callers_of(self.filter_fn)

    # ------------------------------------------------------ incumbent update
    @property
    def incumbent_update(self) -> FunctionInfo:
        if not hasattr(self, "_incumbent"):
            best = None
            for fn in self.bads.methods.values():
                params = set(fn.params) - {"self"}
                if len(params) < 3:
                    continue
                stored = set()
                for node in ast.walk(fn.node):
                    if isinstance(node, ast.Assign):
                        for t in node.targets:
                            a = self.prog._self_attr(t)
                            if a and isinstance(node.value, (ast.Name, ast.Call)):
                                srcs = {n.id for n in ast.walk(node.value) if isinstance(n, ast.Name)}
                                if srcs & params:
                                    stored.add(a)
                if {"yval", "fval", "fsd"} <= stored and stored & {"u", "u_best"}:
                    best = fn
            if best is None:
                raise AnalysisError("incumbent update method (stores the point, yval, fval, fsd from its parameters) not found")
            self._incumbent = best
        return self._incumbent

    # ----------------------------------------------------------- step roles
    @property
    def poll_step(self) -> FunctionInfo:
        if not hasattr(self, "_poll"):
            cands = []
            for fn in self.bads.methods.values():
                for call in self.logger_calls(fn):
                    if any(isinstance(p, ast.While) for p in self.prog.ancestors(call)) and fn is not self.optimize:
                        cands.append(fn)
            if not cands:
                raise AnalysisError("poll step (logger call inside a while loop) not found")
            self._poll = cands[0]
        return self._poll

    @property
    def search_step(self) -> FunctionInfo:
        if not hasattr(self, "_search"):
            hedge = self.prog.find_class("ESSearchHedge")
            cands = []
            for fn in self.bads.methods.values():
                if not self.logger_calls(fn):
                    continue
                for call, targets in self.prog.calls_in(fn):
                    if any(isinstance(t, FunctionInfo) and t.cls is hedge and t.name == "__call__" for t in targets):
                        cands.append(fn)
            if not cands:
                raise AnalysisError("search step (calls the search hedge and the logger) not found")
            self._search = cands[0]
        return self._search

    @property
    def init_mesh(self) -> FunctionInfo:
        """initial design = BADS method with a logger call inside a for loop."""
        if not hasattr(self, "_mesh"):
            cands = []
            for fn in self.bads.methods.values():
                if fn is self.optimize:
                    continue
                for call in self.logger_calls(fn):
                    if any(isinstance(p, ast.For) for p in self.prog.ancestors(call)):
                        cands.append(fn)
            if not cands:
                raise AnalysisError("initial design routine (logger call inside a for loop) not found")
            self._mesh = cands[0]
        return self._mesh

    @property
    def init_optim_state(self) -> FunctionInfo:
        """the BADS method that constructs the VariableTransformer."""
        if not hasattr(self, "_ios"):
            for fn in self.bads.methods.values():
                for call, targets in self.prog.calls_in(fn):
                    if any(isinstance(t, FunctionInfo) and t.cls is self.transformer and t.name == "__init__" for t in targets):
                        self._ios = fn
                        self.transformer_ctor_call = call
                        return fn
            raise AnalysisError("BADS no longer constructs a VariableTransformer")
        return self._ios

    @property
    def bounds_check(self) -> FunctionInfo:
        """validator = the BADS method called from __init__ that receives x0 and
        the four bounds."""
        if not hasattr(self, "_bc"):
            for call, targets in self.prog.calls_in(self.bads_init):
                for t in targets:
                    if isinstance(t, FunctionInfo) and t.cls is self.bads and len(call.args) + len(call.keywords) >= 5:
                        self._bc = t
                        self.bounds_check_call = call
                        return t
            raise AnalysisError("bounds validator (BADS method taking x0 and four bounds) not found")
        return self._bc

    @property
    def seed_fn(self) -> FunctionInfo:
        """seeding routine = the function that calls numpy.random.seed."""
        if not hasattr(self, "_seed"):
            for fn in self.prog.functions():
                for call, targets in self.prog.calls_in(fn):
                    if ("external", "numpy.random.seed") in targets:
                        self._seed = fn
                        return fn
            self._seed = None
        return self._seed


_roles_cache: Dict[int, Roles] = {}


def roles_of(prog: Program) -> Roles:
    k = id(prog)
    if k not in _roles_cache:
        _roles_cache[k] = Roles(prog)
    return _roles_cache[k]
