"""C14 -- each poll explores a positive spanning set of mesh directions at the
incumbent."""
from __future__ import annotations

import ast
from fractions import Fraction
from typing import Dict, List, Optional, Tuple

from ..cfg import cfg_of
from ..model import AnalysisError, FunctionInfo, bind_args
from ..roles import roles_of
from ..terms import call_name, canon, conjuncts, const_num, guard_of, linear, norm_stmt
from .common import int_le_form, iter_stores, kw, reaching_assignments, pos

EXPLANATION = (
    "R1 the direction generator returns vstack((M, -M)). R2 non-singular by construction: the assignments to M are, in order, a strictly "
    "triangular part (tril with k <= -1 / triu with k >= 1 of an integer draw), plus eye * d, then only rank-preserving operations (row "
    "permutation, transpose, division by the scale parameter); the value set of d is obtained by finite-set abstract evaluation of the literal "
    "randint draw through the expression with n_max >= 1 symbolic (it must exclude 0 and satisfy |d| <= n_max); the off-diagonal draws are "
    "bounded by interval evaluation of randint(lo, hi) - n_max as linear forms in n_max, giving |entries| <= n_max; n_max is max(1, .). R3 "
    "scale round trip: the expression divided out inside the generator is the argument the caller multiplies back, and the displacement "
    "B * mesh_size * scale is added to the incumbent. R4 loop discipline in the poll loop: the row evaluated is rows[i]; rows = delete(rows, "
    "i) and count += 1 lie on every path from the evaluation back to the loop header; the loop test has count < 2*D; the basis is generated "
    "only while it is None/empty. R5 poll candidates are snapped to the search grid only. R6 the mesh-size slots read by the poll step are coherent with their exponents on all paths (rules/meshflow.py: interprocedural must-dataflow, see C13-R5). Replaces the exhaustive enumeration over D <= 3 (an execution) by a symbolic argument."
    " R7 out-of-box poll candidates are dropped: the filter projects exactly when its flag is set and the poll step passes False."
)

RNG_ALIASES = ("rnd", "np.random", "numpy.random", "random")


def is_randint(e) -> Optional[ast.Call]:
    if isinstance(e, ast.Call):
        n = canon(e.func)
        if n.split(".")[-1] == "randint" and any(n.startswith(a) for a in RNG_ALIASES):
            return e
    return None


def finite_values(e: ast.AST, sym: str) -> Optional[List[Tuple[Fraction, Fraction]]]:
    """value set of ``e`` as [(a, b)] meaning a*sym + b, enumerating literal
    randint(lo, hi) draws; None when not evaluable."""
    r = is_randint(e)
    if r is not None:
        if len(r.args) >= 2:
            lo, hi = const_num(r.args[0]), const_num(r.args[1])
            if lo is not None and hi is not None and hi - lo <= 8:
                return [(Fraction(0), Fraction(v)) for v in range(int(lo), int(hi))]
        return None
    c = const_num(e)
    if c is not None:
        return [(Fraction(0), Fraction(c).limit_denominator(10**9))]
    if isinstance(e, ast.Name):
        if e.id == sym:
            return [(Fraction(1), Fraction(0))]
        return None
    if isinstance(e, ast.UnaryOp) and isinstance(e.op, ast.USub):
        v = finite_values(e.operand, sym)
        return None if v is None else [(-a, -b) for a, b in v]
    if isinstance(e, ast.Call) and call_name(e) == "np.where" and len(e.args) == 3:
        # element-wise selection: every entry is one of the two alternatives
        a_, b_ = finite_values(e.args[1], sym), finite_values(e.args[2], sym)
        return None if a_ is None or b_ is None else sorted(set(a_) | set(b_))
    if isinstance(e, ast.IfExp):
        a_, b_ = finite_values(e.body, sym), finite_values(e.orelse, sym)
        return None if a_ is None or b_ is None else sorted(set(a_) | set(b_))
    if isinstance(e, ast.BinOp):
        l, r_ = finite_values(e.left, sym), finite_values(e.right, sym)
        if l is None or r_ is None:
            return None
        out = []
        for a1, b1 in l:
            for a2, b2 in r_:
                if isinstance(e.op, ast.Add):
                    out.append((a1 + a2, b1 + b2))
                elif isinstance(e.op, ast.Sub):
                    out.append((a1 - a2, b1 - b2))
                elif isinstance(e.op, ast.Mult):
                    if a1 != 0 and a2 != 0:
                        return None
                    out.append((a1 * b2 + a2 * b1, b1 * b2))
                else:
                    return None
        return sorted(set(out))
    return None


def _poll_filter_drops(ctx, prog, R, poll):
    """A projected candidate is no longer incumbent + mesh_size * direction.  The poll step calls the candidate filter with
    the projection flag False; inside the filter the clamp of the candidates must be executed exactly when that flag is true
    (guard == the flag parameter, nothing or-ed to it)."""
    from .points import FilterSummary

    fs = FilterSummary(prog, R)
    calls = [c for c, tg in prog.calls_in(poll) if fs.fn in tg]
    if not calls or fs.p_proj is None:
        ctx.undecided("the poll step does not call the candidate filter with a projection flag")
        ctx.rules["R7"].floor = 0
        return
    for c in calls:
        b = bind_args(fs.fn, c)
        a = b.get(fs.p_proj)
        ctx.check(isinstance(a, ast.Constant) and a.value is False, poll, c, "poll step passes projection = False", f"the poll step asks the filter to project out-of-box candidates onto the box (flag {canon(a) if a is not None else 'default'}): projected points are not on the poll stencil", construct="poll filter projection flag")
    for st in fs.stages:
        if st.kind == "box-clamp":
            tests = []
            for t, pol in guard_of(prog, fs.fn, st.stmt):
                while isinstance(t, ast.UnaryOp) and isinstance(t.op, ast.Not):
                    t, pol = t.operand, not pol  # else-branch of ``if not proj``
                tests.append((t, pol))
            # the guards on the path to the clamp are a conjunction: the clamp runs only when the flag is set iff the flag is
            # one of the conjuncts (a further conjunct - "something sticks out" - only skips a clamp, which the box tags of
            # C01 / C17 account for)
            exact = any(pol_ and canon(t_) == fs.p_proj for t_, pol_ in tests)
            ctx.check(exact, fs.fn, st.stmt, f"projection executed only if {fs.p_proj}", f"the filter projects candidates onto the box under '{' and '.join(canon(t, neg=not p_) for t, p_ in tests) or 'no guard'}', not exactly when its projection flag is set: poll candidates beyond a bound are moved onto it (and evaluated off the stencil) instead of being dropped", construct="filter projection guard")


def check(ctx):
    prog = ctx.prog
    R = roles_of(prog)
    poll = R.poll_step
    # generator = package function called in the poll step whose result is multiplied by the mesh size
    gen = prog.try_function("poll_mads_2n")
    if gen is None:
        raise AnalysisError("poll direction generator poll_mads_2n not found")
    gcalls = [c for c, tg in prog.calls_in(poll) if gen in tg]
    if not gcalls:
        ctx.rule("R1", "the generator returns [M; -M]", floor=1)
        ctx.missing(poll, "call of the direction generator poll_mads_2n in the poll step")
        return
    gcall = gcalls[0]

    # ------------------------------------------------------------------ R1
    ctx.rule("R1", "the generator returns [M; -M]", floor=1)
    rets = [n for n in ast.walk(gen.node) if isinstance(n, ast.Return)]
    mname = None
    for r in rets:
        v = r.value
        if isinstance(v, ast.Name):
            defs = reaching_assignments(prog, gen, v.id, r)
            v = defs[0] if len(defs) == 1 else v
        ok = False
        if isinstance(v, ast.Call) and call_name(v) in ("np.vstack", "np.concatenate") and v.args and isinstance(v.args[0], (ast.Tuple, ast.List)) and len(v.args[0].elts) == 2:
            a, b = v.args[0].elts
            if isinstance(b, ast.UnaryOp) and isinstance(b.op, ast.USub) and canon(b.operand) == canon(a) and isinstance(a, ast.Name):
                ok = True
                mname = a.id
            elif isinstance(a, ast.UnaryOp) and isinstance(a.op, ast.USub) and canon(a.operand) == canon(b) and isinstance(b, ast.Name):
                ok = True
                mname = b.id
        ctx.check(ok, gen, r, "returns vstack((M, -M))", "the direction set is not {+d_i} U {-d_i}: it does not positively span the space", construct=f"generator returns {canon(v)[:60]}")
    if mname is None:
        return

    # ------------------------------------------------------------------ R2
    ctx.rule("R2", "M = strictly triangular + non-zero diagonal, then rank-preserving operations only; entries bounded by n_max", floor=5)
    params = gen.params
    chain = sorted([(pos(s), v, s) for t, v, s, k in iter_stores(gen.node) if isinstance(t, ast.Name) and t.id == mname], key=lambda x: x[0])
    # n_max
    nmax = None
    for t, v, s, k in iter_stores(gen.node):
        if isinstance(t, ast.Name) and call_name(v) in ("np.maximum", "max") and len(v.args) == 2 and any(const_num(a) == 1 for a in v.args):
            nmax = t.id
            ctx.ok(gen, s, f"{t.id} = max(1, .) >= 1")
    if nmax is None:
        ctx.fail(gen, gen.node, "the mesh-ratio bound n_max is not defined as max(1, .): a zero ratio would give a zero diagonal", construct="<missing n_max = max(1, .)>")
        return
    # abstract interpretation of the matrix-valued locals (must-dataflow; robust to temporaries and helper extraction):
    #   DRAW  integer draw with entries in [-n_max, n_max]      TRI  strictly triangular part of a DRAW (or zeros)
    #   NS    TRI + eye * d with d in a finite non-zero value set bounded by n_max, then rank-preserving operations only
    from ..flow import BasePolicy, TagFlow

    issues = {}  # id(node) -> (node, message, construct)
    notes = {}

    def bound_draw(v, s_):
        draw = is_randint(v.left) if isinstance(v, ast.BinOp) and is_randint(v.left) is not None else is_randint(v)
        off = v.right if isinstance(v, ast.BinOp) and is_randint(v.left) is not None else None
        lo, hi = draw.args[0], draw.args[1]
        llo, clo = linear(lo)
        lhi, chi = linear(hi)
        sub_t, sub_c = linear(off) if off is not None and isinstance(v.op, ast.Sub) else ({}, 0)

        def coef(d):
            return d.get(nmax, 0), {k: x for k, x in d.items() if k != nmax}

        a_lo, rest1 = coef(llo)
        a_hi, rest2 = coef(lhi)
        a_of, rest3 = coef(sub_t)
        if rest1 or rest2 or rest3:
            notes[id(v)] = f"integer draw {canon(v)[:50]} depends on more than n_max"
            return None
        lo_a, lo_b = a_lo - a_of, clo - sub_c
        hi_a, hi_b = a_hi - a_of, chi - 1 - sub_c
        up_ok = (hi_a - 1 <= 0) and ((hi_a - 1) * 1 + hi_b <= 0)
        dn_ok = (lo_a + 1 >= 0) and ((lo_a + 1) * 1 + lo_b >= 0)
        if up_ok and dn_ok:
            notes[id(v)] = f"off-diagonal draw in [{lo_a}*n{float(lo_b):+g}, {hi_a}*n{float(hi_b):+g}] within [-n, n]"
            return True
        issues[id(v)] = (v, f"the off-diagonal integer draw ranges over [{lo_a}*n_max{float(lo_b):+g}, {hi_a}*n_max{float(hi_b):+g}], outside [-n_max, n_max]: entries are not bounded by the mesh ratio", f"off-diagonal draw range [{lo_a}n{float(lo_b):+g}, {hi_a}n{float(hi_b):+g}]")
        return False

    class MatPolicy(BasePolicy):
        row_select_preserves = False

        def eval(self, v, state, flow):
            if isinstance(v, ast.Name):
                return state.get(v.id, frozenset())
            cv = canon(v)
            if (isinstance(v, ast.BinOp) and is_randint(v.left) is not None) or is_randint(v) is not None:
                before = set(issues)
                okd = bound_draw(v, None)
                if okd is False:
                    # reported only if the draw becomes the matrix's random part (a sign draw for the diagonal is not one)
                    for k_ in set(issues) - before:
                        pending[id(v)] = issues.pop(k_)
                    return frozenset({"XDRAW"})
                return frozenset({"DRAW"}) if okd else frozenset()
            if call_name(v) in ("np.tril", "np.triu") and v.args:
                inner = self.eval(v.args[0], state, flow)
                kk = const_num(v.args[1]) if len(v.args) > 1 else (const_num(kw(v, "k")) if kw(v, "k") is not None else 0)
                strict = (call_name(v) == "np.tril" and kk is not None and kk <= -1) or (call_name(v) == "np.triu" and kk is not None and kk >= 1)
                if "NS" in inner:
                    issues[id(v)] = (v, f"{call_name(v)} is applied after the diagonal was added: the basis loses its diagonal", f"triangular part after diagonal {cv[:40]}")
                    return frozenset()
                if not strict:
                    issues[id(v)] = (v, f"the random part is {call_name(v)}(., {kk}): its diagonal is kept, so the sum with the +-d diagonal can be singular (zero diagonal entry)", f"non-strict triangular part {call_name(v)} k={kk}")
                    return frozenset()
                if "DRAW" in inner:
                    notes[id(v)] = f"strictly triangular part ({call_name(v)}, k={kk})"
                    return frozenset({"TRI"})
                if "XDRAW" in inner:
                    for k_, iss in list(pending.items()):
                        issues[k_] = iss
                return frozenset()
            if call_name(v) == "np.zeros":
                notes[id(v)] = "zero matrix (degenerate branch)"
                return frozenset({"TRI"})
            if isinstance(v, ast.BinOp) and isinstance(v.op, ast.Add) and "np.eye" in cv:
                sides = [(v.left, v.right), (v.right, v.left)]
                for tri_e, diag_e in sides:
                    t_tags = self.eval(tri_e, state, flow)
                    dexpr = None
                    if isinstance(diag_e, ast.BinOp) and isinstance(diag_e.op, ast.Mult):
                        for x_, y_ in ((diag_e.left, diag_e.right), (diag_e.right, diag_e.left)):
                            if call_name(x_) == "np.eye":
                                dexpr = y_
                    elif call_name(diag_e) == "np.diag" and diag_e.args:
                        dexpr = diag_e.args[0]
                    if dexpr is None:
                        continue
                    if "TRI" not in t_tags:
                        issues[id(v)] = (v, "no strictly triangular part precedes the diagonal (the other summand is not the strictly triangular part of a bounded draw)", "diagonal without triangular part")
                        return frozenset()
                    if isinstance(dexpr, ast.Name):
                        dd = reaching_assignments(prog, gen, dexpr.id, v)
                        dexpr = dd[0] if len(dd) == 1 else dexpr
                    vals = finite_values(dexpr, nmax)
                    if vals is None:
                        notes[id(v)] = f"undecided: value set of the diagonal {canon(dexpr)[:60]} not evaluable"
                        return frozenset({"NS", "UNDEC"})
                    nonzero = all((a_ != 0 and b_ == 0) or (a_ == 0 and b_ != 0) or (a_ * b_ > 0) for a_, b_ in vals)
                    bounded = all(abs(a_) <= 1 and b_ == 0 for a_, b_ in vals)
                    if nonzero and bounded:
                        notes[id(v)] = f"diagonal values {[(str(a_), str(b_)) for a_, b_ in vals]} (a*n_max+b): non-zero, |d| <= n_max"
                        return frozenset({"NS"})
                    issues[id(v)] = (v, f"the diagonal takes the values {[f'{a_}*n_max{float(b_):+g}' for a_, b_ in vals]}: " + ("a zero diagonal entry makes the basis singular" if not nonzero else "entries exceed the mesh ratio n_max"), f"diagonal value set {[(str(a_), str(b_)) for a_, b_ in vals]}")
                    return frozenset()
                issues[id(v)] = (v, "the diagonal term is not eye * d", f"diagonal term {cv[:60]}")
                return frozenset()
            # rank-preserving operations on a non-singular matrix
            inner = None
            if call_name(v) == "np.transpose" and v.args:
                inner = v.args[0]
            elif isinstance(v, ast.Attribute) and v.attr == "T":
                inner = v.value
            elif isinstance(v, ast.Call) and canon(v.func).split(".")[-1] == "permutation" and v.args:
                inner = v.args[0]
            elif isinstance(v, ast.BinOp) and isinstance(v.op, ast.Div) and isinstance(v.right, ast.Name) and v.right.id in params:
                inner = v.left
                ctx.extra["divisor_param"] = v.right.id
            elif isinstance(v, ast.Call) and isinstance(v.func, ast.Attribute) and v.func.attr in ("copy", "astype"):
                inner = v.func.value
            if inner is not None:
                t_ = self.eval(inner, state, flow)
                return t_
            if isinstance(v, ast.UnaryOp) and isinstance(v.op, ast.USub):
                return self.eval(v.operand, state, flow)
            return frozenset()

        def eval_unpack(self, value, i, n, state, flow):
            return frozenset()

        def after_stmt(self, node, state, flow):
            # M[np.triu_indices(n)] = 0 : the in-place spelling of np.tril(M, -1) (and its mirror image)
            s_ = node.stmt
            if node.kind == "stmt" and isinstance(s_, ast.Assign) and len(s_.targets) == 1 and isinstance(s_.targets[0], ast.Subscript) and isinstance(s_.targets[0].value, ast.Name) \
                    and const_num(s_.value) == 0 and call_name(s_.targets[0].slice) in ("np.triu_indices", "np.tril_indices", "np.triu_indices_from", "np.tril_indices_from"):
                sl = s_.targets[0].slice
                which = call_name(sl)
                ka = sl.args[1] if len(sl.args) > 1 else kw(sl, "k")
                kk = 0 if ka is None else const_num(ka)
                m_ = s_.targets[0].value.id
                pre = (flow.inn.get(node.id) or {}).get(m_, frozenset())
                strict = kk is not None and ((which.startswith("np.triu") and kk <= 0) or (which.startswith("np.tril") and kk >= 0))
                if "NS" in pre:
                    issues[id(s_)] = (s_, "a triangle of the matrix is zeroed after the diagonal was added: the basis loses its diagonal", "triangle zeroed after diagonal")
                    state[m_] = frozenset()
                elif not strict:
                    issues[id(s_)] = (s_, f"the random part keeps its diagonal ({which}(., {kk}) is zeroed): the sum with the +-d diagonal can be singular and its entries exceed the mesh ratio", f"non-strict triangular part {which} k={kk}")
                    state[m_] = frozenset()
                elif "DRAW" in pre:
                    notes[id(s_)] = f"strictly triangular part (zeroing {which}, k={kk})"
                    state[m_] = frozenset({"TRI"})
                elif "XDRAW" in pre:
                    for k_, iss in list(pending.items()):
                        issues[k_] = iss
            return state

    pending = {}
    mf = TagFlow(prog, gen, MatPolicy())
    rets_ = [n for n in ast.walk(gen.node) if isinstance(n, ast.Return) and n.value is not None]
    final = None
    for r_ in rets_:
        v_ = r_.value
        if isinstance(v_, ast.Name):
            dd_ = reaching_assignments(prog, gen, v_.id, r_)
            v_ = dd_[0] if len(dd_) == 1 else v_
        row_stack = call_name(v_) in ("np.vstack", "np.row_stack") or (call_name(v_) == "np.concatenate" and (kw(v_, "axis") is None and len(v_.args) < 2 or const_num(kw(v_, "axis") or (v_.args[1] if len(v_.args) > 1 else None)) == 0))
        if row_stack and v_.args and isinstance(v_.args[0], (ast.Tuple, ast.List)) and len(v_.args[0].elts) == 2:
            e0 = v_.args[0].elts[0]
            e0 = e0.operand if isinstance(e0, ast.UnaryOp) else e0
            st_ = mf.state_before(r_ if isinstance(r_.value, ast.Call) else r_)
            tg_ = mf.policy.eval(e0, mf.state_before(v_) or mf.state_before(r_) or {}, mf)
            final = tg_ if final is None else final & tg_
    for node_, msg_, cons_ in issues.values():
        ctx.fail(gen, node_, msg_, construct=cons_)
    for k_, txt in notes.items():
        if txt.startswith("undecided"):
            ctx.undecided(txt[11:])
        else:
            ctx.ok(gen, gen.node, txt)
    if not issues:
        ctx.check(final is not None and "NS" in final, gen, rets_[-1] if rets_ else gen.node, "the stacked matrix is strictly triangular + non-zero diagonal, then rank-preserving operations only",
                  "the matrix that is stacked as [M; -M] is not, on every path, a strictly triangular bounded draw plus a non-zero bounded diagonal followed by rank-preserving operations only", construct="<basis construction>")

    # ------------------------------------------------------------------ R3
    ctx.rule("R3", "the scale divided out in the generator is multiplied back by the caller; displacement = B * mesh_size * scale added to the incumbent", floor=2)
    div_param = ctx.extra.get("divisor_param")
    b = bind_args(gen, gcall)
    if div_param is None:
        ctx.note("the generator divides by no parameter (no scale to multiply back)")
        scale = None
    else:
        from .common import deref_canon as _dcs

        scale = _dcs(prog, poll, b.get(div_param)) if b.get(div_param) is not None else None
    st = prog.parent(gcall)
    bname = canon(st.targets[0]) if isinstance(st, ast.Assign) else None
    prod = None
    for t, v, s, k in iter_stores(poll.node):
        if v is not None and bname and bname in {n.id for n in ast.walk(v) if isinstance(n, ast.Name)} and isinstance(v, ast.BinOp) and isinstance(v.op, ast.Mult):
            factors = []

            def flat(e):
                if isinstance(e, ast.BinOp) and isinstance(e.op, ast.Mult):
                    flat(e.left)
                    flat(e.right)
                else:
                    from .common import deref_canon as _dcf

                    # a factor kept in a local (mesh size, poll scale) counts as what it was computed from
                    factors.append(_dcf(prog, poll, e) if isinstance(e, ast.Name) and canon(e) != bname else canon(e))

            flat(v)
            prod = (canon(t), sorted(factors), s)
    if prod is None:
        ctx.missing(poll, "product of the direction matrix with the mesh size")
    else:
        vname, factors, s = prod
        want = sorted([bname, "OS[mesh_size]"] + ([scale] if scale else []))
        alt = sorted([bname, "self.mesh_size"] + ([scale] if scale else []))
        ctx.check(factors in (want, alt), poll, s, f"displacement = {' * '.join(factors)}", f"the poll displacement is {' * '.join(factors)}; expected direction matrix * mesh size * the very scale divided out by the generator ({scale})", construct=f"displacement factors {factors}")
        def _inc(e, at):
            """the operand as written, or - a local that holds the incumbent read before the loop - self.u, provided nothing
            re-assigns self.u between that read and this use"""
            c_ = canon(e)
            if isinstance(e, ast.Name) and c_ != vname:
                dd_ = reaching_assignments(prog, poll, e.id, at)
                if len(dd_) == 1 and canon(dd_[0]) == "self.u":
                    from .common import attr_stable_between, enclosing_stmt

                    if attr_stable_between(prog, poll, "u", enclosing_stmt(prog, dd_[0]), at):
                        return "self.u"
            return c_

        adds = [(t, v, s2) for t, v, s2, k in iter_stores(poll.node) if isinstance(v, ast.BinOp) and isinstance(v.op, ast.Add) and {_inc(v.left, s2), _inc(v.right, s2)} == {"self.u", vname}]
        ctx.check(bool(adds), poll, s, "candidates = incumbent + displacement", "poll candidates are not the incumbent plus the displacement", construct="poll candidates not incumbent + displacement")

    # ------------------------------------------------------------------ R5
    ctx.rule("R5", "poll candidates are only ever snapped to the search grid the incumbent lies on", floor=0)
    for c, tg in prog.calls_in(poll):
        if any(isinstance(t, FunctionInfo) and t.name == "force_to_grid" for t in tg) and len(c.args) >= 2:
            from .common import deref_canon as _dcg

            okg = canon(c.args[1]) in ("OS[search_mesh_size]", "self.search_mesh_size") or _dcg(prog, poll, c.args[1]) in ("OS[search_mesh_size]", "self.search_mesh_size")
            ctx.check(okg, poll, c, "poll candidates snapped to the search mesh", f"poll candidates are snapped to a grid of size '{canon(c.args[1])}', not the search mesh: evaluated points are displaced by up to half of that cell from incumbent + mesh_size * direction",
                      construct=f"poll candidates forced to grid {canon(c.args[1])}")

    # ------------------------------------------------------------------ R7
    ctx.rule("R7", "out-of-box poll candidates are dropped, never projected: the filter's projection branch is selected by the flag the poll step passes as False", floor=1)
    _poll_filter_drops(ctx, prog, R, poll)

    # ------------------------------------------------------------------ R4
    ctx.rule("R4", "polled row deleted and counter advanced on every evaluating path; loop bounded by 2*D; basis generated once", floor=4)
    cfg = cfg_of(poll)
    lcs = R.logger_calls(poll)
    loop = None
    for c in lcs:
        for p in prog.ancestors(c):
            if isinstance(p, ast.While):
                loop = (p, c)
                break
    if loop is None:
        ctx.missing(poll, "poll loop with an evaluation")
        return
    lp, call = loop
    hdr = cfg.head_of(lp)
    cn = cfg.node_of(call)
    arg = call.args[0]
    adefs = reaching_assignments(prog, poll, arg.id, call) if isinstance(arg, ast.Name) else [arg]
    for _hop in range(4):  # follow plain copies of the chosen row
        if len(adefs) == 1 and isinstance(adefs[0], ast.Name):
            adefs = reaching_assignments(prog, poll, adefs[0].id, call)
    rows = idx = None
    for d in adefs:
        if isinstance(d, ast.Subscript) and isinstance(d.value, ast.Name):
            rows, idx = d.value.id, canon(d.slice)
    if rows is None:
        ctx.fail(poll, call, "the polled point is not a row rows[i] of the candidate set", construct=f"polled point {canon(adefs[0]) if adefs else '?'}")
        return
    dels = [s for t, v, s, k in iter_stores(lp) if isinstance(t, ast.Name) and t.id == rows and call_name(v) == "np.delete" and v.args and canon(v.args[0]) == rows and len(v.args) > 1 and canon(v.args[1]) == idx]
    if not dels:
        ctx.fail(poll, call, f"the evaluated row {rows}[{idx}] is not removed from the candidate set: a direction can be tried twice", construct="<missing delete of polled row>")
    else:
        dn = cfg.node_of(dels[0])
        ax = kw(dels[0].value, "axis") if isinstance(dels[0], ast.Assign) else None
        back = hdr.id in cfg.reachable(cn.id, avoiding={dn.id}) and dn.id != cn.id
        ctx.check(not back and ax is not None and const_num(ax) == 0, poll, dels[0], f"{rows} = delete({rows}, {idx}, axis=0) on every path back to the loop header", "an evaluated direction can survive in the candidate set (delete bypassed or not along axis 0)", construct="delete of polled row bypass")
    # counter
    cnt = None
    from .common import deref_expr as _dx14

    for c, pol in conjuncts(lp.test, True):
        nf = int_le_form(_dx14(prog, poll, c), neg=not pol)  # the bound 2*D kept in a local
        if nf and nf[0] == "<=":
            form, const = dict(nf[1][0]), nf[1][1]
            if "self.D" in form and len(form) == 2:
                other = [k for k in form if k != "self.D"][0]
                if form[other] == 1 and form["self.D"] == -2 and const == 1:
                    cnt = other
                elif form[other] == 1:
                    ctx.fail(poll, lp, f"the poll loop bound is '{canon(c)}', not count < 2*D", construct=f"poll bound {canon(c)}")
                    cnt = other
    if cnt is None:
        ctx.fail(poll, lp, "the poll loop has no conjunct count < 2*D", construct="<missing 2*D bound>")
    else:
        incs = [s for t, v, s, k in iter_stores(lp) if isinstance(t, ast.Name) and t.id == cnt and k == "aug" and isinstance(s.op, ast.Add) and const_num(v) == 1]
        if len(incs) != 1:
            ctx.fail(poll, lp, f"the poll counter {cnt} has {len(incs)} increments in the loop (expected one)", construct=f"{cnt} increments {len(incs)}")
        else:
            inn = cfg.node_of(incs[0])
            back = hdr.id in cfg.reachable(cn.id, avoiding={inn.id})
            ctx.check(not back, poll, incs[0], f"{cnt} += 1 on every path from the evaluation back to the header; loop bound {cnt} < 2*D", "an evaluation can return to the loop header without advancing the poll counter: more than 2*D points can be polled", construct="poll counter bypass")
        inits = [s for t, v, s, k in iter_stores(poll.node) if isinstance(t, ast.Name) and t.id == cnt and k == "assign" and s not in list(ast.walk(lp))]
        ctx.check(len(inits) == 1 and const_num(inits[0].value) == 0, poll, inits[0] if inits else lp, f"{cnt} starts at 0", f"the poll counter {cnt} does not start at 0", construct=f"{cnt} initialisation")
    # basis generated only while None/empty
    from ..terms import guard_of

    g = [canon(t, neg=not p) for t, p in guard_of(prog, poll, gcall)]
    bvar = None
    for t, v, s, k in iter_stores(lp):
        if isinstance(t, ast.Name) and v is not None and bname and canon(v) in (f"{bname}.copy()", bname):
            bvar = t.id
    okb = False
    if bvar is not None:
        from ..terms import disjuncts

        for t, pol in guard_of(prog, poll, gcall):
            ds = {canon(c, neg=not p_) for c, p_ in disjuncts(t, pol)}
            allowed = {f"({bvar} is None)", f"(0 == {bvar}.size)", f"(0 == len({bvar}))", f"({bvar}.size < 1)", f"(len({bvar}) < 1)"}
            if f"({bvar} is None)" in ds and ds <= allowed:
                okb = True
    ctx.check(okb, poll, gcall, f"basis generated only while {bvar} is None or empty, then kept", "the direction basis can be regenerated in the middle of a poll: directions need not form one positive spanning set", construct=f"basis generation guard {g[-1:] }")
    from . import meshflow

    meshflow.report(ctx, "R6", lambda fn, slot, R: fn is R.poll_step)
    ctx.assume("numpy.random.randint(lo, hi) draws integers in [lo, hi-1]; permutation/transposition/row scaling preserve rank")
    ctx.assume("a strictly triangular matrix plus a diagonal with non-zero entries is non-singular (determinant = product of the diagonal)")
