"""C14 -- each poll explores a positive spanning set of mesh directions at the
incumbent."""
from __future__ import annotations

import ast
from fractions import Fraction
from typing import Dict, List, Optional, Tuple

from ..cfg import cfg_of
from ..model import AnalysisError, FunctionInfo, bind_args
from ..roles import roles_of
from ..terms import call_name, canon, conjuncts, const_num, guard_of, linear, norm_stmt
from .common import int_le_form, iter_stores, kw, reaching_assignments

EXPLANATION = (
    "R1 the direction generator returns vstack((M, -M)). R2 non-singular by construction: the assignments to M are, in order, a strictly "
    "triangular part (tril with k <= -1 / triu with k >= 1 of an integer draw), plus eye * d, then only rank-preserving operations (row "
    "permutation, transpose, division by the scale parameter); the value set of d is obtained by finite-set abstract evaluation of the literal "
    "randint draw through the expression with n_max >= 1 symbolic (it must exclude 0 and satisfy |d| <= n_max); the off-diagonal draws are "
    "bounded by interval evaluation of randint(lo, hi) - n_max as linear forms in n_max, giving |entries| <= n_max; n_max is max(1, .). R3 "
    "scale round trip: the expression divided out inside the generator is the argument the caller multiplies back, and the displacement "
    "B * mesh_size * scale is added to the incumbent. R4 loop discipline in the poll loop: the row evaluated is rows[i]; rows = delete(rows, "
    "i) and count += 1 lie on every path from the evaluation back to the loop header; the loop test has count < 2*D; the basis is generated "
    "only while it is None/empty. R5 poll candidates are snapped to the search grid only. R6 the mesh-size slots read by the poll step are coherent with their exponents on all paths (rules/meshflow.py: interprocedural must-dataflow, see C13-R5). Replaces the exhaustive enumeration over D <= 3 (an execution) by a symbolic argument."
    " R7 out-of-box poll candidates are dropped: the filter projects exactly when its flag is set and the poll step passes False."
)

RNG_ALIASES = ("rnd", "np.random", "numpy.random", "random")


def is_randint(e) -> Optional[ast.Call]:
    if isinstance(e, ast.Call):
        n = canon(e.func)
        if n.split(".")[-1] == "randint" and any(n.startswith(a) for a in RNG_ALIASES):
            return e
    return None


def finite_values(e: ast.AST, sym: str) -> Optional[List[Tuple[Fraction, Fraction]]]:
    """value set of ``e`` as [(a, b)] meaning a*sym + b, enumerating literal
    randint(lo, hi) draws; None when not evaluable."""
    r = is_randint(e)
    if r is not None:
        if len(r.args) >= 2:
            lo, hi = const_num(r.args[0]), const_num(r.args[1])
            if lo is not None and hi is not None and hi - lo <= 8:
                return [(Fraction(0), Fraction(v)) for v in range(int(lo), int(hi))]
        return None
    c = const_num(e)
    if c is not None:
        return [(Fraction(0), Fraction(c).limit_denominator(10**9))]
    if isinstance(e, ast.Name):
        if e.id == sym:
            return [(Fraction(1), Fraction(0))]
        return None
    if isinstance(e, ast.UnaryOp) and isinstance(e.op, ast.USub):
        v = finite_values(e.operand, sym)
        return None if v is None else [(-a, -b) for a, b in v]
    if isinstance(e, ast.BinOp):
        l, r_ = finite_values(e.left, sym), finite_values(e.right, sym)
        if l is None or r_ is None:
            return None
        out = []
        for a1, b1 in l:
            for a2, b2 in r_:
                if isinstance(e.op, ast.Add):
                    out.append((a1 + a2, b1 + b2))
                elif isinstance(e.op, ast.Sub):
                    out.append((a1 - a2, b1 - b2))
                elif isinstance(e.op, ast.Mult):
                    if a1 != 0 and a2 != 0:
                        return None
                    out.append((a1 * b2 + a2 * b1, b1 * b2))
                else:
                    return None
        return sorted(set(out))
    return None


def _poll_filter_drops(ctx, prog, R, poll):
    """A projected candidate is no longer incumbent + mesh_size * direction.  The poll step calls the candidate filter with
    the projection flag False; inside the filter the clamp of the candidates must be executed exactly when that flag is true
    (guard == the flag parameter, nothing or-ed to it)."""
    from .points import FilterSummary

    fs = FilterSummary(prog, R)
    calls = [c for c, tg in prog.calls_in(poll) if fs.fn in tg]
    if not calls or fs.p_proj is None:
        ctx.undecided("the poll step does not call the candidate filter with a projection flag")
        ctx.rules["R7"].floor = 0
        return
    for c in calls:
        b = bind_args(fs.fn, c)
        a = b.get(fs.p_proj)
        ctx.check(isinstance(a, ast.Constant) and a.value is False, poll, c, "poll step passes projection = False", f"the poll step asks the filter to project out-of-box candidates onto the box (flag {canon(a) if a is not None else 'default'}): projected points are not on the poll stencil", construct="poll filter projection flag")
    for st in fs.stages:
        if st.kind == "box-clamp":
            tests = [(t, pol) for t, pol in guard_of(prog, fs.fn, st.stmt)]
            exact = len(tests) == 1 and tests[0][1] and canon(tests[0][0]) == fs.p_proj
            ctx.check(exact, fs.fn, st.stmt, f"projection executed iff {fs.p_proj}", f"the filter projects candidates onto the box under '{' and '.join(canon(t, neg=not p_) for t, p_ in tests) or 'no guard'}', not exactly when its projection flag is set: poll candidates beyond a bound are moved onto it (and evaluated off the stencil) instead of being dropped", construct="filter projection guard")


def check(ctx):
    prog = ctx.prog
    R = roles_of(prog)
    poll = R.poll_step
    # generator = package function called in the poll step whose result is multiplied by the mesh size
    gen = prog.try_function("poll_mads_2n")
    if gen is None:
        raise AnalysisError("poll direction generator poll_mads_2n not found")
    gcalls = [c for c, tg in prog.calls_in(poll) if gen in tg]
    if not gcalls:
        ctx.rule("R1", "the generator returns [M; -M]", floor=1)
        ctx.missing(poll, "call of the direction generator poll_mads_2n in the poll step")
        return
    gcall = gcalls[0]

    # ------------------------------------------------------------------ R1
    ctx.rule("R1", "the generator returns [M; -M]", floor=1)
    rets = [n for n in ast.walk(gen.node) if isinstance(n, ast.Return)]
    mname = None
    for r in rets:
        v = r.value
        if isinstance(v, ast.Name):
            defs = reaching_assignments(prog, gen, v.id, r)
            v = defs[0] if len(defs) == 1 else v
        ok = False
        if isinstance(v, ast.Call) and call_name(v) in ("np.vstack", "np.concatenate") and v.args and isinstance(v.args[0], (ast.Tuple, ast.List)) and len(v.args[0].elts) == 2:
            a, b = v.args[0].elts
            if isinstance(b, ast.UnaryOp) and isinstance(b.op, ast.USub) and canon(b.operand) == canon(a) and isinstance(a, ast.Name):
                ok = True
                mname = a.id
            elif isinstance(a, ast.UnaryOp) and isinstance(a.op, ast.USub) and canon(a.operand) == canon(b) and isinstance(b, ast.Name):
                ok = True
                mname = b.id
        ctx.check(ok, gen, r, "returns vstack((M, -M))", "the direction set is not {+d_i} U {-d_i}: it does not positively span the space", construct=f"generator returns {canon(v)[:60]}")
    if mname is None:
        return

    # ------------------------------------------------------------------ R2
    ctx.rule("R2", "M = strictly triangular + non-zero diagonal, then rank-preserving operations only; entries bounded by n_max", floor=5)
    params = gen.params
    chain = sorted([(s.lineno, v, s) for t, v, s, k in iter_stores(gen.node) if isinstance(t, ast.Name) and t.id == mname], key=lambda x: x[0])
    # n_max
    nmax = None
    for t, v, s, k in iter_stores(gen.node):
        if isinstance(t, ast.Name) and call_name(v) in ("np.maximum", "max") and len(v.args) == 2 and any(const_num(a) == 1 for a in v.args):
            nmax = t.id
            ctx.ok(gen, s, f"{t.id} = max(1, .) >= 1")
    if nmax is None:
        ctx.fail(gen, gen.node, "the mesh-ratio bound n_max is not defined as max(1, .): a zero ratio would give a zero diagonal", construct="<missing n_max = max(1, .)>")
        return
    stage = 0  # 0 draw/tri, 1 diag added, 2 post
    tri_seen = diag_seen = False
    for _l, v, s in chain:
        cv = canon(v)
        names = {n.id for n in ast.walk(v) if isinstance(n, ast.Name)}
        r = None
        if isinstance(v, ast.BinOp) and is_randint(v.left) is not None:
            r = v
        if r is not None or is_randint(v) is not None:
            # integer draw: bound by interval evaluation
            draw = is_randint(v.left) if r is not None else is_randint(v)
            off = v.right if r is not None else None
            lo, hi = draw.args[0], draw.args[1]
            llo, clo = linear(lo)
            lhi, chi = linear(hi)
            sub_t, sub_c = linear(off) if off is not None and isinstance(v.op, ast.Sub) else ({}, 0)
            # interval [lo - off, hi - 1 - off]
            def coef(d):
                return d.get(nmax, 0), {k: x for k, x in d.items() if k != nmax}

            a_lo, rest1 = coef(llo)
            a_hi, rest2 = coef(lhi)
            a_of, rest3 = coef(sub_t)
            if rest1 or rest2 or rest3:
                ctx.undecided(f"integer draw {cv[:50]} depends on more than n_max")
                continue
            lo_a, lo_b = a_lo - a_of, clo - sub_c
            hi_a, hi_b = a_hi - a_of, chi - 1 - sub_c
            # need hi_a*n + hi_b <= n  and  lo_a*n + lo_b >= -n  for all n >= 1
            up_ok = (hi_a - 1 <= 0) and ((hi_a - 1) * 1 + hi_b <= 0)
            dn_ok = (lo_a + 1 >= 0) and ((lo_a + 1) * 1 + lo_b >= 0)
            ctx.check(up_ok and dn_ok, gen, s, f"off-diagonal draw in [{lo_a}*n{float(lo_b):+g}, {hi_a}*n{float(hi_b):+g}] within [-n, n]", f"the off-diagonal integer draw ranges over [{lo_a}*n_max{float(lo_b):+g}, {hi_a}*n_max{float(hi_b):+g}], which exceeds the mesh-ratio bound n_max", construct=f"off-diagonal draw {cv[:60]}")
            continue
        if call_name(v) in ("np.tril", "np.triu") and v.args and canon(v.args[0]) == mname:
            kk = const_num(v.args[1]) if len(v.args) > 1 else (const_num(kw(v, "k")) if kw(v, "k") is not None else 0)
            strict = (call_name(v) == "np.tril" and kk is not None and kk <= -1) or (call_name(v) == "np.triu" and kk is not None and kk >= 1)
            tri_seen = True
            ctx.check(strict and not diag_seen, gen, s, f"strictly triangular part ({call_name(v)}, k={kk})", f"the random part is {call_name(v)}(., {kk}): its diagonal is kept, so the sum with the +-n diagonal can be singular", construct=f"{call_name(v)} k={kk}")
            continue
        if call_name(v) == "np.zeros":
            ctx.ok(gen, s, "zero matrix (degenerate branch)")
            continue
        if isinstance(v, ast.BinOp) and isinstance(v.op, ast.Add) and mname in names and "np.eye" in cv:
            # D + eye * d
            other = v.right if canon(v.left) == mname else v.left
            dexpr = None
            if isinstance(other, ast.BinOp) and isinstance(other.op, ast.Mult):
                for a, b in ((other.left, other.right), (other.right, other.left)):
                    if call_name(a) == "np.eye":
                        dexpr = b
            if dexpr is None:
                ctx.fail(gen, s, "the diagonal term is not eye * d", construct=f"diagonal term {canon(other)[:60]}")
                continue
            if isinstance(dexpr, ast.Name):
                dd = reaching_assignments(prog, gen, dexpr.id, s)
                dexpr = dd[0] if len(dd) == 1 else dexpr
            vals = finite_values(dexpr, nmax)
            if vals is None:
                ctx.undecided(f"value set of the diagonal {canon(dexpr)[:60]} not evaluable")
            else:
                nonzero = all((a != 0 and b == 0) or (a == 0 and b != 0) or (a * b > 0) for a, b in vals)
                bounded = all(abs(a) <= 1 and b == 0 for a, b in vals)
                ctx.check(nonzero and bounded, gen, s, f"diagonal values {[(str(a), str(b)) for a, b in vals]} (a*n_max+b): non-zero, |d| <= n_max", f"the diagonal takes the values {[f'{a}*n_max{float(b):+g}' for a, b in vals]}: it can vanish or exceed n_max, so the directions need not be a basis with bounded entries",
                          construct=f"diagonal value set {[(str(a), str(b)) for a, b in vals]}")
            diag_seen = True
            ctx.check(tri_seen, gen, s, "diagonal added to the strictly triangular part", "no strictly triangular part precedes the diagonal", construct="diagonal without triangular part")
            continue
        if diag_seen:
            okp = False
            if call_name(v) in ("np.transpose",) or (isinstance(v, ast.Attribute) and v.attr == "T"):
                okp = mname in names
            if isinstance(v, ast.Call) and canon(v.func).split(".")[-1] == "permutation" and v.args and canon(v.args[0]) == mname:
                okp = True
            if call_name(v) == "np.transpose" and v.args and isinstance(v.args[0], ast.Call) and canon(v.args[0].func).split(".")[-1] == "permutation":
                okp = canon(v.args[0].args[0]) == mname
            if isinstance(v, ast.BinOp) and isinstance(v.op, ast.Div) and canon(v.left) == mname and isinstance(v.right, ast.Name) and v.right.id in params:
                okp = True
                div_param = v.right.id
                ctx.extra["divisor_param"] = div_param
            ctx.check(okp, gen, s, f"rank-preserving: {cv[:50]}", f"after the basis is built it is modified by '{cv[:60]}', which is not a permutation, transpose or division by the scale parameter", construct=f"post-op {cv[:60]}")
            continue
        ctx.fail(gen, s, f"unrecognised construction step '{cv[:60]}' before the diagonal is added", construct=f"pre-op {cv[:60]}")
    ctx.check(diag_seen, gen, gen.node, "diagonal term present", "no non-zero diagonal is added to the triangular part", construct="<missing diagonal>")

    # ------------------------------------------------------------------ R3
    ctx.rule("R3", "the scale divided out in the generator is multiplied back by the caller; displacement = B * mesh_size * scale added to the incumbent", floor=2)
    div_param = ctx.extra.get("divisor_param")
    b = bind_args(gen, gcall)
    if div_param is None:
        ctx.note("the generator divides by no parameter (no scale to multiply back)")
        scale = None
    else:
        scale = canon(b.get(div_param)) if b.get(div_param) is not None else None
    st = prog.parent(gcall)
    bname = canon(st.targets[0]) if isinstance(st, ast.Assign) else None
    prod = None
    for t, v, s, k in iter_stores(poll.node):
        if v is not None and bname and bname in {n.id for n in ast.walk(v) if isinstance(n, ast.Name)} and isinstance(v, ast.BinOp) and isinstance(v.op, ast.Mult):
            factors = []

            def flat(e):
                if isinstance(e, ast.BinOp) and isinstance(e.op, ast.Mult):
                    flat(e.left)
                    flat(e.right)
                else:
                    factors.append(canon(e))

            flat(v)
            prod = (canon(t), sorted(factors), s)
    if prod is None:
        ctx.missing(poll, "product of the direction matrix with the mesh size")
    else:
        vname, factors, s = prod
        want = sorted([bname, "OS[mesh_size]"] + ([scale] if scale else []))
        alt = sorted([bname, "self.mesh_size"] + ([scale] if scale else []))
        ctx.check(factors in (want, alt), poll, s, f"displacement = {' * '.join(factors)}", f"the poll displacement is {' * '.join(factors)}; expected direction matrix * mesh size * the very scale divided out by the generator ({scale})", construct=f"displacement factors {factors}")
        adds = [(t, v, s2) for t, v, s2, k in iter_stores(poll.node) if isinstance(v, ast.BinOp) and isinstance(v.op, ast.Add) and {canon(v.left), canon(v.right)} == {"self.u", vname}]
        ctx.check(bool(adds), poll, s, "candidates = incumbent + displacement", "poll candidates are not the incumbent plus the displacement", construct="poll candidates not incumbent + displacement")

    # ------------------------------------------------------------------ R5
    ctx.rule("R5", "poll candidates are only ever snapped to the search grid the incumbent lies on", floor=0)
    for c, tg in prog.calls_in(poll):
        if any(isinstance(t, FunctionInfo) and t.name == "force_to_grid" for t in tg) and len(c.args) >= 2:
            okg = canon(c.args[1]) in ("OS[search_mesh_size]", "self.search_mesh_size")
            ctx.check(okg, poll, c, "poll candidates snapped to the search mesh", f"poll candidates are snapped to a grid of size '{canon(c.args[1])}', not the search mesh: evaluated points are displaced by up to half of that cell from incumbent + mesh_size * direction",
                      construct=f"poll candidates forced to grid {canon(c.args[1])}")

    # ------------------------------------------------------------------ R7
    ctx.rule("R7", "out-of-box poll candidates are dropped, never projected: the filter's projection branch is selected by the flag the poll step passes as False", floor=1)
    _poll_filter_drops(ctx, prog, R, poll)

    # ------------------------------------------------------------------ R4
    ctx.rule("R4", "polled row deleted and counter advanced on every evaluating path; loop bounded by 2*D; basis generated once", floor=4)
    cfg = cfg_of(poll)
    lcs = R.logger_calls(poll)
    loop = None
    for c in lcs:
        for p in prog.ancestors(c):
            if isinstance(p, ast.While):
                loop = (p, c)
                break
    if loop is None:
        ctx.missing(poll, "poll loop with an evaluation")
        return
    lp, call = loop
    hdr = cfg.head_of(lp)
    cn = cfg.node_of(call)
    arg = call.args[0]
    adefs = reaching_assignments(prog, poll, arg.id, call) if isinstance(arg, ast.Name) else [arg]
    for _hop in range(4):  # follow plain copies of the chosen row
        if len(adefs) == 1 and isinstance(adefs[0], ast.Name):
            adefs = reaching_assignments(prog, poll, adefs[0].id, call)
    rows = idx = None
    for d in adefs:
        if isinstance(d, ast.Subscript) and isinstance(d.value, ast.Name):
            rows, idx = d.value.id, canon(d.slice)
    if rows is None:
        ctx.fail(poll, call, "the polled point is not a row rows[i] of the candidate set", construct=f"polled point {canon(adefs[0]) if adefs else '?'}")
        return
    dels = [s for t, v, s, k in iter_stores(lp) if isinstance(t, ast.Name) and t.id == rows and call_name(v) == "np.delete" and v.args and canon(v.args[0]) == rows and len(v.args) > 1 and canon(v.args[1]) == idx]
    if not dels:
        ctx.fail(poll, call, f"the evaluated row {rows}[{idx}] is not removed from the candidate set: a direction can be tried twice", construct="<missing delete of polled row>")
    else:
        dn = cfg.node_of(dels[0])
        ax = kw(dels[0].value, "axis") if isinstance(dels[0], ast.Assign) else None
        back = hdr.id in cfg.reachable(cn.id, avoiding={dn.id}) and dn.id != cn.id
        ctx.check(not back and ax is not None and const_num(ax) == 0, poll, dels[0], f"{rows} = delete({rows}, {idx}, axis=0) on every path back to the loop header", "an evaluated direction can survive in the candidate set (delete bypassed or not along axis 0)", construct="delete of polled row bypass")
    # counter
    cnt = None
    from .common import deref_expr as _dx14

    for c, pol in conjuncts(lp.test, True):
        nf = int_le_form(_dx14(prog, poll, c), neg=not pol)  # the bound 2*D kept in a local
        if nf and nf[0] == "<=":
            form, const = dict(nf[1][0]), nf[1][1]
            if "self.D" in form and len(form) == 2:
                other = [k for k in form if k != "self.D"][0]
                if form[other] == 1 and form["self.D"] == -2 and const == 1:
                    cnt = other
                elif form[other] == 1:
                    ctx.fail(poll, lp, f"the poll loop bound is '{canon(c)}', not count < 2*D", construct=f"poll bound {canon(c)}")
                    cnt = other
    if cnt is None:
        ctx.fail(poll, lp, "the poll loop has no conjunct count < 2*D", construct="<missing 2*D bound>")
    else:
        incs = [s for t, v, s, k in iter_stores(lp) if isinstance(t, ast.Name) and t.id == cnt and k == "aug" and isinstance(s.op, ast.Add) and const_num(v) == 1]
        if len(incs) != 1:
            ctx.fail(poll, lp, f"the poll counter {cnt} has {len(incs)} increments in the loop (expected one)", construct=f"{cnt} increments {len(incs)}")
        else:
            inn = cfg.node_of(incs[0])
            back = hdr.id in cfg.reachable(cn.id, avoiding={inn.id})
            ctx.check(not back, poll, incs[0], f"{cnt} += 1 on every path from the evaluation back to the header; loop bound {cnt} < 2*D", "an evaluation can return to the loop header without advancing the poll counter: more than 2*D points can be polled", construct="poll counter bypass")
        inits = [s for t, v, s, k in iter_stores(poll.node) if isinstance(t, ast.Name) and t.id == cnt and k == "assign" and s not in list(ast.walk(lp))]
        ctx.check(len(inits) == 1 and const_num(inits[0].value) == 0, poll, inits[0] if inits else lp, f"{cnt} starts at 0", f"the poll counter {cnt} does not start at 0", construct=f"{cnt} initialisation")
    # basis generated only while None/empty
    from ..terms import guard_of

    g = [canon(t, neg=not p) for t, p in guard_of(prog, poll, gcall)]
    bvar = None
    for t, v, s, k in iter_stores(lp):
        if isinstance(t, ast.Name) and v is not None and bname and canon(v) in (f"{bname}.copy()", bname):
            bvar = t.id
    okb = False
    if bvar is not None:
        from ..terms import disjuncts

        for t, pol in guard_of(prog, poll, gcall):
            ds = {canon(c, neg=not p_) for c, p_ in disjuncts(t, pol)}
            allowed = {f"({bvar} is None)", f"(0 == {bvar}.size)", f"(0 == len({bvar}))", f"({bvar}.size < 1)", f"(len({bvar}) < 1)"}
            if f"({bvar} is None)" in ds and ds <= allowed:
                okb = True
    ctx.check(okb, poll, gcall, f"basis generated only while {bvar} is None or empty, then kept", "the direction basis can be regenerated in the middle of a poll: directions need not form one positive spanning set", construct=f"basis generation guard {g[-1:] }")
    from . import meshflow

    meshflow.report(ctx, "R6", lambda fn, slot, R: fn is R.poll_step)
    ctx.assume("numpy.random.randint(lo, hi) draws integers in [lo, hi-1]; permutation/transposition/row scaling preserve rank")
    ctx.assume("a strictly triangular matrix plus a diagonal with non-zero entries is non-singular (determinant = product of the diagonal)")
