"""C11 -- the variable transform is a faithful, order-preserving bijection onto
the unit box (algebraic + structural clauses; not the 1e-9 accuracy)."""
from __future__ import annotations

import ast
from typing import Dict, Optional

import sympy as sp

from ..cfg import cfg_of
from ..model import AnalysisError, bind_args
from ..quant import Normaliser, show, top_disjuncts
from ..roles import roles_of
from ..symb import Translator, Untranslatable, is_zero
from ..terms import call_name, canon, cmp_normal, conjuncts, const_num, guard_canon, norm_stmt
from .c01 import clamp_summary
from .c08 import _dtype_rule
from .common import deref_canon as _dc11, iter_stores, reaching_assignments, self_attr_of, pos

EXPLANATION = (
    "R1 both directions end in a two-sided clamp: __call__ to the internal box (self.lb, self.ub), inverse_transf to the original box "
    "(must-tag dataflow over every return). R6 the internal boxes are g(pristine original bounds) (provenance of the returned tuple elements). R5 the masking helper is 'copy, then 0 on ~mask' or np.where(mask, v, 0), never v * mask (inf * 0 = NaN). R2 algebra on the lambdas defining g / ginv (translated to sympy terms; maskindex(v, m) is v on the "
    "coordinates selected by m): z(x) = (x - mu)/gamma on ~log, zlog(x) = (log(|x| + [x = 0]) - mu)/gamma on log, with complementary masks "
    "shared by g and ginv; ginv(g(x)) = x on the linear branch and, for x > 0, on the log branch; mu, gamma = midpoint, half-width of the "
    "(internal) plausible bounds so that g(plb) = -1, g(pub) = +1 and the slope 1/gamma resp. 1/(gamma x) is positive under the dominating "
    "order check plb < pub; the branch guards are 'no log coordinate', 'all log', 'mixed'. R3 log rule: a coordinate flag is the conjunction "
    "of 'all four bounds > 0' and pub/plb >= 10, evaluated only for undetermined (NaN) flags, and the optimiser passes all-zero flags when "
    "nonlinear_scaling is off. R4 integer spellings are cast to float before the in-place log stores (shared with C08-R3). The round-trip "
    "accuracy 1e-9 and behaviour 'slightly outside' the box as numbers are not decided."
    " R6 the internal boxes are g(<pristine copy of the bound>), never g of a probe copy with the infinities replaced."
)


def _add_nested_defs_as_lambdas(create, lambdas):
    """Nested ``def f(x): <local = expr>*; return e`` is the lambda ``f = lambda x: e[locals substituted]``; a call of a
    local function / lambda that does not itself mask (no maskindex in its body, single definition) is beta-reduced
    inside the others, so that the pieces the algebra looks at are spelled out: z, zlog, g, ginv."""
    import copy as _copy

    class Sub(ast.NodeTransformer):
        def __init__(self, env):
            self.env = env

        def visit_Name(self, node):
            if node.id in self.env and isinstance(node.ctx, ast.Load):
                return _copy.deepcopy(self.env[node.id])
            return node

    for n in ast.walk(create.node):
        if isinstance(n, ast.FunctionDef) and n is not create.node:
            env, ret, ok = {}, None, True
            for st in n.body:
                if isinstance(st, ast.Expr) and isinstance(st.value, ast.Constant):
                    continue
                if isinstance(st, ast.Assign) and len(st.targets) == 1 and isinstance(st.targets[0], ast.Name):
                    env[st.targets[0].id] = Sub(dict(env)).visit(_copy.deepcopy(st.value))
                elif isinstance(st, ast.Return) and st.value is not None and ret is None:
                    ret = Sub(dict(env)).visit(_copy.deepcopy(st.value))
                else:
                    ok = False
            if ok and ret is not None:
                lam = ast.Lambda(args=n.args, body=ret)
                ast.copy_location(lam, n)
                ast.fix_missing_locations(lam)
                lambdas.setdefault(n.name, []).append((lam, n))
    # ``ginv = unstandardize``: a name bound to a local function is that function
    for t, v, st, k in iter_stores(create.node):
        if isinstance(t, ast.Name) and isinstance(v, ast.Name) and v.id in lambdas and len(lambdas[v.id]) == 1 and t.id != v.id:
            lam0 = lambdas[v.id][0][0]
            lambdas.setdefault(t.id, []).append((_copy.deepcopy(lam0), st))

    # beta-reduce the non-masking helpers
    def masks(lam):
        return any(isinstance(x, ast.Call) and canon(x.func) == "maskindex" for x in ast.walk(lam.body))

    helpers = {nm: v[0][0] for nm, v in lambdas.items() if len(v) == 1 and not masks(v[0][0]) and not any(isinstance(x, ast.Call) and isinstance(x.func, ast.Name) and x.func.id in lambdas for x in ast.walk(v[0][0].body))}

    class Beta(ast.NodeTransformer):
        def visit_Call(self, node):
            self.generic_visit(node)
            if isinstance(node.func, ast.Name) and node.func.id in helpers and not node.keywords:
                h = helpers[node.func.id]
                ps = [a.arg for a in h.args.args]
                if len(ps) == len(node.args):
                    return Sub(dict(zip(ps, node.args))).visit(_copy.deepcopy(h.body))
            return node

    if helpers:
        for nm, lst in lambdas.items():
            if nm in helpers:
                continue
            for i, (lam, st) in enumerate(lst):
                lam.body = Beta().visit(lam.body)
                ast.fix_missing_locations(lam)


def _box_images(ctx, prog, T):
    """self.lb / self.ub / self.plb / self.pub are unpacked from the construction routine; each returned element must be
    ``g(self.<A>)`` with <A> an attribute that still holds the caller's bound of the same kind untouched (assigned in the
    constructor from that parameter, never stored into in place).  A probe copy with the infinities replaced (the
    round-trip self-test uses one) would turn the clamp box of an unbounded variable into a finite one."""
    from ..flow import TagFlow
    from .c01 import BoundProv
    from .common import deref_expr

    init = T.find_method("__init__")
    create = None
    for m in T.methods.values():
        if any(isinstance(n, ast.Lambda) for n in ast.walk(m.node)) and any(isinstance(n, ast.Return) and isinstance(n.value, ast.Tuple) and len(n.value.elts) >= 6 for n in ast.walk(m.node)):
            create = m
    if init is None or create is None:
        ctx.undecided("construction routine not found")
        return
    unpack = None
    for n in ast.walk(init.node):
        if isinstance(n, ast.Assign) and isinstance(n.targets[0], ast.Tuple) and isinstance(n.value, ast.Call) and any(x is create for x in prog.resolve_call(init, n.value)):
            unpack = n
    if unpack is None:
        ctx.undecided("the constructor does not unpack the construction routine's result")
        return
    # working attribute <-> pristine copy: self.A = n ; self.B = n.copy() for the same local n
    work, prist = {}, {}
    for t, v, s_, k in iter_stores(init.node):
        a_ = self_attr_of(t)
        if a_ is None or not isinstance(t, ast.Attribute) or v is None:
            continue
        if isinstance(v, ast.Name):
            work[a_] = v.id
        elif isinstance(v, ast.Call) and isinstance(v.func, ast.Attribute) and v.func.attr == "copy" and isinstance(v.func.value, ast.Name) or (isinstance(v, ast.Call) and call_name(v) in ("np.copy", "copy.deepcopy", "deepcopy") and v.args and isinstance(v.args[0], ast.Name)):
            src_local = v.func.value.id if isinstance(v.func, ast.Attribute) and v.func.attr == "copy" else v.args[0].id
            prist[a_] = src_local
    inplace = set()
    for m in T.methods.values():
        for t, v, s_, k in iter_stores(m.node):
            if isinstance(t, ast.Subscript) and self_attr_of(t):
                inplace.add(self_attr_of(t))
            if k == "aug" and self_attr_of(t):
                inplace.add(self_attr_of(t))
    ret = [n for n in ast.walk(create.node) if isinstance(n, ast.Return) and isinstance(n.value, ast.Tuple)][-1]
    gsrc = None
    n_inst = 0
    for i, t in enumerate(unpack.targets[0].elts):
        if self_attr_of(t) == "g" and i < len(ret.value.elts):
            gsrc = canon(ret.value.elts[i])
    for i, t in enumerate(unpack.targets[0].elts):
        a = self_attr_of(t)
        if a is None or i >= len(ret.value.elts) or a not in work:
            continue  # not one of the bound attributes (g, ginv, ...)
        partners = sorted(b_ for b_, loc in prist.items() if loc == work[a])
        e = deref_expr(prog, create, ret.value.elts[i])
        okb, why = False, f"'{canon(e)[:60]}' is not {gsrc}(<pristine copy of the bound>)"
        if isinstance(e, ast.Call) and canon(e.func) == gsrc and len(e.args) == 1 and isinstance(e.args[0], ast.Attribute) and self_attr_of(e.args[0]):
            src = self_attr_of(e.args[0])
            if src not in partners:
                why = f"self.{src} is not the copy of the bound self.{a} starts from (that is {['self.' + x for x in partners]})"
            elif src in inplace:
                why = f"self.{src} is modified in place (it is not the pristine original)"
            else:
                okb = True
        n_inst += 1
        ctx.check(okb, create, ret, f"self.{a} = {gsrc}(self.{partners[0] if partners else '?'})", f"the internal box self.{a} is not the image of the original bound: {why}; the clamp of the transform then uses a different box (e.g. a finite probe value instead of an infinite bound)", construct=f"self.{a} <- {canon(e)[:60]}")
    if n_inst == 0:
        ctx.undecided("the constructor no longer binds the working bounds from locals it also keeps pristine copies of")
        ctx.rules["R6"].floor = 0


def _strip_shape(e):
    """mask expression with reshapes removed: (name, inverted)"""
    inv = False
    while True:
        if isinstance(e, ast.UnaryOp) and isinstance(e.op, (ast.Invert, ast.Not)):
            inv, e = not inv, e.operand
        elif isinstance(e, ast.Call) and call_name(e) in ("np.invert", "np.logical_not") and e.args:
            inv, e = not inv, e.args[0]
        elif isinstance(e, ast.Call) and isinstance(e.func, ast.Attribute) and e.func.attr in ("flatten", "ravel", "reshape", "squeeze", "astype", "copy"):
            e = e.func.value
        elif isinstance(e, ast.Call) and call_name(e) in ("np.ravel", "np.squeeze", "np.atleast_1d", "np.atleast_2d", "np.asarray", "np.broadcast_to", "np.reshape") and e.args:
            e = e.args[0]
        else:
            break
    return (e.id if isinstance(e, ast.Name) else None), inv


def _mask_helper_rule(ctx, prog, T):
    """maskindex(v, m) must be v on the coordinates selected by m and exactly 0 elsewhere for EVERY v, including
    non-finite entries (the bounds may be +-inf, and exp() overflows to inf): v * m is NaN there (inf * 0)."""
    helpers = set()
    for fn in prog.functions():
        if fn.cls is T:
            for call, targets in prog.calls_in(fn):
                if canon(call.func) == "maskindex":
                    helpers |= {t for t in targets if hasattr(t, "node")}
    if not helpers:
        ctx.missing(T.find_method("__init__") or next(iter(prog.functions())), "masking helper maskindex called by the transformer")
        return
    for h in sorted(helpers, key=lambda f: f.qualname):
        ps = h.params
        if len(ps) != 2:
            ctx.fail(h, h.node, "the masking helper does not take (vector, mask)", construct="mask helper signature")
            continue
        vec, mask = ps
        rets = [n for n in ast.walk(h.node) if isinstance(n, ast.Return) and n.value is not None]
        copies, zero_stores, other_stores = {}, [], []
        for t, v, st, kind in iter_stores(h.node):
            if isinstance(t, ast.Name) and kind == "assign":
                src = v
                if isinstance(v, ast.Call) and ((isinstance(v.func, ast.Attribute) and v.func.attr == "copy") or call_name(v) in ("np.copy", "np.array")):
                    src = v.func.value if isinstance(v.func, ast.Attribute) and v.func.attr == "copy" else v.args[0]
                    if isinstance(src, ast.Name) and src.id == vec:
                        copies[t.id] = st
                        continue
                other_stores.append(st)
            elif isinstance(t, ast.Subscript) and isinstance(t.value, ast.Name):
                idx = t.slice.elts[-1] if isinstance(t.slice, ast.Tuple) else t.slice
                nm, inv = _strip_shape(idx)
                if kind == "assign" and const_num(v) == 0 and nm == mask and inv and t.value.id in copies:
                    zero_stores.append(st)
                else:
                    other_stores.append(st)
            else:
                other_stores.append(st)
        for r in rets:
            v = r.value
            mult = [n for n in ast.walk(v) if (isinstance(n, ast.BinOp) and isinstance(n.op, ast.Mult)) or (isinstance(n, ast.Call) and call_name(n) == "np.multiply")]
            if mult:
                ctx.fail(h, r, "the masking helper multiplies the vector by the mask: inf * 0 is NaN, so a non-finite entry on a de-selected coordinate poisons the sum of the masked pieces", construct="mask by multiplication")
            elif isinstance(v, ast.Name) and v.id in copies and len(zero_stores) == 1 and not other_stores:
                ctx.ok(h, r, "copy of the vector with 0 stored on the complement of the mask")
            elif isinstance(v, ast.Call) and call_name(v) == "np.where" and len(v.args) == 3:
                nm, inv = _strip_shape(v.args[0])
                a, b = (v.args[2], v.args[1]) if inv else (v.args[1], v.args[2])
                ok = nm == mask and isinstance(a, ast.Name) and a.id == vec and const_num(b) == 0 and not other_stores
                ctx.check(ok, h, r, "np.where(mask, vector, 0)", "np.where does not select the vector on the mask and 0 elsewhere", construct="mask by np.where")
            else:
                ctx.fail(h, r, f"the masking helper returns '{canon(v)[:60]}', which is neither 'copy with 0 stored on ~mask' nor np.where(mask, vector, 0)", construct="mask helper form")
        if not rets:
            ctx.fail(h, h.node, "the masking helper returns nothing", construct="mask helper form")


def check(ctx):
    prog = ctx.prog
    R = roles_of(prog)
    T = R.transformer

    # ------------------------------------------------------------------ R1
    ctx.rule("R1", "outputs of either direction pass a two-sided clamp to the respective box", floor=2)
    clamp_summary(ctx, prog, R.direct, "self.lb", "self.ub", "direct transform")
    clamp_summary(ctx, prog, R.inverse, "self.orig_lb", "self.orig_ub", "inverse transform")
    # no in-place write through a local alias of the stored bounds (they are the clamp limits)
    from .c20 import alias_violations

    for m in T.methods.values():
        seeds = {f"self.{a_}": frozenset({f"A:self.{a_}"}) for a_ in ("orig_lb", "orig_ub", "orig_plb", "orig_pub")}
        viol, _fl = alias_violations(prog, m, seeds)
        for node, al, what, tgt in viol:
            if tgt.startswith("self.orig_"):
                continue
            ctx.fail(m, node, f"{what} on '{tgt}', which may alias the stored original bounds {al}: the clamp limits / round-trip reference of the transform are modified", construct=f"in-place {what} on alias of {al[0][2:]}")
    # the direction functions apply g / ginv first
    for fn, attr in ((R.direct, "g"), (R.inverse, "ginv")):
        calls = [n for n in ast.walk(fn.node) if isinstance(n, ast.Call) and canon(n.func) == f"self.{attr}"]
        p0 = [p for p in fn.params if p != "self"][0]
        ctx.check(bool(calls) and canon(calls[0].args[0]) == p0, fn, fn.node, f"{fn.short} applies self.{attr} to its input", f"{fn.short} does not map its input through self.{attr}", construct=f"{fn.short} without self.{attr}")

    # ------------------------------------------------------------------ R2
    ctx.rule("R2", "g and ginv are mutually inverse increasing maps with g(plb) = -1, g(pub) = +1", floor=8, policy="degrade")
    create = None
    for m in T.methods.values():
        if any(isinstance(n, ast.Lambda) or (isinstance(n, ast.FunctionDef) and n is not m.node) for n in ast.walk(m.node)) and any(isinstance(n, ast.Return) and isinstance(n.value, ast.Tuple) and len(n.value.elts) >= 6 for n in ast.walk(m.node)):
            create = m
    if create is None:
        raise AnalysisError("the transformer method defining the g / ginv lambdas was not found")
    lambdas: Dict[str, list] = {}
    for t, v, s, k in iter_stores(create.node):
        if isinstance(t, ast.Name) and isinstance(v, ast.Lambda):
            lambdas.setdefault(t.id, []).append((v, s))
    _add_nested_defs_as_lambdas(create, lambdas)
    # which names are returned as g / ginv: follow the tuple unpack in __init__
    init = T.find_method("__init__")
    gname = ginvname = None
    for t, v, s, k in iter_stores(init.node):
        if isinstance(v, ast.Call) and any(x is create for x in prog.resolve_call(init, v)) and k.startswith("assign["):
            idx = int(k[7:-1])
            ret = [n for n in ast.walk(create.node) if isinstance(n, ast.Return) and isinstance(n.value, ast.Tuple)][-1]
            src = ret.value.elts[idx]
            if self_attr_of(t) == "g":
                gname = canon(src)
            if self_attr_of(t) == "ginv":
                ginvname = canon(src)
    if gname is None or ginvname is None or gname not in lambdas or ginvname not in lambdas:
        ctx.fail(create, create.node, "self.g / self.ginv are not bound to the lambdas returned by the construction routine", construct="g/ginv binding")
        return _rest(ctx, prog, R, T, create)
    logmask = "self.apply_log_t"

    def mask_of(call) -> Optional[str]:
        if isinstance(call, ast.Call) and canon(call.func) == "maskindex" and len(call.args) == 2:
            m = canon(call.args[1])
            return m
        return None

    try:
        # base pieces
        zs = {}
        for nm in lambdas:
            lam, st = lambdas[nm][0]
            body = lam.body
            if mask_of(body) is not None and len(lambdas[nm]) == 1:
                zs[nm] = (lam, body.args[0], mask_of(body), st)
        lin = [nm for nm, z in zs.items() if z[2] == f"INV({logmask})"]
        lg = [nm for nm, z in zs.items() if z[2] == logmask]
        if len(lin) != 1 or len(lg) != 1:
            ctx.fail(create, create.node, f"the linear and log pieces are not masked with complementary masks ~apply_log_t / apply_log_t (masks: {[(n, z[2]) for n, z in zs.items()]})", construct="piece masks")
            return _rest(ctx, prog, R, T, create)
        ctx.ok(create, zs[lin[0]][3], f"{lin[0]} masked with ~log, {lg[0]} masked with log (complementary)")
        x = sp.Symbol("x", positive=True)
        y = sp.Symbol("y", real=True)
        mu, gamma = sp.Symbol("mu", real=True), sp.Symbol("gamma", positive=True)

        def tr_lambda(lam, expr, arg_sym):
            tr = Translator(env={lam.args.args[0].arg: arg_sym, "mu": mu, "gamma": gamma})
            return tr, tr.tr(expr)

        # linear piece
        _, zl = tr_lambda(zs[lin[0]][0], zs[lin[0]][1], x)
        ctx.check(is_zero(zl - (x - mu) / gamma), create, zs[lin[0]][3], "linear piece = (x - mu)/gamma", "the affine piece of the transform is not (x - mu)/gamma", construct=f"linear piece {canon(zs[lin[0]][1])[:60]}")
        # log piece: log(|x| + (x == 0)) with x > 0 -> log(x)
        lam_l, body_l = zs[lg[0]][0], zs[lg[0]][1]
        body_src = canon(body_l)
        an = lam_l.args.args[0].arg
        guard_ok = any(isinstance(n, ast.Call) and call_name(n) == "np.log" for n in ast.walk(body_l))
        # translate with |x| + [x==0] := x for x > 0
        class _T(Translator):
            def tr(self, e):
                if isinstance(e, ast.Compare):
                    return sp.Integer(0)  # (x == 0) for x > 0
                return super().tr(e)

        trl = _T(env={an: x, "mu": mu, "gamma": gamma})
        zg = trl.tr(body_l)
        ctx.check(guard_ok and is_zero(sp.simplify(zg - (sp.log(x) - mu) / gamma)), create, zs[lg[0]][3], "log piece = (log x - mu)/gamma for x > 0", "the log piece of the transform is not (log(x) - mu)/gamma", construct=f"log piece {body_src[:70]}")
        # mu, gamma definitions
        defs = {}
        for t, v, s, k in iter_stores(create.node):
            if isinstance(t, ast.Name) and t.id in ("mu", "gamma"):
                defs[t.id] = (v, s)
        plb, pub = sp.Symbol("plb", real=True), sp.Symbol("pub", real=True)
        if "mu" in defs and "gamma" in defs:
            trd = Translator(env={"self.plb": plb, "self.pub": pub})
            mu_e, ga_e = trd.tr(defs["mu"][0]), trd.tr(defs["gamma"][0])
            ctx.check(is_zero(mu_e - (plb + pub) / 2) and is_zero(ga_e - (pub - plb) / 2), create, defs["mu"][1], "mu = midpoint, gamma = half-width of the plausible box",
                      "mu / gamma are not the midpoint / half-width of the internal plausible bounds: g(plb) = -1, g(pub) = +1 fails", construct=f"mu={canon(defs['mu'][0])[:30]} gamma={canon(defs['gamma'][0])[:30]}")
            g_at = lambda v_: (v_ - mu_e) / ga_e
            ctx.check(is_zero(g_at(plb) + 1) and is_zero(g_at(pub) - 1), create, defs["gamma"][1], "g(plb) = -1 and g(pub) = +1 (term identity)", "plausible bounds do not map to -1 / +1", construct="g(plb), g(pub)")
        else:
            ctx.fail(create, create.node, "mu / gamma are not defined in the construction routine", construct="<missing mu/gamma>")
        # positivity of the slope: dominated by the order check plb < pub
        cfg = cfg_of(create)
        ords = []
        for node in ast.walk(create.node):
            if isinstance(node, ast.If) and node.body and isinstance(node.body[-1], ast.Raise):
                f = Normaliser(None, lambda s_: s_.replace("self.", "")).quant(node.test, True)
                if "ANY[pub <= plb]" in {show(d) for d in top_disjuncts(f)}:
                    ords.append(node)
        if ords and "gamma" in defs:
            ctx.check(cfg.dominates(cfg.head_of(ords[0]).id, cfg.node_of(defs["gamma"][1]).id), create, ords[0], "plb < pub is enforced before gamma is computed (gamma > 0: increasing map)", "gamma can be computed without the order check plb < pub: the map may be decreasing or constant", construct="order check does not dominate gamma")
        else:
            ctx.fail(create, create.node, "no raising check plb < pub precedes the slope definition", construct="<missing order check before gamma>")
        # the log stores on the four bounds precede mu/gamma and use the log mask
        logged = set()
        for t, v, s, k in iter_stores(create.node):
            if isinstance(t, ast.Subscript) and self_attr_of(t) in ("lb", "ub", "plb", "pub") and _dc11(prog, create, t.slice) == logmask and call_name(v) == "np.log" and v.args and isinstance(v.args[0], ast.Subscript) \
                    and canon(v.args[0].value) == canon(t.value) and _dc11(prog, create, v.args[0].slice) == logmask:
                if "mu" in defs and pos(s) < pos(defs["mu"][1]):
                    logged.add(self_attr_of(t))
        ctx.check(logged == {"lb", "ub", "plb", "pub"}, create, create.node, "all four bounds are log-transformed on the log mask before mu/gamma", f"only {sorted(logged)} of the four bounds are log-transformed on the log coordinates before mu/gamma are computed", construct=f"log-transformed bounds {sorted(logged)}")
        # the three branches of g / ginv
        branches = []
        for lam, st in lambdas[ginvname]:
            g = guard_canon(prog, create, st)
            branches.append((lam, st, g))
        kinds = {}
        for lam, st, g in branches:
            an = lam.args.args[0].arg
            tr = _T(env={an: y, "mu": mu, "gamma": gamma})
            body = lam.body
            glam = [l for l, s2 in lambdas[gname] if guard_canon(prog, create, s2) == g]
            gbody = canon(glam[0].body) if glam else "?"
            if mask_of(body) is None and not (isinstance(body, ast.BinOp) and isinstance(body.op, ast.Add) and mask_of(body.left) is not None):
                e = tr.tr(body)
                if is_zero(e - (gamma * y + mu)):
                    kinds["linear"] = (st, g, gbody)
                    inv = (gamma * zl.subs(x, x) + mu)
                    ctx.check(is_zero(sp.simplify(gamma * ((x - mu) / gamma) + mu - x)) and gbody == f"{lin[0]}(x)".replace("x", glam[0].args.args[0].arg) if glam else False, create, st, "all-linear branch: ginv(g(x)) = x", "on the all-linear branch ginv is not the inverse of g", construct="linear branch inverse")
                else:
                    e2 = e
                    # min(FMAX, exp(.)) -> exp(.)
                    e2 = e2.replace(lambda q: isinstance(q, sp.Min), lambda q: [a for a in q.args if a.has(y)][0])
                    okl = is_zero(sp.simplify(e2 - sp.exp(gamma * y + mu)))
                    kinds["log"] = (st, g, gbody)
                    ctx.check(okl and (gbody == f"{lg[0]}({glam[0].args.args[0].arg})" if glam else False), create, st, "all-log branch: ginv(y) = exp(gamma y + mu), ginv(g(x)) = x for x > 0", "on the all-log branch ginv is not exp(gamma*y + mu) paired with the log piece", construct="log branch inverse")
            else:
                # mixed: maskindex(lin, ~m) + maskindex(exp, m)
                parts = [body.left, body.right] if isinstance(body, ast.BinOp) else [body]
                okm = len(parts) == 2
                seen = set()
                for p_ in parts:
                    m_ = mask_of(p_)
                    e = tr.tr(p_.args[0]) if m_ is not None else None
                    if e is None:
                        okm = False
                        continue
                    e = e.replace(lambda q: isinstance(q, sp.Min), lambda q: [a for a in q.args if a.has(y)][0])
                    if m_ == f"INV({logmask})" and is_zero(e - (gamma * y + mu)):
                        seen.add("lin")
                    elif m_ == logmask and is_zero(sp.simplify(e - sp.exp(gamma * y + mu))):
                        seen.add("log")
                    else:
                        okm = False
                kinds["mixed"] = (st, g, gbody)
                an_g = glam[0].args.args[0].arg if glam else "x"
                okg = gbody in (f"({lin[0]}({an_g}) + {lg[0]}({an_g}))", f"({lg[0]}({an_g}) + {lin[0]}({an_g}))")
                ctx.check(okm and seen == {"lin", "log"} and okg, create, st, "mixed branch: affine inverse on ~log, exp inverse on log, g = z + zlog", "on the mixed branch the inverse pieces are not paired with the masks of the forward pieces", construct="mixed branch pairing")
        if set(kinds) != {"linear", "log", "mixed"}:
            ctx.fail(create, create.node, f"the g/ginv definitions do not cover the three cases no-log / all-log / mixed (found {sorted(kinds)})", construct=f"branches {sorted(kinds)}")
        else:
            # branch guards
            gl = kinds["linear"][1]
            gg = kinds["log"][1]
            zero_forms = ("(0 == apply_log_t_sum)", "(0 == np.sum(self.apply_log_t))", "(0 == self.apply_log_t.sum())")
            all_forms = ("(apply_log_t_sum == self.D)", "(np.sum(self.apply_log_t) == self.D)", "(self.D == np.sum(self.apply_log_t))", "(self.D == apply_log_t_sum)")
            ctx.check(any(z_ in x_ for x_ in gl for z_ in zero_forms) and any(a_ in x_ for x_ in gg for a_ in all_forms), create, kinds["linear"][0], "branch guards: sum == 0 -> linear, sum == D -> log, else mixed", f"the branch guards are {gl} / {gg}, not 'no log coordinate' / 'all log coordinates'", construct="branch guards")
    except Untranslatable as e:
        ctx.undecided(f"the transform lambdas use a construct the term translator does not know ({e})")
    except Exception as e:
        ctx.undecided(f"term check failed internally ({e.__class__.__name__}: {e})")
    _rest(ctx, prog, R, T, create)


def _rest(ctx, prog, R, T, create):
    # ------------------------------------------------------------------ R3
    ctx.rule("R3", "log rule: all four bounds > 0 and pub/plb >= 10, only for undetermined flags; zero flags when nonlinear scaling is off", floor=3)
    loops = [n for n in ast.walk(create.node) if isinstance(n, ast.For)]
    found = False
    for lp in loops:
        itd = lp.iter
        if isinstance(itd, ast.Name):
            d = reaching_assignments(prog, create, itd.id, lp)
            itd = d[0] if len(d) == 1 else itd
        if not ("np.isnan(" in canon(itd) and "apply_log_t" in canon(itd)):
            continue
        found = True
        ctx.ok(create, lp, "flag computed only for NaN (undetermined) entries")
        # the flag as a function of P = 'all four bounds > 0' and Q = 'pub / plb >= 10', over every store of the loop body
        # with its path condition (guard clauses with ``continue`` included): exactly one store runs, and it stores P and Q
        from .common import deref_expr as _dxx
        from ..terms import guard_of as _gof

        class _No(Exception):
            pass

        def atom(e, P, Q):
            e = _dxx(prog, create, e)
            if isinstance(e, ast.Constant) and isinstance(e.value, bool):
                return e.value
            if isinstance(e, ast.UnaryOp) and isinstance(e.op, ast.Not):
                return not atom(e.operand, P, Q)
            if isinstance(e, ast.BoolOp):
                vals = [atom(x, P, Q) for x in e.values]
                return all(vals) if isinstance(e.op, ast.And) else any(vals)
            if isinstance(e, ast.Call) and isinstance(e.func, ast.Attribute) and e.func.attr == "item" and not e.args:
                return atom(e.func.value, P, Q)
            if isinstance(e, ast.Call) and call_name(e) in ("bool",) and len(e.args) == 1:
                return atom(e.args[0], P, Q)
            cc = canon(e)
            names = {self_attr_of(n) for n in ast.walk(e) if isinstance(n, ast.Attribute) and self_attr_of(n)}
            cmpn = [n for n in ast.walk(e) if isinstance(n, ast.Compare)]
            if isinstance(e, ast.Call) and call_name(e) in ("np.all", "np.any") and "np.concatenate(" in cc and len(cmpn) == 1 and {"lb", "ub", "plb", "pub"} <= names:
                nf = cmp_normal(cmpn[0])
                zero_right = const_num(cmpn[0].comparators[0]) == 0
                op = type(cmpn[0].ops[0])
                if call_name(e) == "np.all" and zero_right and op is ast.Gt:
                    return P
                if call_name(e) == "np.any" and zero_right and op is ast.LtE:
                    return not P  # (bounds are finite numbers here: NaN bounds were rejected by the order check above)
                raise _No(f"positivity test {cc[:60]}")
            if len(cmpn) == 1 and isinstance(e, ast.Compare):
                l, r, op = canon(e.left), e.comparators[0], type(e.ops[0])
                if l.startswith("(self.pub[") and "/ self.plb[" in l and const_num(r) == 10:
                    if op is ast.GtE:
                        return Q
                    if op is ast.Lt:
                        return not Q
                    raise _No(f"decade test {cc[:60]} (expected pub / plb >= 10)")
            raise _No(f"unrecognised condition {cc[:60]}")

        stores_ = [(t, v, s) for t, v, s, k in iter_stores(lp) if isinstance(t, ast.Subscript) and self_attr_of(t) == "apply_log_t"]
        try:
            wrong = None
            for P in (True, False):
                for Q in (True, False):
                    ran = []
                    for t, v, s in stores_:
                        cond = all(atom(g_, P, Q) == pol_ for g_, pol_ in _gof(prog, create, s) if any(x is lp for x in prog.ancestors(g_)))
                        if cond:
                            ran.append(atom(v, P, Q))
                    if len(ran) != 1 or ran[0] != (P and Q):
                        wrong = (P, Q, ran)
            s0 = stores_[0][2] if stores_ else lp
            ctx.check(wrong is None and bool(stores_), create, s0, "log flag = (all four bounds > 0) and (pub / plb >= 10), as a truth table over the two conditions",
                      f"the log flag is not 'all four bounds strictly positive and plausible range at least one decade': with positivity={wrong[0] if wrong else '?'} and decade={wrong[1] if wrong else '?'} the loop stores {wrong[2] if wrong else '?'}",
                      construct="log rule truth table")
        except _No as e_:
            s0 = stores_[0][2] if stores_ else lp
            msg_ = str(e_)
            if "positivity" in msg_ or "unrecognised" in msg_:
                ctx.fail(create, s0, f"the log flag does not require all four bounds (lb, ub, plb, pub) to be strictly positive ({msg_})", construct="log rule positivity")
            else:
                ctx.fail(create, s0, f"the log flag does not require the plausible range to span at least one decade (pub/plb >= 10) ({msg_})", construct="log rule decade")
    if not found:
        ctx.fail(create, create.node, "the per-coordinate log flag is not computed in a loop over the undetermined (NaN) entries", construct="<missing log rule loop>")
    ios = R.init_optim_state
    tcall = R.transformer_ctor_call
    tinit = T.find_method("__init__")
    b = bind_args(tinit, tcall)
    fa = b.get("apply_log_t")
    okf = False
    if isinstance(fa, ast.Name):
        for t, v, s, k in iter_stores(ios.node):
            if isinstance(t, ast.Name) and t.id == fa.id and k == "assign":
                g = guard_canon(prog, ios, s)
                if call_name(v) == "np.zeros" and any(x == "not OPT[nonlinear_scaling]" for x in g):
                    okf = True
    ctx.check(okf, ios, tcall, "nonlinear_scaling off -> all-zero flags (affine map everywhere)", "with nonlinear_scaling disabled the transformer does not receive all-zero log flags", construct="flags when nonlinear_scaling is off")

    # ------------------------------------------------------------------ R4
    ctx.rule("R4", "integer-typed bounds are cast to float before the in-place log stores", floor=4)
    _dtype_rule(ctx, prog, R, include_validator=False)
    ctx.assume("exp and log are mutually inverse on positive reals; min(FMAX, .) is the identity below overflow")
    # ------------------------------------------------------------------ R6
    ctx.rule("R6", "the internal boxes the clamps use are g(original bounds): images of the pristine originals, not of finite probe values", floor=4)
    _box_images(ctx, prog, T)

    # ------------------------------------------------------------------ R5
    ctx.rule("R5", "the masking helper selects by assignment (copy, then 0 stored on the complement; or np.where), never by multiplication", floor=1)
    _mask_helper_rule(ctx, prog, T)
