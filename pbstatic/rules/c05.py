"""C05 -- noisy targets: reported estimate is the mean of fresh samples at the
returned x (structure, not the numeric values)."""
from __future__ import annotations

import ast
from typing import List, Optional

import sympy as sp

from ..cfg import cfg_of
from ..model import AnalysisError, FunctionInfo, bind_args
from ..roles import roles_of
from ..symb import Translator, Untranslatable, is_zero
from ..terms import guard_extra, guard_of, call_name, canon, cmp_normal, const_num, guard_canon, norm_stmt, state_key
from .common import deref_canon as _deref_c, iter_stores, reaching_assignments, self_attr_of, pos

EXPLANATION = (
    "R1 final sampling site: the loop bounded by options['noise_final_samples'] calls the logger with the no-record flag at the incumbent slot; "
    "the definition of that slot reaching the loop also reaches x = inverse(slot) (no intervening store), it is a recorded history iterate, and "
    "no call that can reach the target is reachable after the loop. R2 estimator terms: fval = mean(yval_vec), fsd = std(yval_vec)/sqrt(size) "
    "(sympy identity); yval_vec[i] / ysd_vec[i] receive the first / second output of the call of the same iteration; the earlier observation "
    "is appended only under size == 1. R3 slice-offset agreement: an argmin/argmax over a[k:] indexes full-length arrays only after + k on "
    "every path. R4 noise test: the second evaluation is at the same point with the no-record flag and the level is raised iff |y - y'| > "
    "tol_noise. R5 supplement index: a per-row log array describing the returned point must be indexed by a lookup of that point; the "
    "last-filled index qualifies only right after a recording call for that point. R6 the final re-sampling is guarded by the noisy mode and noise_final_samples > 0 only. R7 the observation appended when one final sample is taken belongs to the returned point (store-group coherence). R8 the SD an evaluation returns is the target's own. R9 branches of the optimizer that decide the noise mode read the run-time level OS[uncertainty_handling_level], never the logger's construction-time flag (an auto-detected stochastic target raises only the former). Numeric values and the quantile choice are not decided."
    " R7 also requires a swap of the incumbent to assign all of yval / fval / fsd."
)


def _noise_mode_reads(ctx, prog, R, only_fn=None):
    """A target found to be noisy by the start-up test raises OS[uncertainty_handling_level] at run time; the logger's
    ``noise_flag`` (SD column present) is fixed when the logger is built.  A branch of a BADS method that decides the noise
    mode from the frozen flag treats an auto-detected stochastic target as deterministic."""
    frozen = set()
    init = R.logger_cls.find_method("__init__")
    for t, v, s, k in iter_stores(init.node):
        if isinstance(t, ast.Attribute) and isinstance(t.value, ast.Name) and t.value.id == "self" and isinstance(v, ast.Name) and "noise" in v.id:
            frozen.add(t.attr)
    def callees(stmts):
        out = set()
        for st in stmts:
            for c in ast.walk(st):
                if isinstance(c, ast.Call):
                    nm = canon(c.func).split(".")[-1]
                    if any(hasattr(t, "node") for t in prog.resolve_call(cur_fn[0], c)) or nm in ("predict", "update", "fit"):
                        out.add(nm)
        return out

    cur_fn = [None]
    level_guarded, frozen_tests = set(), []
    for fn in prog.functions():
        if fn.cls is not R.bads or fn.name == "__init__" or (only_fn is not None and fn is not only_fn):
            continue
        cur_fn[0] = fn
        for n in ast.walk(fn.node):
            test = n.test if isinstance(n, (ast.If, ast.While)) else None
            if test is None:
                continue
            reads_level = any(canon(x) == "OS[uncertainty_handling_level]" for x in ast.walk(test))
            bad = [x for x in ast.walk(test) if isinstance(x, ast.Attribute) and x.attr in frozen and canon(x.value) in ("LOG", "self." + (R.logger_attr or "function_logger"))]
            if bad:
                frozen_tests.append((fn, n, bad[0], callees(n.body + n.orelse)))
            elif reads_level:
                level_guarded |= callees(n.body + n.orelse)
                ctx.ok(fn, n, "noise mode decided by OS[uncertainty_handling_level]")
    def only_column_or_display(fn, n, b):
        """the flag says whether the SD column exists: a branch that only touches that column (or only logs) is its legitimate use."""
        lg = canon(b.value)
        for st in n.body + n.orelse:
            touches_col = any(isinstance(x, ast.Attribute) and x.attr == "S" and canon(x.value) == lg for x in ast.walk(st))
            display = isinstance(st, ast.Expr) and isinstance(st.value, ast.Call) and isinstance(st.value.func, ast.Attribute) and st.value.func.attr in ("debug", "info", "warning", "error")
            if not (touches_col or display or isinstance(st, ast.Pass)):
                return False
        return True

    for fn, n, b, cs in frozen_tests:
        shared = sorted(cs & level_guarded)
        if only_column_or_display(fn, n, b) and not shared:
            ctx.ok(fn, n, f"'{canon(b)}' guards access to the SD column / a log message only")
        else:
            extra = f" (the same operations - {', '.join(shared[:3])} - are elsewhere guarded by the run-time level)" if shared else ""
            ctx.fail(fn, n, f"the branch reads the logger's construction-time flag '{canon(b)}' to decide the noise mode{extra}: a target detected as noisy at start-up is handled as deterministic here", construct=f"noise mode from {canon(b)}")


def check(ctx):
    prog = ctx.prog
    R = roles_of(prog)
    opt = R.optimize
    cfg = cfg_of(opt)

    # ------------------------------------------------------------------ R1
    ctx.rule("R1", "the final samples are taken, unrecorded, at the very point that is returned; nothing evaluates after them", floor=4)
    floop = None
    for node in ast.walk(opt.node):
        if isinstance(node, ast.For) and call_name(node.iter) == "range" and node.iter.args and _deref_c(prog, opt, node.iter.args[0]) == "OPT[noise_final_samples]":
            floop = node
    if floop is None:
        ctx.fail(opt, opt.node, "no loop over range(options['noise_final_samples']) re-samples the returned point", construct="<missing final sampling loop>")
    else:
        lcs = [c for c in R.logger_calls(opt) if any(p is floop for p in prog.ancestors(c))]
        if len(lcs) != 1:
            ctx.fail(opt, floop, f"the final sampling loop contains {len(lcs)} target evaluations per iteration (expected one)", construct=f"final loop evaluations {len(lcs)}")
        else:
            c = lcs[0]
            arg = c.args[0] if c.args else None
            b = bind_args(R.logger_call, c)
            lp = [p for p in R.logger_call.params if p != "self"]
            flag = b.get(lp[1]) if len(lp) > 1 else None
            ctx.check(arg is not None and canon(arg) == "self.u", opt, c, "final samples at the incumbent slot self.u", f"the final samples are taken at {canon(arg)}, not at the point that is returned", construct=f"final samples at {canon(arg)}")
            ctx.check(isinstance(flag, ast.Constant) and flag.value is False, opt, c, "final samples use the no-record flag", "the final samples are recorded into the training log (they must be fresh, unrecorded observations)", construct="final samples recorded")
            # single definition of self.u reaching both the loop and self.x
            hn = cfg.head_of(floop)
            xs = [s for t, v, s, k in iter_stores(opt.node) if self_attr_of(t) == "x" and isinstance(t, ast.Attribute)]
            ustores = [s for t, v, s, k in iter_stores(opt.node) if self_attr_of(t) == "u" and isinstance(t, ast.Attribute)]
            if not xs:
                ctx.missing(opt, "store of the returned solution self.x")
            else:
                xn = cfg.node_of(xs[0])
                between = [s for s in ustores if cfg.node_of(s).id in cfg.reachable(hn.id) and xn.id in cfg.reachable(cfg.node_of(s).id) and cfg.node_of(s).id != hn.id]
                ctx.check(not between, opt, between[0] if between else xs[0], "no store to self.u between the final samples and x = inverse(self.u)", "the incumbent point is changed between the final samples and the computation of the returned x", construct="self.u modified after final sampling")
                xv = xs[0].value
                ctx.check(isinstance(xv, ast.Call) and xv.args and canon(xv.args[0]) == "self.u", opt, xs[0], "x = inverse(self.u)", "the returned x is not computed from the point that was re-sampled", construct=f"self.x <- {canon(xv)[:50]}")
            # the reaching definition of self.u at the loop is a history iterate (x is an evaluated point)
            g = guard_canon(prog, opt, floop)
            # (CFG order, not line numbers: inlined statements keep their helper's line numbers)
            pre = [s for s in ustores if cfg.node_of(s) is not None and cfg.node_of(s).id != hn.id and cfg.dominates(cfg.node_of(s).id, hn.id)]
            last = None
            for s_ in pre:
                if all(o is s_ or cfg.dominates(cfg.node_of(o).id, cfg.node_of(s_).id) for o in pre):
                    last = s_
            okh = last is not None and state_key(getattr(last.value, "value", None)) == ("HIST", "u") if last is not None and isinstance(last.value, ast.Subscript) else False
            ctx.check(bool(okh), opt, last if last is not None else floop, "the re-sampled point is a recorded history iterate", "the point that is re-sampled and returned is not taken from the recorded iterates (it need not be a point BADS evaluated)", construct="final point source")
            # nothing evaluates after the loop
            after = cfg.reachable(hn.id)
            loop_body = cfg.loops.get(hn.id, set())
            late = []
            for c2, tg in prog.calls_in(opt):
                n2 = cfg.node_of(c2)
                if n2 is None or n2.id not in after or n2.id in loop_body or n2.id == hn.id:
                    continue
                if R.is_logger_call(opt, c2) or any(isinstance(t, FunctionInfo) and R.can_reach_target(t) for t in tg):
                    late.append(c2)
            ctx.check(not late, opt, late[0] if late else floop, "no target-reaching call after the final samples", "the target can be called again after the final samples: they are not the last calls of the run", construct=f"evaluation after final sampling: {canon(late[0].func) if late else ''}")

    # ------------------------------------------------------------------ R7 (shared with C19-R1)
    from .c19 import record_context, tuple_coherence

    it_idx, restore = record_context(prog, R)
    if it_idx is not None:
        tuple_coherence(ctx, prog, R, opt, it_idx, restore, rule_id="R7")
    # ------------------------------------------------------------------ R8
    from ..flow import TagFlow as _TF
    from .c10 import _TargetPolicy

    ctx.rule("R8", "the SD returned by an evaluation is the SD the target reported at that call", floor=1)
    lcall = R.logger_call
    sk = [c for f_, c in R.target_sinks if f_ is lcall]
    if sk:
        tf = _TF(prog, lcall, _TargetPolicy(sk[0]))
        for node in ast.walk(lcall.node):
            if isinstance(node, ast.Return) and isinstance(node.value, ast.Tuple) and len(node.value.elts) >= 2:
                tg = tf.tags(node.value.elts[1])
                if tg is None:
                    continue
                ctx.check("T" in tg, lcall, node, "second output = the target's reported SD (or None)", "the SD handed back by an evaluation is not the SD the target reported at that call (e.g. a stored SD of an earlier observation): ysd_vec does not hold the reported SDs", construct=f"returned SD {canon(node.value.elts[1])} without target provenance")

    # ------------------------------------------------------------------ R9
    ctx.rule("R9", "noise-mode decisions of the optimizer read the run-time noise level, never the logger's construction-time flag", floor=3)
    _noise_mode_reads(ctx, prog, R)

    # ------------------------------------------------------------------ R6
    ctx.rule("R6", "the final re-sampling runs for every noisy run with noise_final_samples > 0", floor=0)
    if floop is not None:
        g = guard_canon(prog, opt, floop)
        allowed = {"(0 < OS[uncertainty_handling_level])", "(1 <= OS[uncertainty_handling_level])", "(0 < OPT[noise_final_samples])", "(1 <= OPT[noise_final_samples])"}
        extra = guard_extra(prog, opt, floop, allowed)
        if not any(x in g for x in ("(0 < OS[uncertainty_handling_level])", "(1 <= OS[uncertainty_handling_level])")):
            ctx.fail(opt, floop, "the final re-sampling is not tied to the noisy mode", construct="final sampling without noisy-mode guard")
        if extra:
            ctx.fail(opt, floop, f"the final re-sampling is additionally guarded by {extra}: noisy runs for which that fails return a GP estimate with no fresh samples at x (yval_vec is None)", construct=f"final sampling additionally guarded by {' & '.join(extra)}")
        else:
            ctx.ok(opt, floop, "final sampling guarded by noisy mode and noise_final_samples > 0 only")

    # ------------------------------------------------------------------ R2
    ctx.rule("R2", "fval = mean(yval_vec), fsd = std(yval_vec)/sqrt(size); vectors filled from the call of the same iteration", floor=4, policy="degrade")
    if floop is not None:
        c = [c for c in R.logger_calls(opt) if any(p is floop for p in prog.ancestors(c))]
        if c:
            st = prog.parent(c[0])
            outs = [canon(e) for e in st.targets[0].elts] if isinstance(st, ast.Assign) and isinstance(st.targets[0], ast.Tuple) else []
            ivar = canon(floop.target)
            vecs = {}
            for t, v, s, k in iter_stores(floop):
                if isinstance(t, ast.Subscript) and isinstance(t.value, ast.Name) and canon(t.slice) == ivar:
                    vecs[t.value.id] = canon(v)
            yv = [n for n, src in vecs.items() if outs and src == outs[0]]
            sv = [n for n, src in vecs.items() if len(outs) > 1 and src == outs[1]]
            ctx.check(bool(yv), opt, floop, f"{yv[0] if yv else '?'}[{ivar}] <- first output of the call", "the vector of final observations is not filled with the value observed in the same iteration", construct=f"final vectors {vecs}")
            ctx.check(bool(sv), opt, floop, f"{sv[0] if sv else '?'}[{ivar}] <- second output (reported SD)", "the vector of reported SDs is not filled with the SD of the same call", construct=f"final sd vector {vecs}")
            if yv:
                yname = yv[0]
                import copy as _copy

                def _aliases(base):
                    # plain copies of the filled vector made after the loop (``yval_vec = samples``)
                    al = {base}
                    grew = True
                    while grew:
                        grew = False
                        for t_, v_, s_, k_ in iter_stores(opt.node):
                            if isinstance(t_, ast.Name) and isinstance(v_, ast.Name) and v_.id in al and t_.id not in al and pos(s_) > pos(floop) and k_ == "assign":
                                al.add(t_.id)
                                grew = True
                    return al

                yal = _aliases(yname)

                class _ToBase(ast.NodeTransformer):
                    def visit_Name(self, node):
                        if node.id in yal and node.id != yname:
                            return ast.copy_location(ast.Name(id=yname, ctx=node.ctx), node)
                        return node

                # stored under yval_vec
                oks = any(state_key(t) == ("OS", "yval_vec") and yal & {n.id for n in ast.walk(v) if isinstance(n, ast.Name)} for t, v, s, k in iter_stores(opt.node))
                ctx.check(oks, opt, floop, "optim_state['yval_vec'] <- the sampled vector", "optim_state['yval_vec'] is not the vector of final samples", construct="yval_vec source")
                if sv:
                    sal = _aliases(sv[0])
                    oks2 = any(state_key(t) == ("OS", "ysd_vec") and sal & {n.id for n in ast.walk(v) if isinstance(n, ast.Name)} for t, v, s, k in iter_stores(opt.node))
                    ctx.check(oks2, opt, floop, "optim_state['ysd_vec'] <- the SD vector", "optim_state['ysd_vec'] is not the vector of reported SDs", construct="ysd_vec source")
                # estimator
                try:
                    tr = Translator(positive=[])
                    V = tr.sym(yname)
                    ests = {}
                    for t, v, s, k in iter_stores(opt.node):
                        a = self_attr_of(t)
                        if a in ("fval", "fsd") and isinstance(t, ast.Attribute) and pos(s) > pos(floop) and yal & {n.id for n in ast.walk(v) if isinstance(n, ast.Name)}:
                            ests[a] = (tr.tr(_ToBase().visit(_copy.deepcopy(v))), s)
                    mean, std, size = sp.Function("mean"), sp.Function("std"), sp.Function("size")
                    if "fval" in ests:
                        ctx.check(is_zero(ests["fval"][0] - mean(V)), opt, ests["fval"][1], "fval = mean(yval_vec)", "the reported fval is not the mean of the final samples", construct="fval estimator")
                    else:
                        ctx.fail(opt, floop, "fval is not recomputed from the final samples", construct="<missing fval estimator>")
                    if "fsd" in ests:
                        e = ests["fsd"][0]
                        # size(v) may be spelled v.size
                        e = e.subs(tr.sym(f"{yname}.size"), size(V))
                        ctx.check(is_zero(e - std(V) / sp.sqrt(size(V))), opt, ests["fsd"][1], "fsd = std(yval_vec)/sqrt(size)", "the reported fsd is not the standard error std/sqrt(n) of the final samples", construct="fsd estimator")
                    else:
                        ctx.fail(opt, floop, "fsd is not recomputed from the final samples", construct="<missing fsd estimator>")
                except Untranslatable as e:
                    ctx.undecided(f"estimator uses a construct the term translator does not know ({e})")
                # supplement only under size == 1
                for t, v, s, k in iter_stores(opt.node):
                    if isinstance(t, ast.Name) and t.id == yname and call_name(v) in ("np.vstack", "np.append", "np.concatenate") and pos(s) > pos(floop):
                        g = guard_canon(prog, opt, s)
                        okg = f"(1 == {yname}.size)" in g
                        if not okg:
                            # the vector was allocated with n entries (np.empty(n)) and the guard tests that n
                            from .common import deref_canon as _dc5

                            allocs = [v_ for t_, v_, s_, k_ in iter_stores(opt.node) if isinstance(t_, ast.Name) and t_.id in yal and isinstance(v_, ast.Call)
                                      and call_name(v_) in ("np.empty", "np.zeros", "np.full") and v_.args]
                            sizes = {_dc5(prog, opt, a_.args[0]) for a_ in allocs}
                            for test_, pol_ in guard_of(prog, opt, s):
                                if pol_ and isinstance(test_, ast.Compare) and len(test_.ops) == 1 and isinstance(test_.ops[0], ast.Eq):
                                    l_, r_ = test_.left, test_.comparators[0]
                                    other = r_ if const_num(l_) == 1 else l_ if const_num(r_) == 1 else None
                                    if other is not None and len(sizes) == 1 and _dc5(prog, opt, other) in sizes:
                                        okg = True
                        def _unwrap(e):
                            while isinstance(e, ast.Call) and call_name(e) in ("np.atleast_2d", "np.atleast_1d", "np.asarray", "np.array") and e.args:
                                e = e.args[0]
                            return e

                        src = [canon(_unwrap(e)) for e in (v.args[0].elts if isinstance(v.args[0], (ast.Tuple, ast.List)) else v.args)]
                        ctx.check(okg and "self.yval" in src, opt, s, "earlier observation appended only when a single final sample was taken", "the earlier observation is mixed into the final samples other than under size == 1", construct=f"supplement under {g[-1:]} with {src}")

    # ------------------------------------------------------------------ R3
    ctx.rule("R3", "argmin/argmax over a[k:] is offset by k before it indexes full-length arrays", floor=2)
    for node in ast.walk(opt.node):
        if not (isinstance(node, ast.Call) and call_name(node) in ("np.argmin", "np.argmax") and node.args):
            continue
        st = prog.parent(node)
        if not (isinstance(st, ast.Assign) and isinstance(st.targets[0], ast.Name)):
            continue
        idx = st.targets[0].id
        arg = node.args[0]
        k = None
        sliced = None
        if isinstance(arg, ast.Subscript) and isinstance(arg.slice, ast.Slice) and arg.slice.lower is not None and const_num(arg.slice.lower):
            k = const_num(arg.slice.lower)
            sliced = None  # the slice is anonymous
        elif isinstance(arg, ast.Name):
            for d in reaching_assignments(prog, opt, arg.id, node):
                if isinstance(d, ast.Subscript) and canon(d.value) == arg.id and isinstance(d.slice, ast.Slice) and d.slice.lower is not None and const_num(d.slice.lower):
                    k = const_num(d.slice.lower)
                    sliced = arg.id
        if k is None:
            continue
        offs = []
        for t, v, s, kk in iter_stores(opt.node):
            if isinstance(t, ast.Name) and t.id == idx and s is not st:
                if kk == "aug" and isinstance(s.op, ast.Add) and const_num(v) == k:
                    offs.append(s)
                elif kk == "assign" and canon(v) in (f"({int(k)} + {idx})",):
                    offs.append(s)
        sn = cfg.node_of(st)
        uses = []
        for n in ast.walk(opt.node):
            if isinstance(n, ast.Subscript) and isinstance(n.ctx, ast.Load) and canon(n.slice) == idx:
                un = cfg.node_of(n)
                if un is not None and un.id in cfg.reachable(sn.id) and pos(n) > pos(st):
                    uses.append(n)
        bad = []
        for u in uses:
            on_sliced = sliced is not None and canon(u.value) == sliced
            un = cfg.node_of(u)
            dominated = any(cfg.dominates(cfg.node_of(o).id, un.id) and pos(o) < pos(u) for o in offs)
            # stop at a re-definition of idx by another argmin
            if on_sliced and dominated:
                bad.append((u, "sliced array indexed after the offset"))
            if not on_sliced and not dominated:
                bad.append((u, "full-length array indexed without the offset"))
        if bad:
            u, why = bad[0]
            ctx.fail(opt, u, f"{idx} = {canon(node)[:40]} skips the first {int(k)} entries; {why}: the iterate selected is off by {int(k)}", construct=f"slice offset {idx}: {why}")
        else:
            ctx.ok(opt, st, f"{idx} over [{int(k)}:] offset by +{int(k)} before {len(uses)} uses")

    # ------------------------------------------------------------------ R4
    ctx.rule("R4", "noise test: unrecorded second evaluation at the same point; level raised iff |y - y'| > tol_noise", floor=2)
    mesh = R.init_mesh
    lcs = R.logger_calls(mesh)
    first = [c for c in lcs if len(c.args) == 1 and not c.keywords and not any(isinstance(p, (ast.For, ast.While)) for p in prog.ancestors(c))]
    second = []
    for c in lcs:
        b = bind_args(R.logger_call, c)
        lp = [p for p in R.logger_call.params if p != "self"]
        fl = b.get(lp[1]) if len(lp) > 1 else None
        if isinstance(fl, ast.Constant) and fl.value is False:
            second.append(c)
    if not first or len(second) != 1:
        ctx.fail(mesh, mesh.node, f"the noise test (one unrecorded repeat of the first evaluation) is not recognisable: {len(first)} plain first evaluations, {len(second)} unrecorded repeats", construct="<noise test structure>")
    else:
        c1, c2 = first[0], second[0]
        ctx.check(canon(c1.args[0]) == canon(c2.args[0]), mesh, c2, "repeat at the same point", f"the noise test repeats the evaluation at {canon(c2.args[0])}, not at the starting point {canon(c1.args[0])}", construct=f"noise test point {canon(c2.args[0])}")
        st2 = prog.parent(c2)
        y2 = canon(st2.targets[0].elts[0]) if isinstance(st2, ast.Assign) and isinstance(st2.targets[0], ast.Tuple) else None
        st1 = prog.parent(c1)
        y1 = canon(st1.targets[0].elts[0]) if isinstance(st1, ast.Assign) and isinstance(st1.targets[0], ast.Tuple) else None
        from .common import deref_canon

        tests = [n for n in ast.walk(mesh.node) if isinstance(n, ast.If) and ("OPT[tol_noise]" in canon(n.test) or "OPT[tol_noise]" in deref_canon(prog, mesh, n.test))]
        if not tests:
            ctx.fail(mesh, c2, "the repeat evaluation is not compared with options['tol_noise']", construct="<missing tol_noise comparison>")
        for tnode in tests:
            # the branch that raises the level is taken exactly when |y - y'| > tol_noise: ``if not (gap > tol): .. else:
            # level = 1`` is the same test; ``if gap <= tol: .. else: level = 1`` is not (it differs at NaN, ``<`` also at
            # equality), so the negation is kept explicit
            ttest, positive = tnode.test, True
            while isinstance(ttest, ast.UnaryOp) and isinstance(ttest.op, ast.Not):
                ttest, positive = ttest.operand, not positive
            ct = canon(ttest)
            if "OPT[tol_noise]" not in ct or not (ct.startswith("(OPT[tol_noise] < np.abs(") or ct.startswith("(OPT[tol_noise] < abs(")):
                from .common import deref_expr as _dx5

                dt = _dx5(prog, mesh, ttest)  # the gap / the comparison kept in a local
                while isinstance(dt, ast.UnaryOp) and isinstance(dt.op, ast.Not):
                    dt, positive = dt.operand, not positive
                ct = canon(dt)
            ct = ct.replace("< abs((", "< np.abs((").replace("< np.absolute((", "< np.abs((").replace("< np.fabs((", "< np.abs((")  # the builtin on scalars
            want = {f"(OPT[tol_noise] < np.abs(({y1} - {y2})))", f"(OPT[tol_noise] < np.abs(({y2} - {y1})))"}
            branch = tnode.body if positive else tnode.orelse
            sets = [s for s in branch if isinstance(s, ast.Assign) and state_key(s.targets[0]) == ("OS", "uncertainty_handling_level") and const_num(s.value) == 1]
            if not positive and not sets:
                ct = "not " + ct
            ctx.check(ct in want and bool(sets), mesh, tnode, "|y - y'| > tol_noise raises the uncertainty level to 1", f"the noise test is '{ct}' (expected |{y1} - {y2}| > tol_noise setting the level to 1)", construct=f"noise test {ct}")
        g = guard_canon(prog, mesh, c2)
        ctx.check(any(x in ("(OS[uncertainty_handling_level] < 1)", "(OS[uncertainty_handling_level] <= 0)") for x in g), mesh, c2, "noise test only when noise is not declared", "the noise test is not restricted to undeclared-noise runs", construct="noise test guard")

    # ------------------------------------------------------------------ R5
    ctx.rule("R5", "log entries describing the returned point are looked up by that point, not by the last-filled index", floor=0)
    for node in ast.walk(opt.node):
        if isinstance(node, ast.Subscript) and isinstance(node.ctx, ast.Load) and canon(node.slice) in ("LOG.Xn", "LOG.X_max_idx") and canon(node.value).startswith("LOG."):
            st = node
            while not isinstance(st, ast.stmt):
                st = prog.parent(st)
            ctx.fail(opt, st, f"{canon(node)} reads the log row of the last *new* point; after the search/poll history the returned point is in general another row, so the value supplements the result with another point's data",
                     construct=f"{canon(node)} used for the returned point")
    ctx.assume("np.mean / np.std / ndarray.size semantics; history 'u' holds evaluated iterates (C19)")
