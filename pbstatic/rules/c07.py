"""C07 -- fixed random_seed makes runs reproducible, independent of process
history."""
from __future__ import annotations

import ast
from typing import Dict, List, Optional, Set, Tuple

from ..cfg import cfg_of
from ..model import AnalysisError, FunctionInfo, bind_args, param_default
from ..roles import roles_of
from ..terms import call_name, canon, const_num, guard_canon, norm_stmt, state_key
from .common import iter_stores, reaching_assignments, self_attr_of, store_base

EXPLANATION = (
    "R1 source discipline: every call in the package that resolves to a randomness / entropy source is enumerated; allowed are functions of "
    "NumPy's global generator (numpy.random.<fn>, aliases resolved through imports) and scipy's Sobol engine constructed with seed=<expr> where "
    "the expression derives from the start point or from an allowed draw; the stdlib random module, secrets, os.urandom, uuid, "
    "default_rng/Generator/RandomState/SeedSequence, hash()/id(), and iteration over sets are violations. R2 seed dominates draws: the seeding "
    "routine calls numpy.random.seed(int(options['random_seed'])) when the option is set; in the constructor its call dominates the random "
    "start-point draw, and in optimize() (through the initialisation helper) it dominates every call that can reach an R1 site or the target. "
    "R3 no wall clock in decisions: values tainted by time.* / the Timer / timing attributes may only reach timing slots, and tests on them may "
    "only control stores to timing slots. R4 no cross-instance state: module-level mutable bindings, class-level mutable attributes, mutable "
    "default arguments and exec-into-globals are enumerated; each must be read-only after definition or re-initialised before every use. "
    "Trusted: gpyreg/scipy draw from the global legacy stream when no rng is passed. Bit-level BLAS determinism is not decided."
)

ALLOWED_NP_RANDOM = {
    "seed", "uniform", "normal", "rand", "randn", "randint", "choice", "permutation", "shuffle", "random", "random_sample", "standard_normal",
    "multivariate_normal", "exponential", "gamma", "beta", "binomial", "poisson", "get_state", "set_state",
}
FORBIDDEN_PREFIX = ("random.", "secrets.", "uuid.", "os.urandom", "numpy.random.default_rng", "numpy.random.Generator", "numpy.random.RandomState",
                    "numpy.random.SeedSequence", "numpy.random.PCG64", "numpy.random.MT19937", "numpy.random.Philox", "numpy.random.SFC64")
TIME_PREFIX = ("time.", "datetime.", "timeit.")
TIMING_SLOTS = {"fun_eval_time", "total_fun_eval_time", "total_time", "overhead", "_start_times", "_durations", "timer", "eps_t"}


def rng_sites(prog) -> List[Tuple[FunctionInfo, ast.Call, str]]:
    out = []
    for fn in prog.functions():
        for call, targets in prog.calls_in(fn):
            for t in targets:
                if isinstance(t, tuple) and t[0] == "external":
                    name = t[1]
                    if name.startswith("numpy.random.") or name.startswith(FORBIDDEN_PREFIX) or name.endswith("qmc.Sobol") or name.endswith(".Sobol") and "qmc" in name:
                        out.append((fn, call, name))
                    elif name in ("random", "secrets", "uuid"):
                        out.append((fn, call, name))
            if isinstance(call.func, ast.Name) and call.func.id in ("hash", "id") and not targets:
                out.append((fn, call, "builtin." + call.func.id))
    return out


def check(ctx):
    prog = ctx.prog
    R = roles_of(prog)

    # ------------------------------------------------------------------ R1
    ctx.rule("R1", "only NumPy's global generator (and a Sobol engine seeded from the start point / an allowed draw) is used", floor=12)
    sites = rng_sites(prog)
    draw_fns: Set[FunctionInfo] = set()
    for fn, call, name in sites:
        if name.startswith(FORBIDDEN_PREFIX) or name in ("random", "secrets", "uuid"):
            ctx.fail(fn, call, f"{name} is an entropy source outside NumPy's global generator: it is not controlled by options['random_seed'] (or carries its own state across runs)", construct=f"entropy source {name}")
        elif name.startswith("builtin."):
            arg = call.args[0] if call.args else None
            ctx.fail(fn, call, f"{name[8:]}() of an object feeds the computation: its value depends on the process (hash randomisation / addresses)", construct=f"{name[8:]}({canon(arg)[:30]})")
        elif name.startswith("numpy.random."):
            f = name.split(".")[-1]
            if f in ALLOWED_NP_RANDOM or (f.islower() and name.count(".") == 2):
                ctx.ok(fn, call, f"global NumPy stream: {name}")
                if f != "seed":
                    draw_fns.add(fn)
            else:
                ctx.fail(fn, call, f"{name} is not a draw from NumPy's global legacy generator", construct=f"entropy source {name}")
        else:  # Sobol
            seed = None
            for k in call.keywords:
                if k.arg == "seed":
                    seed = k.value
            if seed is None:
                ctx.fail(fn, call, "the Sobol engine is constructed without seed=: scipy then seeds it from OS entropy", construct="Sobol without seed")
                continue
            defs = reaching_assignments(prog, fn, seed.id, call) if isinstance(seed, ast.Name) else [seed]
            p0 = [p for p in fn.params if p != "self"][0] if fn.params else None
            okd = bool(defs)
            for d in defs:
                derived = _derives_from(prog, fn, d, call, {p0}, depth=0)
                draw = any(isinstance(n, ast.Call) and (prog.external_name(fn.module, n.func) or "").startswith("numpy.random.") for n in ast.walk(d))
                if not (derived or draw):
                    okd = False
            draw_fns.add(fn)
            ctx.check(okd, fn, call, "Sobol(seed=<start point | global draw>)", "the Sobol seed is derived neither from the start point nor from the seeded global generator", construct=f"Sobol seed {canon(seed)[:40]}")
    # gpyreg rng= and iteration over sets
    for fn in prog.functions():
        for node in ast.walk(fn.node):
            if isinstance(node, ast.Call):
                for k in node.keywords:
                    if k.arg in ("rng", "random_state", "seed") and not (prog.external_name(fn.module, node.func) or "").endswith("Sobol"):
                        if const_num(k.value) is not None or (isinstance(k.value, ast.Constant) and k.value.value is not None):
                            ctx.fail(fn, node, f"a constant {k.arg}= is passed to {canon(node.func)}: the stream ignores options['random_seed']", construct=f"constant {k.arg}= in {canon(node.func)}")
            if isinstance(node, (ast.For, ast.comprehension)):
                it = node.iter
                if isinstance(it, ast.Call) and isinstance(it.func, ast.Name) and it.func.id in ("set", "frozenset"):
                    ctx.fail(fn, it, "iteration over a set: the order depends on hash randomisation", construct="iteration over set(...)")

    # ------------------------------------------------------------------ R5
    ctx.rule("R5", "no value is derived from the text rendering of a float array (numpy print options are process-global state)", floor=0)
    INT_T = ("int", "np.int64", "np.int32", "np.uint64", "np.uint32", "np.int_", "np.intp", "np.uint8", "np.int8", "np.int16", "np.uint16")
    for fn in prog.functions():
        for node in ast.walk(fn.node):
            if isinstance(node, ast.Call) and call_name(node) in ("np.array2string", "np.array_str", "np.array_repr") and node.args:
                # ignore renderings that only go to the logger
                par = prog.parent(node)
                in_log = any(isinstance(p_, ast.Call) and canon(p_.func).split(".")[-1] in ("info", "debug", "warning", "warn", "error", "log") for p_ in prog.ancestors(node))
                if in_log:
                    continue
                arg = node.args[0]
                defs = reaching_assignments(prog, fn, arg.id, node) if isinstance(arg, ast.Name) else [arg]
                integral = bool(defs) and all(isinstance(d, ast.Call) and isinstance(d.func, ast.Attribute) and d.func.attr == "astype" and d.args and canon(d.args[0]) in INT_T for d in defs)
                ctx.check(integral, fn, node, f"{call_name(node)} of an integer-typed array (rendering independent of print options)", f"{call_name(node)}({canon(arg)}) renders a float array: the text (and everything derived from it, here a seed) depends on numpy's process-global print options, i.e. on what ran earlier in the process",
                          construct=f"{call_name(node)} of a non-integer array")

    # ------------------------------------------------------------------ R2
    ctx.rule("R2", "seeding dominates every random draw in the constructor and in optimize()", floor=4)
    seedfn = R.seed_fn
    if seedfn is None:
        ctx.fail(R.bads_init, R.bads_init.node, "no routine calls numpy.random.seed: options['random_seed'] has no effect", construct="<missing numpy.random.seed>")
    else:
        scalls = [c for c, tg in prog.calls_in(seedfn) if ("external", "numpy.random.seed") in tg]
        sc = scalls[0]
        arg = sc.args[0] if sc.args else None
        defs = reaching_assignments(prog, seedfn, arg.id, sc) if isinstance(arg, ast.Name) else [arg]
        if isinstance(arg, ast.Attribute) and self_attr_of(arg):
            # the seed parked in an attribute first (self._random_seed = int(seed); np.random.seed(self._random_seed)):
            # the store that precedes the call in the same routine
            from .common import pos as _pos7

            sts = [(s_, v_) for t_, v_, s_, k_ in iter_stores(seedfn.node) if isinstance(t_, ast.Attribute) and canon(t_) == canon(arg) and _pos7(s_) < _pos7(sc)]
            if sts:
                defs = [max(sts, key=lambda z: _pos7(z[0]))[1]]
        from .common import deref_canon as _dc7

        okarg = bool(defs) and all("OPT[random_seed]" in canon(d) or "OPT[random_seed]" in _dc7(prog, seedfn, d) for d in defs)
        g = guard_canon(prog, seedfn, sc)
        # every guard conjunct must be about the option (as written or with its locals expanded); one of them is the
        # presence test
        from ..terms import conjuncts as _cj, guard_of as _go
        from .common import deref_expr as _dx

        unrelated = []
        for t_, pol_ in _go(prog, seedfn, sc):
            for c_, p_ in _cj(t_, pol_):
                alts = {canon(c_, neg=not p_)} | {canon(c2, neg=not p2) for c2, p2 in _cj(_dx(prog, seedfn, c_), p_)}
                if not any("random_seed" in a_ for a_ in alts):
                    unrelated.append(canon(c_, neg=not p_))
        okg = any("OPT[random_seed] is not None" in x or "not (OPT[random_seed] is None)" in x for x in g) and not unrelated
        ctx.check(okarg and okg, seedfn, sc, "np.random.seed(int(options['random_seed'])) whenever the option is set", "the global generator is not seeded from options['random_seed'] whenever that option is set", construct=f"seed call {canon(sc)[:50]} under {g[-2:]}")
        sinks = {f for f, _ in R.target_sinks}

        def sensitive(fn_, call_) -> bool:
            for t in prog.resolve_call(fn_, call_):
                if isinstance(t, tuple) and t[1].startswith("numpy.random.") and not t[1].endswith(".seed"):
                    return True
                if isinstance(t, FunctionInfo) and t is not seedfn:
                    reach = prog.reachable_from(t)
                    if reach & draw_fns or reach & sinks:
                        return True
            return False

        for host, label in ((R.bads_init, "constructor"), (R.optimize, "optimize()")):
            chain = [host]
            # descend into the helper that calls the seeding routine
            target_fn, seed_call = None, None
            frontier = [host]
            seen = set()
            while frontier:
                f = frontier.pop(0)
                if f in seen:
                    continue
                seen.add(f)
                cs = [c for c, tg in prog.calls_in(f) if seedfn in tg]
                if cs:
                    target_fn, seed_call = f, cs[0]
                    break
                for c, tg in prog.calls_in(f):
                    for t in tg:
                        if isinstance(t, FunctionInfo) and t.cls is R.bads:
                            frontier.append(t)
            if target_fn is None:
                ctx.fail(host, host.node, f"the {label} never applies options['random_seed']", construct=f"<no seeding in {label}>")
                continue
            # in target_fn: seed call dominates every sensitive call
            cfg = cfg_of(target_fn)
            sn = cfg.node_of(seed_call)
            bad = []
            for c, tg in prog.calls_in(target_fn):
                if c is seed_call:
                    continue
                if sensitive(target_fn, c):
                    n = cfg.node_of(c)
                    if n is not None and not cfg.dominates(sn.id, n.id):
                        bad.append(c)
            # and the path host -> target_fn: the call into target_fn dominates sensitive calls in each intermediate function
            path = prog.call_path(host, target_fn) or [host]
            for a, b_ in zip(path, path[1:]):
                cfa = cfg_of(a)
                into = [c for c, tg in prog.calls_in(a) if b_ in tg]
                if not into:
                    continue
                inn = cfa.node_of(into[0])
                for c, tg in prog.calls_in(a):
                    if c is into[0]:
                        continue
                    if sensitive(a, c):
                        n = cfa.node_of(c)
                        if n is not None and not cfa.dominates(inn.id, n.id):
                            bad.append(c)
            if bad:
                c = bad[0]
                ctx.fail(prog.function_of(c), c, f"in the {label} a random draw / target evaluation ({canon(c.func)}) can happen before the seed is applied: the result depends on what ran earlier in the process", construct=f"unseeded {canon(c.func)} in {label}")
            else:
                ctx.ok(target_fn, seed_call, f"{label}: seeding dominates every draw and evaluation")
            # the seeding call itself is unconditional
            ctx.check(cfg.postdominates(sn.id, cfg.entry.id), target_fn, seed_call, f"{label}: seeding is unconditional", f"the {label} applies the seed only on some paths", construct=f"conditional seeding in {label}")

    # ------------------------------------------------------------------ R3
    ctx.rule("R3", "wall-clock values reach only timing slots", floor=3)
    _time_taint(ctx, prog, R)

    # ------------------------------------------------------------------ R4
    ctx.rule("R4", "no mutable state shared between instances (module globals, class attributes, mutable defaults, exec into globals)", floor=3)
    _shared_state(ctx, prog, R)
    # ------------------------------------------------------------------ R6
    ctx.rule("R6", "nothing a run writes can reach a later run through the caller's own arrays or options dict (no in-place write through an alias of them)", floor=3)
    from .c20 import caller_data_private

    caller_data_private(ctx, prog, R)
    ctx.assume("gpyreg and scipy draw from numpy's global legacy stream when no rng is passed (read in the installed sources)")
    ctx.assume("logging.basicConfig and np.seterr are value-neutral process state")


def _derives_from(prog, fn, expr, at, roots: Set[str], depth: int) -> bool:
    """flow-insensitive: some name in ``expr`` transitively depends on a root."""
    deps: Dict[str, Set[str]] = {}
    for t, v, s, k in iter_stores(fn.node):
        if isinstance(t, ast.Name) and v is not None:
            deps.setdefault(t.id, set()).update(n.id for n in ast.walk(v) if isinstance(n, ast.Name))
    seen: Set[str] = set()
    stack = [n.id for n in ast.walk(expr) if isinstance(n, ast.Name)]
    while stack:
        n = stack.pop()
        if n in roots:
            return True
        if n in seen:
            continue
        seen.add(n)
        stack.extend(deps.get(n, ()))
    return False


def _is_time_source(prog, fn, node) -> bool:
    if isinstance(node, ast.Call):
        ext = prog.external_name(fn.module, node.func)
        if ext and ext.startswith(TIME_PREFIX):
            return True
        if isinstance(node.func, ast.Attribute) and node.func.attr in ("get_duration",):
            return True
    if isinstance(node, ast.Attribute) and node.attr in ("fun_eval_time", "total_fun_eval_time"):
        return True
    sk = state_key(node) if isinstance(node, (ast.Subscript, ast.Call)) else None
    if sk and sk[1] in ("total_time", "overhead"):
        return True
    return False


def _time_taint(ctx, prog, R):
    # parameters tainted by name (timing values are passed under these names) and by call sites
    tainted_params: Dict[int, Set[str]] = {}
    for _round in range(3):
        for fn in prog.functions():
            tp = tainted_params.setdefault(id(fn.node), set())
            for p in fn.params:
                if p in ("fun_eval_time", "funtime"):
                    tp.add(p)
        for fn in prog.functions():
            tl = _tainted_locals(prog, fn, tainted_params.get(id(fn.node), set()))
            for call, targets in prog.calls_in(fn):
                for t in targets:
                    if isinstance(t, FunctionInfo):
                        b = bind_args(t, call)
                        for p, e in b.items():
                            if _expr_tainted(prog, fn, e, tl):
                                tainted_params.setdefault(id(t.node), set()).add(p)
    n = 0
    for fn in prog.functions():
        tl = _tainted_locals(prog, fn, tainted_params.get(id(fn.node), set()))
        has_src = tl or any(_is_time_source(prog, fn, x) for x in ast.walk(fn.node))
        if not has_src:
            continue
        # (a) stores of tainted values
        for t, v, s, k in iter_stores(fn.node):
            if v is None or not _expr_tainted(prog, fn, v, tl):
                continue
            b = store_base(t)
            slot = None
            if isinstance(b, ast.Attribute):
                slot = b.attr
            sk = state_key(t)
            if sk:
                slot = sk[1]
            if isinstance(t, ast.Subscript) and canon(t.value) == "self" and isinstance(t.slice, ast.Constant):
                slot = t.slice.value  # result["total_time"]
            if isinstance(b, ast.Name) and slot is None:
                continue  # local
            n += 1
            ctx.check(slot in TIMING_SLOTS, fn, s, f"timing value stored in timing slot {slot}", f"a wall-clock dependent value is stored in '{slot}', which is not a timing slot: decisions can depend on execution speed", construct=f"time-tainted store to {slot}")
        # (b) tests on tainted values
        for node in ast.walk(fn.node):
            if isinstance(node, (ast.If, ast.While)) and prog.function_of(node) is fn and _expr_tainted(prog, fn, node.test, tl):
                bad = None
                for sub in node.body + node.orelse:
                    for t, v, s, k in iter_stores(sub):
                        b = store_base(t)
                        slot = b.attr if isinstance(b, ast.Attribute) else (state_key(t) or (None, None))[1]
                        if isinstance(b, ast.Name) and slot is None:
                            if b.id in tl or b.id in ("overhead",):
                                continue
                            bad = s
                        elif slot not in TIMING_SLOTS:
                            bad = s
                    for c in ast.walk(sub):
                        if isinstance(c, (ast.Return, ast.Break, ast.Continue, ast.Raise)):
                            bad = c
                n += 1
                ctx.check(bad is None, fn, node, "test on a timing value controls timing slots only", "a branch decided by a wall-clock dependent value changes non-timing state / control flow", construct=f"time-dependent branch {canon(node.test)[:50]}")
        # (c) tainted arguments of sensitive calls
        for call, targets in prog.calls_in(fn):
            ext = [t[1] for t in targets if isinstance(t, tuple)]
            if any(e.startswith("numpy.random.") for e in ext) or R.is_logger_call(fn, call):
                for a in list(call.args) + [k.value for k in call.keywords]:
                    if _expr_tainted(prog, fn, a, tl):
                        ctx.fail(fn, call, "a wall-clock dependent value is passed to the random generator / the target evaluation", construct=f"time-tainted argument of {canon(call.func)}")
    ctx.extra["time_taint_sites"] = n


def _tainted_locals(prog, fn, seeds: Set[str]) -> Set[str]:
    tl = set(seeds)
    changed = True
    while changed:
        changed = False
        for t, v, s, k in iter_stores(fn.node):
            idx = int(k[7:-1]) if k.startswith("assign[") and k[7:-1].isdigit() else None
            if isinstance(t, ast.Name) and v is not None and t.id not in tl and _expr_tainted(prog, fn, v, tl, idx):
                tl.add(t.id)
                changed = True
    return tl


_RET_TAINT: Dict = {}


def _callee_returns_taint(prog, callee: FunctionInfo, tainted_params: Set[str], index: Optional[int] = None) -> bool:
    """does a package function return a value that depends on the given tainted
    parameters / on a time source?  (memoised; recursion assumes 'no')"""
    key = (id(callee.node), tuple(sorted(tainted_params)), index)
    if key in _RET_TAINT:
        return _RET_TAINT[key]
    _RET_TAINT[key] = False  # recursion guard
    tl = _tainted_locals(prog, callee, set(tainted_params))
    res = False
    for n in ast.walk(callee.node):
        if isinstance(n, ast.Return) and n.value is not None and prog.function_of(n) is callee:
            v = n.value
            if index is not None and isinstance(v, ast.Tuple) and index < len(v.elts):
                v = v.elts[index]
            if _expr_tainted(prog, callee, v, tl):
                res = True
    _RET_TAINT[key] = res
    return res


def _expr_tainted(prog, fn, e, tl: Set[str], index: Optional[int] = None) -> bool:
    if e is None:
        return False
    if _is_time_source(prog, fn, e):
        return True
    if isinstance(e, ast.Name):
        return e.id in tl
    if isinstance(e, ast.Call):
        targets = [t for t in prog.resolve_call(fn, e) if isinstance(t, FunctionInfo)]
        if targets:
            # package callee: tainted only if its return value depends on tainted arguments
            for t in targets:
                b = bind_args(t, e)
                tp = {p for p, a in b.items() if _expr_tainted(prog, fn, a, tl)}
                if _callee_returns_taint(prog, t, tp, index):
                    return True
            return False
    for c in ast.iter_child_nodes(e):
        if isinstance(c, ast.keyword):
            c = c.value
        if isinstance(c, ast.comprehension):
            if _expr_tainted(prog, fn, c.iter, tl):
                return True
            continue
        if isinstance(c, ast.expr) and _expr_tainted(prog, fn, c, tl):
            return True
    return False


MUTATORS = {"append", "extend", "insert", "pop", "remove", "clear", "sort", "reverse", "update", "add", "discard", "setdefault", "popitem", "fill", "resize"}


def _mutations_of(prog, scope_nodes, is_target) -> List[ast.AST]:
    out = []
    for root in scope_nodes:
        for n in ast.walk(root):
            if isinstance(n, ast.Call) and isinstance(n.func, ast.Attribute) and n.func.attr in MUTATORS and is_target(n.func.value):
                out.append(n)
            if isinstance(n, (ast.Assign, ast.AugAssign)):
                tg = n.targets if isinstance(n, ast.Assign) else [n.target]
                for t in tg:
                    if isinstance(t, ast.Subscript) and is_target(t.value):
                        out.append(n)
                    if isinstance(n, ast.AugAssign) and is_target(t):
                        out.append(n)
            if isinstance(n, ast.Delete):
                for t in n.targets:
                    if isinstance(t, ast.Subscript) and is_target(t.value):
                        out.append(n)
    return out


def _is_mutable_literal(v) -> bool:
    return isinstance(v, (ast.List, ast.Dict, ast.Set, ast.ListComp, ast.DictComp, ast.SetComp)) or (isinstance(v, ast.Call) and isinstance(v.func, ast.Name) and v.func.id in ("list", "dict", "set", "defaultdict"))


def _shared_state(ctx, prog, R):
    all_fns = [f.node for f in prog.functions()]
    # module-level mutable bindings
    for m in prog.modules.values():
        for s in m.tree.body:
            if isinstance(s, ast.Assign) and _is_mutable_literal(s.value):
                for t in s.targets:
                    if isinstance(t, ast.Name):
                        name = t.id
                        muts = _mutations_of(prog, [f.node for f in prog.functions() if f.module is m], lambda e: isinstance(e, ast.Name) and e.id == name)
                        if muts:
                            ctx.fail(m.relpath, muts[0], f"module-level mutable '{name}' is modified at run time: state leaks between BADS instances", construct=f"module global {name} mutated")
                        else:
                            ctx.ok(m.relpath, s, f"module-level {name}: read-only")
    # class-level mutable attributes
    for c in prog.classes():
        for s in c.node.body:
            if isinstance(s, ast.Assign) and _is_mutable_literal(s.value):
                for t in s.targets:
                    if isinstance(t, ast.Name):
                        name = t.id
                        muts = _mutations_of(prog, all_fns, lambda e: isinstance(e, ast.Attribute) and e.attr == name)
                        if muts:
                            f = prog.function_of(muts[0])
                            ctx.fail(f or c.module.relpath, muts[0], f"class attribute {c.name}.{name} (one object shared by all instances) is modified", construct=f"class attribute {c.name}.{name} mutated")
                        else:
                            ctx.ok(c.module.relpath, s, f"class attribute {c.name}.{name}: read-only")
    # mutable default arguments
    for fn in prog.functions():
        a = fn.node.args
        pos = list(a.posonlyargs) + list(a.args)
        defaults = [None] * (len(pos) - len(a.defaults)) + list(a.defaults)
        for p, d in list(zip(pos, defaults)) + list(zip(a.kwonlyargs, a.kw_defaults)):
            if d is not None and _is_mutable_literal(d):
                name = p.arg
                # the default may be stored in an attribute; follow one level
                attrs = {self_attr_of(t) for t, v, s, k in iter_stores(fn.node) if isinstance(v, ast.Name) and v.id == name and self_attr_of(t)}
                scope = [fn.node] + ([m.node for m in fn.cls.methods.values()] if fn.cls else [])
                muts = _mutations_of(prog, scope, lambda e: (isinstance(e, ast.Name) and e.id == name) or (isinstance(e, ast.Attribute) and e.attr in attrs and isinstance(e.value, ast.Name) and e.value.id == "self"))
                if muts:
                    ctx.fail(fn, muts[0], f"the mutable default argument '{name}' of {fn.short} is modified: the default is one object shared by all calls", construct=f"mutable default {fn.short}.{name} mutated")
                else:
                    ctx.ok(fn, d, f"mutable default {fn.short}({name}=...) is never modified")
    # exec / global
    for fn in prog.functions():
        for node in ast.walk(fn.node):
            if isinstance(node, ast.Global):
                ctx.fail(fn, node, f"'global {', '.join(node.names)}' gives {fn.short} write access to module state shared by all instances", construct=f"global {','.join(node.names)} in {fn.short}")
            if isinstance(node, ast.Call) and isinstance(node.func, ast.Name) and node.func.id == "exec":
                # allowed: the options loader's exec of the evaluation parameters, re-run before every eval loop
                cfg = cfg_of(fn)
                evals = [n for n in ast.walk(fn.node) if isinstance(n, ast.Call) and isinstance(n.func, ast.Name) and n.func.id == "eval"]
                en = cfg.node_of(node)
                ok = bool(evals) and all(cfg.dominates(cfg.head_of(_enclosing_loop(prog, node)).id, cfg.node_of(e).id) if _enclosing_loop(prog, node) is not None else cfg.dominates(en.id, cfg.node_of(e).id) for e in evals)
                reads_elsewhere = []
                ctx.check(ok, fn, node, "exec into module globals is re-run before every eval in the same call (value-neutral across instances)", "exec writes module-level state that a later evaluation can observe from another instance's load", construct=f"exec in {fn.short}")


    # direct writes into the module namespace
    for fn in prog.functions():
        gnames = set()
        for t, v, s, k in iter_stores(fn.node):
            if isinstance(t, ast.Name) and isinstance(v, ast.Call) and isinstance(v.func, ast.Name) and v.func.id in ("globals", "vars"):
                gnames.add(t.id)
        for node in ast.walk(fn.node):
            tgt = None
            if isinstance(node, ast.Call) and isinstance(node.func, ast.Attribute) and node.func.attr in MUTATORS:
                tgt = node.func.value
            elif isinstance(node, (ast.Assign, ast.AugAssign)):
                for t in (node.targets if isinstance(node, ast.Assign) else [node.target]):
                    if isinstance(t, ast.Subscript):
                        tgt = t.value
            if tgt is None:
                continue
            is_g = (isinstance(tgt, ast.Name) and tgt.id in gnames) or (isinstance(tgt, ast.Call) and isinstance(tgt.func, ast.Name) and tgt.func.id in ("globals", "vars"))
            if is_g and isinstance(node, ast.Assign) and len(node.targets) == 1:
                # the exec of the options loader spelled as an item assignment: an unconditional (re)binding that runs
                # before every eval of the same call is value-neutral across instances, exactly like the exec
                cfg = cfg_of(fn)
                evals = [n for n in ast.walk(fn.node) if isinstance(n, ast.Call) and isinstance(n.func, ast.Name) and n.func.id == "eval"]
                lp = _enclosing_loop(prog, node)
                guarded = any(isinstance(a, (ast.If, ast.Try, ast.While)) for a in prog.ancestors(node) if a is not lp and a is not fn.node and (lp is None or any(x is a for x in ast.walk(lp))))
                ok = bool(evals) and not guarded and all(cfg.dominates(cfg.head_of(lp).id, cfg.node_of(e).id) if lp is not None else cfg.dominates(cfg.node_of(node).id, cfg.node_of(e).id) for e in evals)
                if ok:
                    ctx.ok(fn, node, "binding in module globals is re-made before every eval in the same call (value-neutral across instances)")
                    continue
            if is_g:
                ctx.fail(fn, node, "the module namespace is written directly (globals()): the binding survives into later instances and is not re-initialised per load", construct=f"write into globals() in {fn.short}")


def _enclosing_loop(prog, node):
    for p in prog.ancestors(node):
        if isinstance(p, (ast.For, ast.While)):
            return p
    return None
