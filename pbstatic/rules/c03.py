"""C03 -- optimize() terminates within the evaluation budget and counts honestly
(safety clauses; liveness only via necessary conditions)."""
from __future__ import annotations

import ast
import re
from fractions import Fraction
from typing import Dict, List, Optional, Tuple

from ..cfg import cfg_of
from ..model import AnalysisError, FunctionInfo, bind_args
from ..roles import roles_of
from ..terms import call_name, canon, cmp_normal, conjuncts, const_num, const_str, guard_canon, guard_of, norm_stmt, state_key
from .common import deref_canon as _deref_c, attr_stores, int_le_form, iter_stores, key_stores, reaching_assignments, self_attr_of, store_base, pos

EXPLANATION = (
    "R1 who-may-call: the user callable is invoked at exactly one site; its attribute is read elsewhere only to store the reference in the "
    "result. R2 honest counter: func_count has exactly two stores in the package (initialisation to 0, one += 1); the increment post-dominates "
    "the target call on normal paths, lies in no loop, is dominated by the target call, and no explicit raise is reachable after it. R3 budget "
    "exit: every loop that can reach the target either carries the conjunct / an unconditional tail test `func_count >= max_fun_evals` (compared "
    "as integer linear normal forms, so strictness and offsets are part of the rule) whose body sets the loop's exit flag, or is a for over "
    "range(len(<filtered set>)) / range(options['noise_final_samples']); the exit flag is only ever set to True inside the loop and no "
    "continue bypasses the tail. R4 reserve arithmetic: noise_final_samples := min(nfs, max - count) dominates max := max - nfs, both run "
    "before the main loop; the design size is min(., max - 1). R5 progress: search_count += 1 lies on every path through the search step; "
    "the iteration counter advances only under 'polled and not finished'; the max_iter test is iter >= max_iter - 1. R6 each termination "
    "message literal is assigned only under the test naming its option with the tabled direction, in a branch that sets the exit flag; the "
    "result's message reads the key written last in the loop. Liveness as a whole is not decided."
    " R4 also requires that no call which can still raise the detected noise level is reachable after the reserve has been decided."
)


def _form(test, neg=False):
    nf = int_le_form(test, neg)
    if nf is None or nf[0] != "<=":
        return None
    return dict(nf[1][0]), nf[1][1]


def is_budget_stop(test) -> Optional[bool]:
    """True when test == (func_count >= max_fun_evals) as integer normal form;
    False when it compares those two differently; None when unrelated."""
    f = _form(test)
    if f is None:
        return None
    form, const = f
    if set(form) != {"LOG.func_count", "OPT[max_fun_evals]"}:
        return None
    return form["OPT[max_fun_evals]"] == 1 and form["LOG.func_count"] == -1 and const == 0


def is_budget_continue(test) -> Optional[bool]:
    """True when test == (func_count < max_fun_evals)."""
    f = _form(test)
    if f is None:
        return None
    form, const = f
    if set(form) != {"LOG.func_count", "OPT[max_fun_evals]"}:
        return None
    return form["LOG.func_count"] == 1 and form["OPT[max_fun_evals]"] == -1 and const == 1


def check(ctx):
    prog = ctx.prog
    R = roles_of(prog)
    lc = R.logger_call
    opt = R.optimize

    # ------------------------------------------------------------------ R1
    ctx.rule("R1", "the user callable is invoked at exactly one site", floor=2)
    if len(R.target_sinks) == 1:
        f, c = R.target_sinks[0]
        ctx.ok(f, c, f"single target call site {canon(c.func)}(..)")
    else:
        for f, c in R.target_sinks[1:]:
            ctx.fail(f, c, "a second call site of the user's target exists: evaluations made there escape validation, logging and the budget", construct=f"extra target call in {f.short}")
    for fn in prog.functions():
        for node in ast.walk(fn.node):
            if isinstance(node, ast.Attribute) and node.attr in R.target_attrs and isinstance(node.ctx, ast.Load) and prog.function_of(node) is fn:
                rc = prog.expr_class(fn, node.value)
                named = canon(node.value) in ("LOG", "self") and (fn.cls is R.logger_cls or canon(node.value) == "LOG")
                if not (rc is not None and R.logger_cls in rc.mro()) and not named:
                    continue
                par = prog.parent(node)
                if isinstance(par, ast.Call) and par.func is node:
                    continue  # the sink itself (counted above)
                # allowed: stored into the result
                st = par
                while st is not None and not isinstance(st, ast.stmt):
                    st = prog.parent(st)
                ok = isinstance(st, ast.Assign) and isinstance(st.targets[0], ast.Subscript) and canon(st.targets[0].value) == "self" and fn.cls is R.result_cls and st.value is node
                if not ok and fn.cls is R.result_cls and isinstance(st, ast.Expr) and isinstance(st.value, ast.Call) and isinstance(st.value.func, ast.Attribute) and st.value.func.attr in ("update", "__setitem__", "setdefault") and canon(st.value.func.value) in ("self", "super()", "dict"):
                    # the same store spelled self.update({"fun": <target>}) / self.update(fun=<target>) / dict.__setitem__(self, "fun", <target>)
                    call_ = st.value
                    vals_ = [k_.value for k_ in call_.keywords] + [a_ for a_ in call_.args if not isinstance(a_, ast.Dict)] + [v_ for a_ in call_.args if isinstance(a_, ast.Dict) for v_ in a_.values]
                    ok = any(v_ is node for v_ in vals_)
                ctx.check(ok, fn, node, "reference to the target stored in the result only", "the target callable escapes through an alias outside the logger (it could be called without being counted)", construct=f"alias of target in {norm_stmt(st)[:60]}")
    for fn in prog.functions():
        if fn.cls is R.bads or fn.cls is None:
            for node in ast.walk(fn.node):
                if isinstance(node, ast.Call) and isinstance(node.func, ast.Name) and node.func.id == R.fun_param and fn.cls is R.bads:
                    ctx.fail(fn, node, "BADS calls the target callable directly, bypassing the logger", construct=f"direct target call in {fn.short}")

    # ------------------------------------------------------------------ R2
    ctx.rule("R2", "func_count is incremented exactly once per validated target call and nowhere else", floor=3)
    stores = []
    for fn in prog.functions():
        for t, v, s, k in iter_stores(fn.node):
            b = store_base(t)
            if isinstance(b, ast.Attribute) and b.attr == "func_count":
                stores.append((fn, t, v, s, k))
    inits = [x for x in stores if x[4] == "assign" and const_num(x[2]) == 0 and x[0].name == "__init__" and x[0].cls is R.logger_cls]
    incs = [x for x in stores if x[4] == "aug" and isinstance(x[3].op, ast.Add) and const_num(x[2]) == 1]
    others = [x for x in stores if x not in inits and x not in incs]
    for fn, t, v, s, k in others:
        ctx.fail(fn, s, "func_count is written outside its initialisation and its single increment: the reported count no longer equals the number of target calls", construct=f"store to func_count: {norm_stmt(s)[:60]}")
    ctx.check(len(inits) == 1, R.logger_cls.find_method("__init__"), inits[0][3] if inits else None, "func_count initialised to 0 in the logger constructor", "func_count is not initialised to 0 exactly once in the logger constructor", construct="func_count initialisation")
    if len(incs) != 1 or incs[0][0] is not lc:
        ctx.fail(lc, lc.node, f"func_count has {len(incs)} '+= 1' sites (expected exactly one, in the logger's __call__)", construct=f"func_count increments: {len(incs)}")
    else:
        cfg = cfg_of(lc)
        inc = cfg.node_of(incs[0][3])
        sinks = [c for f, c in R.target_sinks if f is lc]
        sk = cfg.node_of(sinks[0]) if sinks else None
        if sk is None:
            raise AnalysisError("target call not in FunctionLogger.__call__")
        c1 = cfg.dominates(sk.id, inc.id)
        c2 = cfg.postdominates(inc.id, sk.id)
        c3 = not cfg.in_loop(inc.id)
        c4 = not cfg.can_reach(inc.id, cfg.raise_exit.id)
        ctx.check(c1, lc, incs[0][3], "increment is dominated by the target call", "func_count can be incremented without the target having been called", construct="increment not dominated by target call")
        ctx.check(c2, lc, incs[0][3], "every normal path from the target call to the return passes the increment", "a target call can return normally without being counted", construct="uncounted normal path",
                  witness=cfg.describe_path(cfg.find_path(sk.id, cfg.exit.id, avoiding={inc.id}) or []))
        ctx.check(c3 and c4, lc, incs[0][3], "increment is outside loops and no raise follows it", "the increment is inside a loop or can be followed by a raise: a failing call would be counted / a call counted twice", construct="increment placement")

    # ------------------------------------------------------------------ R3
    ctx.rule("R3", "every evaluating loop has a budget exit (func_count >= max_fun_evals) or an excused literal bound", floor=4)
    ev_fns = R.evaluating_functions()
    for fn in ev_fns:
        cfg = cfg_of(fn)
        loops = []
        for node in ast.walk(fn.node):
            if isinstance(node, (ast.While, ast.For)) and prog.function_of(node) is fn:
                reaches = False
                for c in ast.walk(node):
                    if isinstance(c, ast.Call):
                        if R.is_logger_call(fn, c) or any(isinstance(t, FunctionInfo) and R.can_reach_target(t) for t in prog.resolve_call(fn, c)):
                            reaches = True
                if reaches:
                    loops.append(node)
        for lp in loops:
            if isinstance(lp, ast.For):
                from .common import deref_expr

                it = lp.iter
                okf, why = False, canon(it)

                def filtered_set(name_node) -> bool:
                    """every definition of the local reaching the loop is a call of the candidate filter."""
                    defs = reaching_assignments(prog, fn, name_node.id, lp)
                    return bool(defs) and all(isinstance(d, ast.Call) and any(t is R.filter_fn for t in prog.resolve_call(fn, d) if isinstance(t, FunctionInfo)) for d in defs)

                if isinstance(it, ast.Name) and filtered_set(it):
                    okf, why = True, "initial design: iteration over the rows of <filtered set>"
                elif call_name(it) == "range" and len(it.args) == 1:
                    a = it.args[0]
                    a_full = a
                    for _ in range(3):  # n = len(u1); for i in range(n)
                        if isinstance(a_full, ast.Name):
                            dd = reaching_assignments(prog, fn, a_full.id, lp)
                            if len(dd) == 1:
                                a_full = dd[0]
                                continue
                        break
                    inner = None
                    if call_name(a_full) == "len" and a_full.args and isinstance(a_full.args[0], ast.Name):
                        inner = a_full.args[0]
                    elif isinstance(a_full, ast.Subscript) and isinstance(a_full.value, ast.Attribute) and a_full.value.attr == "shape" and isinstance(a_full.value.value, ast.Name) and const_num(a_full.slice) == 0:
                        inner = a_full.value.value
                    if inner is not None:
                        okf = filtered_set(inner)
                        why = "initial design: range(len(<filtered set>))"
                    elif canon(a_full) == "OPT[noise_final_samples]":
                        okf, why = True, "final sampling: range(options['noise_final_samples'])"
                ctx.check(okf, fn, lp, why, f"an evaluating for-loop iterates over {canon(it)}, which is neither the filtered initial design nor the reserved final samples: the evaluation budget can be exceeded", construct=f"evaluating for over {canon(it)}")
                continue
            # while loop
            hdr = cfg.head_of(lp)
            conj = [c for c, pol in conjuncts(lp.test, True) if pol]

            def invariant_expand(e, depth=0):
                """locals bound before the loop to option values (``max_fun_evals = self.options['max_fun_evals']``) stand for
                those options as long as the loop stores neither; a local bound to the evaluation counter (or to any other
                state the loop's evaluations change) is *not* expanded - it is stale after the first evaluation"""
                import copy as _cp

                stored_in_loop = {canon(t_) for t_, v_, s_, k_ in iter_stores(lp)} | {t_.id for t_, v_, s_, k_ in iter_stores(lp) if isinstance(t_, ast.Name)}

                class X(ast.NodeTransformer):
                    def visit_Name(self, n_):
                        if isinstance(n_.ctx, ast.Load) and n_.id not in stored_in_loop and depth < 3:
                            dd = reaching_assignments(prog, fn, n_.id, lp)
                            if len(dd) == 1 and dd[0] is not None:
                                c_ = canon(dd[0])
                                reads_state = any(tok in c_ for tok in ("LOG.", "OS[", "self.function_logger", "self.optim_state"))
                                if not reads_state and ("OPT[" in c_ or c_.replace(".", "").replace("self", "").isidentifier() or const_num(dd[0]) is not None) and c_ not in stored_in_loop:
                                    return invariant_expand(_cp.deepcopy(dd[0]), depth + 1)
                        return n_

                return X().visit(_cp.deepcopy(e))

            conj = [invariant_expand(c) for c in conj]
            verdicts = [is_budget_continue(c) for c in conj]
            stale = [n_.id for c in conj for n_ in ast.walk(c) if isinstance(n_, ast.Name) and any("LOG.func_count" in canon(d_) for d_ in reaching_assignments(prog, fn, n_.id, lp) if d_ is not None)]
            if True not in verdicts and stale:
                ctx.fail(fn, lp, f"the loop's budget test reads the local '{stale[0]}', a copy of the evaluation counter taken before the loop: the evaluations made inside the loop do not advance it, so the loop runs past max_fun_evals",
                         construct=f"stale evaluation counter {stale[0]} in loop test")
                continue
            if True in verdicts:
                ctx.ok(fn, lp, "while ... and func_count < max_fun_evals ...")
                continue
            if False in verdicts:
                bad = conj[verdicts.index(False)]
                ctx.fail(fn, lp, f"the loop's budget conjunct is '{canon(bad)}', not func_count < max_fun_evals: the loop admits an evaluation beyond the budget or stops early", construct=f"budget conjunct {canon(bad)}")
                continue
            # flag-controlled loop: unconditional tail test
            flag = None
            for c, pol in conjuncts(lp.test, True):
                if isinstance(c, ast.Name) and not pol:
                    flag = c.id
            if flag is None:
                ctx.fail(fn, lp, "an evaluating while-loop has neither a budget conjunct nor an exit flag", construct=f"while {canon(lp.test)[:60]}")
                continue
            tail = None
            for node in ast.walk(lp):
                if isinstance(node, ast.If) and is_budget_stop(node.test) is not None:
                    tail = node
            if tail is None:
                ctx.fail(fn, lp, "the main loop has no test comparing func_count with max_fun_evals", construct="<missing budget test in main loop>")
                continue
            if not is_budget_stop(tail.test):
                ctx.fail(fn, tail, f"the main loop's budget test is '{canon(tail.test)}', not func_count >= max_fun_evals", construct=f"budget test {canon(tail.test)}")
                continue
            sets = [s for s in tail.body if isinstance(s, ast.Assign) and canon(s.targets[0]) == flag and isinstance(s.value, ast.Constant) and s.value.value is True]
            tn = cfg.head_of(tail)
            # unconditional in the body: every path from the loop header (body entry) back to the header passes a budget test
            # (the chain of stopping tests may be written as if / elif, then each copy counts) - or has already decided to stop
            avoid_ = {tn.id}
            for node in ast.walk(lp):
                if isinstance(node, ast.If) and is_budget_stop(node.test) and cfg.head_of(node) is not None:
                    avoid_.add(cfg.head_of(node).id)
                if isinstance(node, ast.Assign) and len(node.targets) == 1 and canon(node.targets[0]) == flag and isinstance(node.value, ast.Constant) and node.value.value is True and cfg.node_of(node) is not None:
                    avoid_.add(cfg.node_of(node).id)
            body_entry = cfg.succ(hdr.id, "T")
            bypass = any(hdr.id in cfg.reachable(b, avoiding=avoid_) for b in body_entry if b not in avoid_)
            conts = [n for n in ast.walk(lp) if isinstance(n, ast.Continue)]
            if not sets:
                ctx.fail(fn, tail, "the budget test does not set the loop's exit flag", construct="budget test without exit flag")
            elif bypass or conts:
                ctx.fail(fn, tail, "an iteration of the main loop can return to the loop header without passing the budget test", construct="budget test bypass")
            else:
                ctx.ok(fn, tail, f"unconditional tail test func_count >= max_fun_evals sets {flag}")
            # the flag is only set to True inside the loop
            true_nodes = {cfg.node_of(s_).id for t_, v_, s_, k_ in iter_stores(lp) if isinstance(t_, ast.Name) and t_.id == flag and isinstance(v_, ast.Constant) and v_.value is True and cfg.node_of(s_) is not None}
            for t, v, s, k in iter_stores(lp):
                if isinstance(t, ast.Name) and t.id == flag:
                    if isinstance(v, ast.Constant) and v.value is False:
                        # harmless when the flag is known to be False there: the loop test holds at the body entry and no
                        # 'flag = True' can execute between the body entry and this store
                        sn_ = cfg.node_of(s)
                        tainted = set()
                        for tn_ in true_nodes:
                            tainted |= cfg.reachable(tn_, avoiding={hdr.id})
                        if sn_ is not None and sn_.id not in tainted:
                            ctx.ok(fn, s, f"{flag} = False where it is False already (start of the stopping tests)")
                            continue
                    ctx.check(isinstance(v, ast.Constant) and v.value is True, fn, s, f"{flag} only set to True in the loop", f"the exit flag {flag} can be reset inside the loop", construct=f"{flag} <- {canon(v)}")

    # ------------------------------------------------------------------ R4
    ctx.rule("R4", "budget reserve for the final samples and design-size cap", floor=3)
    import itertools

    import sympy as sp

    from ..symb import Translator, Untranslatable

    nfs = key_stores(prog, "OPT", "noise_final_samples")
    mx = key_stores(prog, "OPT", "max_fun_evals")
    host = None
    for fn, t, v, s, k in mx:
        host = fn
    if host is None:
        ctx.fail(opt, opt.node, "the final re-sampling of noisy targets is not reserved from the budget: options['max_fun_evals'] is never reduced", construct="<missing final-sample reserve>")
    else:
        stmts = sorted([s for fn, t, v, s, k in nfs + mx if fn is host], key=pos)
        # locals the stores are computed from (n = min(a, b); options[..] = n): their assignments in the same block,
        # by backward closure over the names used
        blk = None
        for p_ in prog.ancestors(stmts[0]):
            for fld in ("body", "orelse"):
                b_ = getattr(p_, fld, None)
                if isinstance(b_, list) and any(x is stmts[0] for x in b_):
                    blk = b_
            if blk is not None:
                break
        if blk is not None:
            need = {n.id for s_ in stmts for n in ast.walk(s_) if isinstance(n, ast.Name) and isinstance(n.ctx, ast.Load)}
            extra = []
            last_ln = max(pos(s_) for s_ in stmts)
            for s_ in reversed([x for x in blk if isinstance(x, ast.Assign) and pos(x) <= last_ln and not any(x is y for y in stmts)]):
                tg = [t.id for t in s_.targets if isinstance(t, ast.Name)]
                if tg and set(tg) & need:
                    extra.append(s_)
                    need |= {n.id for n in ast.walk(s_.value) if isinstance(n, ast.Name)}
            stmts = sorted(stmts + extra, key=pos)
        try:
            tr = Translator(positive=["OPT[noise_final_samples]", "OPT[max_fun_evals]", "LOG.func_count"])
            M, N, C = tr.sym("OPT[max_fun_evals]"), tr.sym("OPT[noise_final_samples]"), tr.sym("LOG.func_count")
            tr.run(stmts)
            B = tr.env.get("OPT[max_fun_evals]", M)
            N1 = tr.env.get("OPT[noise_final_samples]", N)
            Nref = sp.Min(N, M - C)
            Bref = M - Nref
            badB = badN = None
            for m_, n_, c_ in itertools.product(range(1, 13), range(0, 13), range(1, 13)):
                if c_ > m_:
                    continue
                sub = {M: m_, N: n_, C: c_}
                if badB is None and sp.simplify(B.subs(sub) - Bref.subs(sub)) != 0:
                    badB = (m_, n_, c_, B.subs(sub), Bref.subs(sub))
                if badN is None and sp.simplify(N1.subs(sub) - Nref.subs(sub)) != 0:
                    badN = (m_, n_, c_, N1.subs(sub), Nref.subs(sub))
            if badB is not None:
                m_, n_, c_, got, want = badB
                ctx.fail(host, stmts[-1], f"the main-loop budget after the reserve is {B}, which differs from max_fun_evals - min(noise_final_samples, max_fun_evals - func_count): e.g. max_fun_evals={m_}, noise_final_samples={n_}, func_count={c_} gives {got} instead of {want}", construct=f"reserve arithmetic B={B}")
            else:
                ctx.ok(host, stmts[-1], f"main-loop budget = {B} == max - min(nfs, max - count) on a 12x13x12 grid of integer cases")
            if badN is not None:
                # unclamped number of final samples: only safe if the final block cannot run when the clamp would bite
                floop = [n for n in ast.walk(opt.node) if isinstance(n, ast.For) and call_name(n.iter) == "range" and n.iter.args and _deref_c(prog, opt, n.iter.args[0]) == "OPT[noise_final_samples]"]
                from ..terms import guard_canon as _gc

                g = _gc(prog, opt, floop[0]) if floop else []
                if "(0 < poll_iteration)" in g and badB is None:
                    ctx.note("noise_final_samples is not clamped to the remaining budget; harmless only because the final re-sampling is skipped for runs that end in iteration 0")
                    ctx.ok(host, stmts[-1], "unclamped final samples cannot run when the budget is smaller than design + samples (final block guarded by poll_iteration > 0)")
                else:
                    m_, n_, c_, got, want = badN
                    ctx.fail(host, stmts[-1], f"the number of final samples is {N1}, not min(noise_final_samples, max_fun_evals - func_count): with max_fun_evals={m_}, noise_final_samples={n_}, func_count={c_} the run makes {c_}+{got} > {m_} target calls", construct=f"final samples not clamped: {N1}")
            else:
                ctx.ok(host, stmts[0], "noise_final_samples clamped to the remaining budget")
        except Untranslatable as e:
            ctx.undecided(f"reserve arithmetic uses a construct the term translator does not know ({e})")
        for s_ in stmts:
            g = guard_canon(prog, host, s_)
            ctx.check(any("OS[uncertainty_handling_level]" in x for x in g), host, s_, "reserve only in noisy mode", "the reserve is not tied to the (possibly auto-detected) noisy mode held in optim_state['uncertainty_handling_level']", construct="reserve guard")
        # the guard must see the *detected* noise level: nothing that can still raise the level may run after the reserve
        writers = {fn for fn, t, v, s2_, k in key_stores(prog, "OS", "uncertainty_handling_level") if fn.cls is R.bads and fn.name != "__init__" and fn is not R.init_optim_state}
        hcfg = cfg_of(host)
        first = hcfg.node_of(stmts[0])
        for c, tg in prog.calls_in(host):
            late = [x for x in tg if isinstance(x, FunctionInfo) and (x in writers or writers & prog.reachable_from(x))]
            cn = hcfg.node_of(c)
            if late and first is not None and cn is not None and cn.id in hcfg.reachable(first.id):
                ctx.fail(host, c, f"{late[0].short}() can still raise optim_state['uncertainty_handling_level'] (noise detected at start-up) after the reserve for the final samples has been decided: an auto-detected noisy run re-samples without a reserve and exceeds max_fun_evals", construct=f"reserve decided before {late[0].name}")
        oc = [c for c, tg in prog.calls_in(opt) if any(isinstance(x, FunctionInfo) and (x is host or host in prog.reachable_from(x)) for x in tg)]
        cfgo = cfg_of(opt)
        loops = [n for n in cfgo.nodes if n.kind == "test" and isinstance(n.stmt, ast.While)]
        if oc and loops:
            ctx.check(cfgo.dominates(cfgo.node_of(oc[0]).id, loops[0].id), opt, oc[0], "reserve computed before the main loop", "the reserve is not computed before the main loop starts", construct="reserve after loop start")
        others = [(fn, s) for fn, t, v, s, k in nfs + mx if fn is not host]
        for fn, s_ in others:
            ctx.fail(fn, s_, "the evaluation budget / number of final samples is modified a second time elsewhere", construct=f"second budget store in {fn.short}")
    # design-size cap
    mesh = R.init_mesh
    sob = [(c, tg) for c, tg in prog.calls_in(mesh) if any(isinstance(x, FunctionInfo) and x.name == "init_sobol" for x in tg)]
    if not sob:
        ctx.missing(mesh, "call of the initial-design generator")
    else:
        c = sob[0][0]
        size = c.args[-1] if c.args else None
        okd = False
        if isinstance(size, ast.Name):
            for d in reaching_assignments(prog, mesh, size.id, c):
                if call_name(d) in ("np.minimum", "min") and len(d.args) == 2:
                    from ..terms import linear

                    from .common import deref_expr as _dx3

                    for a in d.args:
                        lt, lc2 = linear(_dx3(prog, mesh, a))  # the option may sit in a local
                        if lt == {"OPT[max_fun_evals]": Fraction(1)} and lc2 == -1:
                            okd = True
        ctx.check(okd, mesh, c, "design size = min(fun_eval_start, max_fun_evals - 1)", "the initial design is not capped by max_fun_evals - 1", construct="design size cap")

    # ------------------------------------------------------------------ R5
    ctx.rule("R5", "progress counters: search_count on every search path; iteration counter only after a poll; max_iter test iter >= max_iter - 1", floor=3)
    ss = R.search_step
    cfgs = cfg_of(ss)
    sc = [(t, v, s, k) for t, v, s, k in iter_stores(ss.node) if state_key(t) == ("OS", "search_count")]
    incs_s = [x for x in sc if x[3] == "aug" and isinstance(x[2].op, ast.Add) and const_num(x[1]) == 1]
    if len(incs_s) != 1:
        ctx.fail(ss, ss.node, f"the search step increments search_count {len(incs_s)} times (expected once)", construct=f"search_count increments {len(incs_s)}")
    else:
        n = cfgs.node_of(incs_s[0][2])
        ctx.check(cfgs.postdominates(n.id, cfgs.entry.id), ss, incs_s[0][2], "search_count += 1 on every path through the search step", "a search attempt (e.g. with an empty candidate set) can return without advancing search_count: polls are never forced and the run may not terminate",
                  construct="search_count increment bypass", witness=cfgs.describe_path(cfgs.find_path(cfgs.entry.id, cfgs.exit.id, avoiding={n.id}) or []))
    # resets of search_count only to 0 under the poll decision
    for fn, t, v, s, k in key_stores(prog, "OS", "search_count"):
        if fn is ss and k == "aug":
            continue
        if fn is opt:
            ctx.check(k == "assign" and const_num(v) == 0, fn, s, "search_count reset to 0 when a poll is due", "search_count is modified in the main loop other than by the reset to 0", construct=f"OS[search_count] <- {canon(v)}")
    cfgo = cfg_of(opt)
    loops = [n for n in cfgo.nodes if n.kind == "test" and isinstance(n.stmt, ast.While)]
    main = loops[0].stmt if loops else None
    if main is None:
        raise AnalysisError("optimize() has no while loop")
    # iteration counter = index of the history record block
    iter_names = set()
    for node in ast.walk(main):
        if isinstance(node, ast.Call) and isinstance(node.func, ast.Attribute) and node.func.attr == "record" and canon(node.func.value) == "HIST" and len(node.args) == 3 and isinstance(node.args[2], ast.Name):
            iter_names.add(node.args[2].id)
    if len(iter_names) != 1:
        ctx.undecided(f"iteration counter not identified (history record indices {sorted(iter_names)})")
    else:
        it = next(iter(iter_names))
        for t, v, s, k in iter_stores(main):
            if isinstance(t, ast.Name) and t.id == it:
                g = [canon(c, neg=not p) for c, p in guard_of(prog, opt, s)]
                okg = k == "aug" and const_num(v) == 1 and "do_poll_step" in g and any(x in ("not is_finished",) for x in g)
                ctx.check(okg, opt, s, f"{it} += 1 only after a poll and when not finished", f"the iteration counter {it} advances other than by one after a completed poll", construct=f"{it} update under {' & '.join(g[-3:])}")
        # max_iter test
        mi = None
        for node in ast.walk(main):
            if isinstance(node, ast.If) and "OPT[max_iter]" in canon(node.test):
                mi = node
        if mi is None:
            ctx.fail(opt, main, "the main loop has no max_iter test", construct="<missing max_iter test>")
        else:
            f = _form(mi.test)
            okm = f is not None and f[0] == {"OPT[max_iter]": Fraction(1), it: Fraction(-1)} and f[1] == -1
            sets = any(isinstance(s, ast.Assign) and isinstance(s.value, ast.Constant) and s.value.value is True for s in mi.body)
            ctx.check(okm and sets, opt, mi, f"stop when {it} >= max_iter - 1", f"the max_iter test '{canon(mi.test)}' is not '{it} >= max_iter - 1' (0-based index of the iteration just completed) or does not set the exit flag", construct=f"max_iter test {canon(mi.test)}")

    # ------------------------------------------------------------------ R6
    ctx.rule("R6", "termination messages are assigned only under the guard of the condition they name", floor=4)
    table = {
        "max_fun_evals": lambda t: is_budget_stop(t) is True,
        "max_iter": lambda t: "OPT[max_iter]" in canon(t),
        "tol_mesh": lambda t: canon(t) == "(OS[mesh_size] < OS[tol_mesh])",
        "tol_fun": lambda t: bool(re.fullmatch(r"\(self\.f_q_historic_improvement < OPT\[tol_fun\]\)", canon(t))),
    }
    msg_var = None
    for fn, t, v, s, k in key_stores(prog, "OS", "termination_msg"):
        if isinstance(v, ast.Name):
            msg_var = v.id
            tm_store = s
    if msg_var is None:
        ctx.missing(opt, "store of optim_state['termination_msg'] from the message variable")
    else:
        seen = set()
        for t, v, s, k in iter_stores(main):
            if isinstance(t, ast.Name) and t.id == msg_var and isinstance(v, ast.Constant) and isinstance(v.value, str) and v.value:
                m = re.search(r"options\['(\w+)'\]", v.value)
                named = m.group(1) if m else None
                par = prog.parent(s)
                if not isinstance(par, ast.If):
                    ctx.fail(opt, s, "a termination message is assigned outside a test of a stopping condition", construct=f"message for {named}")
                    continue
                cond = [name for name, pred in table.items() if pred(par.test)]
                if not cond:
                    # the test may read a flag holding the condition (a predicate helper, inlined)
                    from .common import deref_expr as _dx6

                    dt = _dx6(prog, opt, par.test)
                    cond = [name for name, pred in table.items() if pred(dt)]
                if not cond:
                    ctx.fail(opt, s, f"a termination message is assigned under '{canon(par.test)[:70]}', which is none of the four stopping conditions (budget, max_iter, tol_mesh, stall)", construct=f"message under {canon(par.test)[:60]}")
                    continue
                sets = any(isinstance(x, ast.Assign) and isinstance(x.value, ast.Constant) and x.value.value is True for x in par.body)
                seen.add(cond[0])
                okname = named is None or named not in table or named == cond[0]
                ctx.check(okname and sets, opt, s, f"message of the {cond[0]} stop under its own test",
                          f"the message naming options['{named}'] is assigned under the {cond[0]} stopping test '{canon(par.test)[:60]}' (or that branch does not stop the run)", construct=f"message {named} under {cond[0]} test")
        for name in table:
            if name not in seen:
                ctx.fail(opt, main, f"the {name} stopping condition sets no termination message", construct=f"<missing message for {name}>")
        # stored after the last message assignment in the body
        # (CFG order, not line numbers: statements inlined from a helper keep the helper's line numbers)
        hdr_main = cfgo.head_of(main)
        tmn = cfgo.node_of(tm_store)
        later = False
        if tmn is not None and hdr_main is not None:
            after = cfgo.reachable(tmn.id, avoiding={hdr_main.id}) - {tmn.id}
            for t, v, s, k in iter_stores(main):
                if isinstance(t, ast.Name) and t.id == msg_var:
                    n_ = cfgo.node_of(s)
                    if n_ is not None and n_.id in after:
                        later = True
        ctx.check(not later, opt, tm_store, "termination_msg stored after all stopping tests", "optim_state['termination_msg'] is stored before a later stopping test can change the message", construct="termination_msg stored early")
    ctx.assume("implicit exceptions are not modelled; the user's target and constraint functions terminate")
    ctx.assume("liveness (a search spree implies evaluations) is value dependent and not decided; R3-R5 are its necessary conditions")


def check_thorough(ctx):
    """bounded enumeration of acyclic paths through the evaluating loops; each
    path is re-checked to pass the budget exit (R3) and, in the search step, the
    search_count increment (R5)."""
    from ..thorough import loop_path_stats
    import networkx as nx

    prog = ctx.prog
    R = roles_of(prog)
    stats = {}
    for fn in (R.optimize, R.poll_step, R.init_mesh):
        stats[fn.short] = loop_path_stats(prog, fn, cap=10000)
    ctx.extra["acyclic_paths_through_loop_bodies"] = stats
    ss = R.search_step
    cfg = cfg_of(ss)
    inc = [s for t, v, s, k in iter_stores(ss.node) if state_key(t) == ("OS", "search_count") and k == "aug"]
    ctx.rule("T1", "thorough: every enumerated path through the search step passes search_count += 1", floor=1)
    if inc:
        n = cfg.node_of(inc[0]).id
        total = bad = 0
        for p in nx.all_simple_paths(cfg.g, cfg.entry.id, cfg.exit.id):
            total += 1
            if n not in p:
                bad += 1
            if total >= 10000:
                break
        ctx.extra["search_step_paths_enumerated"] = total
        ctx.check(bad == 0, ss, inc[0], f"{total} entry->exit paths of the search step all pass the increment", f"{bad} of {total} enumerated paths through the search step skip search_count += 1", construct="search_count increment bypass (path enumeration)")
