"""Shared machinery for the point-provenance packs (C01, C02, C17, C18):

* ``FilterSummary`` -- one analysis of the candidate filter: its stages in
  dataflow order (box clamp / box drop, de-duplication, evaluated-row removal,
  constraint selection) with their polarity.
* ``PointAnalysis`` -- forward must-tag dataflow for points:
    BOX   inside the internal hard box (or the inward-rounded search box)
    FEAS  passed the user's constraint callable
    UNIQ  pairwise distinct rows, NEW not yet evaluated
  Sources: results of the candidate filter (tags depend on the arguments at
  the call site), point slots (inductive invariant, enforced at every store),
  log rows and history iterates.  Parameters of package functions are seeded
  from all package call sites.
"""
from __future__ import annotations

import ast
from typing import Dict, FrozenSet, List, Optional, Set, Tuple

from ..cfg import cfg_of
from ..flow import EMPTY, BasePolicy, TagFlow, path_of
from ..model import AnalysisError, FunctionInfo, bind_args, param_default
from ..quant import Normaliser, show
from ..terms import call_name, canon, const_num, match_clamp_all, state_key
from .common import iter_stores, kw, reaching_assignments, self_attr_of, store_base

ALL_TAGS = frozenset({"BOX", "FEAS", "UNIQ", "FILT"})
POINT_SLOTS = {"self.u", "self.u_best", "OS[u]"}
HARD_BOUNDS = {("self.lower_bounds", "self.upper_bounds"), ("OS[lb]", "OS[ub]"), ("lb", "ub")}
SEARCH_BOUNDS = {("OS[lb_search]", "OS[ub_search]")}


class Stage:
    def __init__(self, kind, stmt, detail=None, ok=True, why=""):
        self.kind, self.stmt, self.detail, self.ok, self.why = kind, stmt, detail or {}, ok, why

    def __repr__(self):
        return f"<{self.kind}@{getattr(self.stmt, 'lineno', '?')} ok={self.ok} {self.why}>"


class FilterSummary:
    """Analyses the candidate filter once."""

    def __init__(self, prog, R):
        self.prog = prog
        self.R = R
        self.fn: FunctionInfo = R.filter_fn
        fn = self.fn
        self.params = list(fn.params)
        # parameter roles by how BADS calls it: (rows, lo, hi, tol, logger, proj, cons)
        self.p_rows, self.p_lo, self.p_hi = self.params[0], self.params[1], self.params[2]
        self.p_logger = None
        self.p_cons = None
        self.p_proj = None
        for caller, call in prog.callers_of(fn):
            if caller.cls is R.bads:
                b = bind_args(fn, call)
                for p, e in b.items():
                    c = canon(e)
                    if c == "LOG":
                        self.p_logger = p
                    elif c == f"self.{R.cons_attr}":
                        self.p_cons = p
                    elif isinstance(e, ast.Constant) and isinstance(e.value, bool):
                        self.p_proj = p
        if self.p_cons is None or self.p_logger is None:
            raise AnalysisError("candidate filter is no longer called with the logger and the constraint callable")
        rets = [n for n in ast.walk(fn.node) if isinstance(n, ast.Return) and n.value is not None]
        if not rets:
            raise AnalysisError("candidate filter returns nothing")
        self.rets = rets
        self.ret = rets[-1]
        self.result = rets[-1].value.id if isinstance(rets[-1].value, ast.Name) else self.p_rows
        self.stages: List[Stage] = []
        self._stage_of_value: Dict[int, Stage] = {}
        self.chain: Set[str] = set()
        self._classify()
        self._flow = None

    # ------------------------------------------------------------------
    def _defs_of(self, name, at):
        return reaching_assignments(self.prog, self.fn, name, at)

    def _single_def(self, e, at):
        if isinstance(e, ast.Name):
            d = self._defs_of(e.id, at)
            if len(d) == 1:
                return d[0]
        return e

    # ---- the 'array chain': the rows parameter and every local derived from it by copies, clamps and row selections
    def _base_of(self, v) -> Optional[str]:
        """name of the chain variable ``v`` is computed from (copy / clamp / row selection), else None."""
        inner = v
        while True:
            if isinstance(inner, ast.Call) and isinstance(inner.func, ast.Attribute) and inner.func.attr in ("copy", "astype") and not isinstance(inner.func.value, ast.Call):
                inner = inner.func.value
            elif isinstance(inner, ast.Call) and call_name(inner) in ("np.copy", "np.atleast_2d", "np.asarray", "np.array") and inner.args:
                inner = inner.args[0]
            else:
                break
        if isinstance(inner, ast.Name) and inner.id in self.chain:
            return inner.id
        if isinstance(inner, ast.Subscript) and isinstance(inner.value, ast.Name) and inner.value.id in self.chain:
            return inner.value.id
        if isinstance(inner, ast.Call) and call_name(inner) == "np.compress" and len(inner.args) >= 2 and isinstance(inner.args[1], ast.Name) and inner.args[1].id in self.chain:
            return inner.args[1].id
        if isinstance(inner, ast.Call) and call_name(inner) in ("np.minimum", "np.maximum", "np.clip", "np.fmin", "np.fmax"):
            for a in inner.args:
                b = self._base_of(a)
                if b is not None:
                    return b
        return None

    def _classify(self):
        fn = self.fn
        self.chain = {self.p_rows}
        changed = True
        while changed:
            changed = False
            for t, v, s, k in iter_stores(fn.node):
                if isinstance(t, ast.Name) and t.id not in self.chain and v is not None and k == "assign" and self._base_of(v) is not None:
                    self.chain.add(t.id)
                    changed = True
        stores = [(getattr(s, "_ord", s.lineno), t.id, v, s) for t, v, s, k in iter_stores(fn.node) if isinstance(t, ast.Name) and t.id in self.chain and v is not None and k == "assign"]
        stores.sort(key=lambda x: x[0])
        for _l, tname, v, s in stores:
            base = self._base_of(v)
            if base is None:
                st = Stage("other", s, {"value": canon(v)}, False, f"result rows are re-computed by {canon(v)[:60]} (not a clamp and not a row selection)")
            else:
                st = self._classify_one(v, s, base)
            st.base, st.target = base, tname
            self._stage_of_value[id(v)] = st
            if st.kind != "alias":
                self.stages.append(st)

    def _classify_one(self, v, s, base) -> Stage:
        res = base
        self._cur_base = base
        # ---- box clamp
        for val, lo, hi in match_clamp_all(v) if isinstance(v, ast.Call) else []:
            if canon(val) == base:
                ok = canon(lo) == self.p_lo and canon(hi) == self.p_hi
                return Stage("box-clamp", s, {"value": canon(val), "lo": canon(lo), "hi": canon(hi)}, ok,
                             "" if ok else f"clamp bounds are ({canon(lo)}, {canon(hi)}), expected ({self.p_lo}, {self.p_hi})")
        if isinstance(v, ast.Call) and call_name(v) in ("np.minimum", "np.maximum", "np.fmin", "np.fmax") and any(canon(a) == base for a in v.args):
            return Stage("box-clamp", s, {}, False, "one-sided clamp: candidates are projected onto one bound only")
        # ---- selection of rows of the base / plain copy
        inner = v
        while True:
            if isinstance(inner, ast.Call) and isinstance(inner.func, ast.Attribute) and inner.func.attr in ("copy", "astype"):
                inner = inner.func.value
            elif isinstance(inner, ast.Call) and call_name(inner) in ("np.copy", "np.atleast_2d", "np.asarray", "np.array") and inner.args:
                inner = inner.args[0]
            else:
                break
        if isinstance(inner, ast.Name) and inner.id == base:
            return Stage("alias", s, {}, True, "")
        if isinstance(inner, ast.Subscript) and canon(inner.value) == base:
            sel = inner.slice
            if isinstance(sel, ast.Tuple):
                sel = sel.elts[0]
            return self._classify_selection(sel, s, base)
        # np.compress(mask, rows, axis=0) is rows[mask]
        if isinstance(inner, ast.Call) and call_name(inner) == "np.compress" and len(inner.args) >= 2 and canon(inner.args[1]) == base:
            ax = kw(inner, "axis") or (inner.args[2] if len(inner.args) > 2 else None)
            if ax is not None and const_num(ax) == 0:
                return self._classify_selection(inner.args[0], s, base)
        return Stage("other", s, {"value": canon(v)}, False, f"result rows are re-computed by {canon(v)[:60]} (not a clamp and not a row selection)")

    def _classify_selection(self, sel, s, base) -> Stage:
        nz = Normaliser(lambda n: self._mask_def(n, s))
        # an index vector thinned with np.compress(mask, idx) is idx[mask] (index vectors from np.unique are 1-D)
        if isinstance(sel, ast.Call) and call_name(sel) == "np.compress" and len(sel.args) == 2 and (kw(sel, "axis") is None or const_num(kw(sel, "axis")) == 0):
            sel = ast.copy_location(ast.Subscript(value=sel.args[1], slice=sel.args[0], ctx=ast.Load()), sel)
        # negated out-of-box mask
        neg = False
        e = sel
        if isinstance(e, ast.UnaryOp) and isinstance(e.op, (ast.Invert, ast.Not)):
            neg, e = True, e.operand
        d = self._single_def(e, s)
        # (a') the same mask written from the inside: ~any(U > hi, 1) & ~any(U < lo, 1) (De Morgan, exact row-wise)
        atoms = self._conj_of_negs(sel, False, s)
        if atoms:
            joined = atoms[0]
            for a_ in atoms[1:]:
                joined = ast.BinOp(left=joined, op=ast.BitOr(), right=a_)
            box_in = self._box_mask(joined, s)
            if box_in is not None:
                sides, elementwise = box_in
                want = {("<", self.p_hi, self.p_rows), ("<", self.p_rows, self.p_lo)}
                ok = sides == want and not elementwise
                return Stage("box-drop", s, {"sides": sorted(sides)}, ok, "" if ok else f"out-of-box mask tests {sorted(sides)}, expected both U > hi and U < lo")
        # (a) box-drop: mask = any(U > hi, axis=1) | any(U < lo, axis=1)
        box = self._box_mask(d, s)
        if box is not None:
            sides, elementwise = box
            want = {("<", self.p_hi, self.p_rows), ("<", self.p_rows, self.p_lo)}
            ok = neg and sides == want and not elementwise
            why = ""
            if not neg:
                why = "rows *inside* the out-of-box mask are kept (missing negation)"
            elif sides != want:
                why = f"out-of-box mask tests {sorted(sides)}, expected both U > hi and U < lo"
            return Stage("box-drop", s, {"sides": sorted(sides)}, ok, why)
        # (b) de-duplication: np.sort(idx) / idx with idx from np.unique(X, axis=0, return_index=True)
        name = e
        sorted_ = False
        if isinstance(name, ast.Call) and call_name(name) == "np.sort" and name.args:
            sorted_ = True
            name = name.args[0]
        sub = None
        u = None
        if isinstance(name, ast.Subscript) and isinstance(name.value, ast.Name):
            # rows[idx[idx < n]] written without a temporary for the index vector
            sub = name
            u = self._unique_source(name.value, s)
            if u is not None:
                src, call = u
                srcd = self._single_def(src, s) if isinstance(src, ast.Name) else src
                if isinstance(srcd, ast.Call) and call_name(srcd) in ("np.vstack", "np.concatenate", "np.append"):
                    return self._classify_removal(srcd, sub, s, base)
        if isinstance(name, ast.Name):
            u = self._unique_source(name, s)
            if u is None:
                nd = self._single_def(name, s)
                if isinstance(nd, ast.Call) and call_name(nd) == "np.sort" and nd.args:
                    sorted_ = True
                    if isinstance(nd.args[0], ast.Name) and self._unique_source(nd.args[0], s) is not None:
                        u = self._unique_source(nd.args[0], s)  # rows = np.sort(idx); X[rows]
                    nd = nd.args[0] if not isinstance(nd.args[0], ast.Name) else self._single_def(nd.args[0], s)
                if isinstance(nd, ast.Subscript) and isinstance(nd.value, ast.Name):
                    sub = nd
                    u = self._unique_source(nd.value, s)
            if u is not None:
                src, call = u
                srcd = self._single_def(src, s) if isinstance(src, ast.Name) else src
                if canon(src) == base and sub is None:
                    axis0 = kw(call, "axis") is not None and const_num(kw(call, "axis")) == 0
                    return Stage("dedupe", s, {"order_restored": sorted_}, axis0, "" if axis0 else "np.unique without axis=0 flattens the rows")
                # (c) removal of evaluated rows through unique of a stack
                if isinstance(srcd, ast.Call) and call_name(srcd) in ("np.vstack", "np.concatenate", "np.append"):
                    return self._classify_removal(srcd, sub if sub is not None else name, s, base)
        # (d) constraint selection: idx = C <= 0 ; C = cons(X) ; X = inverse(res)
        cs = self._constraint_mask(ast.UnaryOp(op=ast.Invert(), operand=d) if neg else d, s)
        if cs is not None:
            return cs
        return Stage("select-unknown", s, {"selector": canon(sel)}, True, "row selection by an unrecognised selector (rows remain a subset)")

    def _mask_def(self, name: ast.Name, at):
        d = self._defs_of(name.id, at)
        return d[0] if len(d) == 1 else None

    def _conj_of_negs(self, e, neg, at, depth=0):
        """atoms a_i such that (not e if neg else e) == AND_i not a_i, or None."""
        if depth > 6:
            return None
        if isinstance(e, ast.Name):
            d = self._single_def(e, at)
            if d is e:
                return [e] if neg else None
            e = d
        if isinstance(e, ast.UnaryOp) and isinstance(e.op, (ast.Invert, ast.Not)):
            return self._conj_of_negs(e.operand, not neg, at, depth + 1)
        if isinstance(e, ast.Call) and call_name(e) in ("np.invert", "np.logical_not") and len(e.args) == 1:
            return self._conj_of_negs(e.args[0], not neg, at, depth + 1)
        if isinstance(e, ast.Call) and call_name(e) == "np.all" and e.args:
            # np.all(~c, axis) is ~np.any(c, axis), row by row and NaN included
            inner = e.args[0]
            if isinstance(inner, ast.Name):
                d_ = self._single_def(inner, at)
                inner = d_ if d_ is not inner else inner
            neg_in = None
            if isinstance(inner, ast.UnaryOp) and isinstance(inner.op, (ast.Invert, ast.Not)):
                neg_in = inner.operand
            elif isinstance(inner, ast.Call) and call_name(inner) in ("np.invert", "np.logical_not") and len(inner.args) == 1:
                neg_in = inner.args[0]
            if neg_in is not None:
                import copy as _cp

                any_call = _cp.copy(e)
                any_call.func = ast.Attribute(value=ast.Name(id="np", ctx=ast.Load()), attr="any", ctx=ast.Load())
                any_call.args = [neg_in] + list(e.args[1:])
                return self._conj_of_negs(any_call, not neg, at, depth + 1)
        parts, kind = None, None
        if isinstance(e, ast.BinOp) and isinstance(e.op, (ast.BitOr, ast.BitAnd)):
            parts, kind = [e.left, e.right], "or" if isinstance(e.op, ast.BitOr) else "and"
        elif isinstance(e, ast.Call) and call_name(e) in ("np.logical_or", "np.logical_and") and len(e.args) == 2:
            parts, kind = list(e.args), "or" if call_name(e) == "np.logical_or" else "and"
        elif isinstance(e, ast.BoolOp):
            parts, kind = list(e.values), "or" if isinstance(e.op, ast.Or) else "and"
        if parts is not None and kind == ("or" if neg else "and"):
            out = []
            for p_ in parts:
                r = self._conj_of_negs(p_, neg, at, depth + 1)
                if r is None:
                    return None
                out += r
            return out
        if parts is not None:
            return None
        return [e] if neg else None

    def _box_mask(self, d, at=None):
        """-> (set of (rel, a, b) sides, elementwise?) when d is an out-of-box mask."""
        parts = []

        def split(e):
            if isinstance(e, ast.BinOp) and isinstance(e.op, ast.BitOr):
                split(e.left)
                split(e.right)
            elif isinstance(e, ast.Call) and call_name(e) == "np.logical_or" and len(e.args) == 2:
                split(e.args[0])
                split(e.args[1])
            elif isinstance(e, ast.BoolOp) and isinstance(e.op, ast.Or):
                for v in e.values:
                    split(v)
            elif isinstance(e, ast.Name) and at is not None and self._single_def(e, at) is not e:
                split(self._single_def(e, at))  # one side of the mask kept in a local
            elif isinstance(e, ast.Call) and call_name(e) == "np.any" and e.args and (
                (isinstance(e.args[0], ast.BinOp) and isinstance(e.args[0].op, ast.BitOr)) or (isinstance(e.args[0], ast.Call) and call_name(e.args[0]) == "np.logical_or" and len(e.args[0].args) == 2)
            ):
                # any(A | B, axis) = any(A, axis) | any(B, axis)
                inner = e.args[0]
                for sub in ((inner.left, inner.right) if isinstance(inner, ast.BinOp) else inner.args):
                    split(ast.copy_location(ast.Call(func=e.func, args=[sub] + list(e.args[1:]), keywords=e.keywords), e))
            else:
                parts.append(e)

        split(d)
        sides = set()
        elementwise = False
        for p in parts:
            red = None
            if isinstance(p, ast.Call) and call_name(p) == "np.any" and p.args:
                red = p.args[0]
                ax = kw(p, "axis") or (p.args[1] if len(p.args) > 1 else None)
                if ax is None or const_num(ax) != 1:
                    elementwise = True
            elif isinstance(p, ast.Call) and isinstance(p.func, ast.Attribute) and p.func.attr == "any":
                red = p.func.value
            if red is None or not (isinstance(red, ast.Compare) and len(red.ops) == 1):
                return None
            l, r = canon(red.left), canon(red.comparators[0])
            op = type(red.ops[0])
            if op in (ast.Gt, ast.GtE):
                l, r = r, l
                op = ast.Lt if op is ast.Gt else ast.LtE
            if op not in (ast.Lt, ast.LtE):
                return None
            sides.add(("<" if op is ast.Lt else "<=", l, r))
        names = {x for s_ in sides for x in s_[1:]}
        if not ({self.p_lo, self.p_hi} & names):
            return None
        return sides, elementwise

    def _unique_source(self, idx_expr, at):
        """idx (a Name bound by ``_, idx = np.unique(X, axis=0, return_index=True)``)
        -> (X, call)."""
        if not isinstance(idx_expr, ast.Name):
            return None
        # definitions of the index name that reach ``at`` (CFG, not line numbers: inlined statements keep the line numbers
        # of the helper they came from)
        reaching = {id(v) for v in self._defs_of(idx_expr.id, at)}
        hits = []
        for t, v, s, k in iter_stores(self.fn.node):
            if not (isinstance(t, ast.Name) and t.id == idx_expr.id and id(v) in reaching):
                continue
            if isinstance(v, ast.Subscript) and isinstance(v.value, ast.Call) and call_name(v.value) == "np.unique" and const_num(v.slice) == 1 and k == "assign" and v.value.args:
                ri = kw(v.value, "return_index")
                if isinstance(ri, ast.Constant) and ri.value is True:
                    hits.append((v.value.args[0], v.value))
                    continue
            if isinstance(v, ast.Call) and call_name(v) == "np.unique" and k == "assign[1]" and v.args:
                ri = kw(v, "return_index")
                if isinstance(ri, ast.Constant) and ri.value is True:
                    hits.append((v.args[0], v))
                    continue
            return None  # some reaching definition is not a unique-index vector
        if len(hits) != 1:
            return None
        return hits[0]

    def _origin(self, e, at, depth=0) -> str:
        """'cand' if e derives from the result rows, 'log' if from the log's X."""
        if depth > 5:
            return "?"
        c = canon(e)
        if "LOG.X" in c or (self.p_logger and f"{self.p_logger}.X" in c):
            return "log"
        names = {n.id for n in ast.walk(e) if isinstance(n, ast.Name)}
        if names & self.chain:
            return "cand"
        for n in names:
            for d in self._defs_of(n, at):
                o = self._origin(d, at, depth + 1)
                if o != "?":
                    return o
        return "?"

    def _classify_removal(self, stack_call, sel_expr, s, base=None) -> Stage:
        args = stack_call.args[0].elts if stack_call.args and isinstance(stack_call.args[0], (ast.Tuple, ast.List)) else stack_call.args[:2]
        if len(args) != 2:
            return Stage("removal", s, {}, None, "stack of other than two blocks")
        first, second = args
        o1, o2 = self._origin(first, s), self._origin(second, s)
        detail = {"first": o1, "second": o2}
        # selection on the index vector
        if isinstance(sel_expr, ast.Subscript) and isinstance(sel_expr.slice, ast.Compare) and len(sel_expr.slice.ops) == 1:
            cmp_ = sel_expr.slice
            op = type(cmp_.ops[0])
            rhs = cmp_.comparators[0]
            if isinstance(rhs, ast.Name):
                rhs = self._single_def(rhs, s)  # n = len(candidates) kept in a local
            n_of, n_origin = None, "?"
            inner = None
            if isinstance(rhs, ast.Call) and call_name(rhs) == "len" and rhs.args:
                inner = rhs.args[0]
            elif isinstance(rhs, ast.Subscript) and isinstance(rhs.value, ast.Attribute) and rhs.value.attr == "shape" and const_num(rhs.slice) == 0:
                inner = rhs.value.value
            if inner is not None:
                n_of = canon(inner)
                n_origin = self._origin(inner, s)
            detail.update({"cmp": op.__name__, "len_of": n_of, "len_origin": n_origin})
            # the length is that of the first stacked block when it has the same origin (row-wise images of one another
            # have the same number of rows) or is that block itself
            is_first = n_of is not None and (n_of == canon(first) or (n_origin == o1 and o1 != o2 and n_origin != "?"))
            if is_first:
                # either way the kept indices are first occurrences of distinct (rounded) rows inside the candidate block:
                # the pass de-duplicates the candidates as well (rows that are equal are equal after rounding)
                # ... provided the indices are applied to the very array whose (rounded) rows form the candidate block
                cand_blk = first if o1 == "cand" else second
                cb = self._single_def(cand_blk, s) if isinstance(cand_blk, ast.Name) else cand_blk
                imgs = {n.id for n in ast.walk(cb) if isinstance(n, ast.Name)} if cb is not None else set()
                detail["dedupes"] = base is not None and base in imgs
                if base is not None and base not in imgs and (imgs & self.chain):
                    return Stage("removal", s, detail, False, f"the index vector is computed from the rows of {sorted(imgs & self.chain)} but applied to '{base}': the indices address other rows (rows dropped or de-duplicated in between shift them)")
                if o1 == "cand" and o2 == "log" and op in (ast.Lt,):
                    return Stage("removal", s, detail, False,
                                 "np.unique(vstack((candidates, log)), return_index=True) reports the *first* occurrence of a row; a candidate that equals a logged row occurs first in the candidate block, "
                                 "so keeping indices < len(candidates) keeps every candidate: nothing already evaluated is ever removed")
                if o1 == "log" and o2 == "cand" and op in (ast.GtE,):
                    return Stage("removal", s, detail, True, "log stacked first, indices >= len(log) are exactly the rows not in the log")
        elif isinstance(sel_expr, ast.Name):
            return Stage("removal", s, detail, None, "unique index vector used without selection")
        return Stage("removal", s, detail, None, "removal idiom not recognised")

    def _constraint_mask(self, d, s) -> Optional[Stage]:
        """d: mask expression; recognise  C <= 0  with C = cons(X), X = inverse(result)."""
        negated = False
        while isinstance(d, ast.UnaryOp) and isinstance(d.op, (ast.Invert, ast.Not)):
            negated, d = not negated, d.operand
        if isinstance(d, ast.Call) and call_name(d) in ("np.invert", "np.logical_not") and d.args:
            negated, d = not negated, d.args[0]
        if not (isinstance(d, ast.Compare) and len(d.ops) == 1):
            return None
        l, r = d.left, d.comparators[0]
        op = type(d.ops[0])
        nan_loose = False
        if negated:
            # not (C > 0) keeps the rows where C is NaN, C <= 0 drops them: the two are different filters
            nan_loose = op in (ast.Gt, ast.GtE, ast.Lt, ast.LtE)
            op = {ast.Lt: ast.GtE, ast.LtE: ast.Gt, ast.Gt: ast.LtE, ast.GtE: ast.Lt}.get(op, op)
        while isinstance(l, ast.Call) and call_name(l) in ("np.asarray", "np.atleast_1d", "np.array", "np.ravel") and l.args:
            l = l.args[0]
        if const_num(l) is not None and const_num(r) is None:
            l, r = r, l
            op = {ast.Lt: ast.Gt, ast.Gt: ast.Lt, ast.LtE: ast.GtE, ast.GtE: ast.LtE}.get(op, op)
        if const_num(r) != 0:
            return None
        cdef = self._single_def(l, s)
        nan_to_feasible = None
        if isinstance(l, ast.Name) and cdef is l:
            # the constraint values, possibly sanitised in between: C = cons(X); [if any NaN:] C = np.nan_to_num(C, nan=inf)
            raw, ok_ = [], True
            for d_ in self._defs_of(l.id, s):
                if isinstance(d_, ast.Call) and canon(d_.func) == self.p_cons and d_.args:
                    raw.append(d_)
                    continue
                repl = None
                if isinstance(d_, ast.Call) and call_name(d_) == "np.nan_to_num" and d_.args and canon(d_.args[0]) == l.id:
                    kn = kw(d_, "nan") or (d_.args[2] if len(d_.args) > 2 else None)
                    repl = 0.0 if kn is None else const_num(kn)
                    if kw(d_, "posinf") is not None or kw(d_, "neginf") is not None:
                        ok_ = False
                elif isinstance(d_, ast.Call) and call_name(d_) == "np.where" and len(d_.args) == 3 and canon(d_.args[0]) == f"np.isnan({l.id})" and canon(d_.args[2]) == l.id:
                    repl = const_num(d_.args[1])
                else:
                    ok_ = False
                    continue
                if repl is None:
                    ok_ = False
                elif not (repl > 0):
                    nan_to_feasible = d_
            if ok_ and len(raw) == 1:
                cdef = raw[0]
        if not (isinstance(cdef, ast.Call) and canon(cdef.func) == self.p_cons and cdef.args):
            return None
        xdef = self._single_def(cdef.args[0], s)
        inv_ok = isinstance(xdef, ast.Call) and isinstance(xdef.func, ast.Attribute) and xdef.func.attr == self.R.inverse.name and xdef.args and canon(xdef.args[0]) == getattr(self, '_cur_base', self.result)
        keeps = {ast.LtE: "C <= 0", ast.Lt: "C < 0"}.get(op)
        detail = {"mask": f"C {op.__name__} 0", "on_inverse_of_result": bool(inv_ok)}
        if keeps is None:
            return Stage("constraint", s, detail, False, f"rows with C {'>=' if op is ast.GtE else '>' if op is ast.Gt else op.__name__} 0 are kept: violating candidates pass the filter")
        if not inv_ok:
            return Stage("constraint", s, detail, False, "the constraint callable is not evaluated on the inverse transform of the very rows that are selected")
        if nan_to_feasible is not None:
            return Stage("constraint", s, detail, False, f"constraint values that are NaN are replaced by a non-positive number ({canon(nan_to_feasible)[:50]}) before the test C <= 0: a point whose constraint cannot be computed passes as feasible")
        if nan_loose:
            return Stage("constraint", s, detail, False, "the mask is the negation of 'violated' (not (C > 0)): a row whose constraint value is NaN is neither violated nor satisfied and is kept")
        return Stage("constraint", s, detail, True, keeps)

    # ------------------------------------------------------------------ queries
    def stage(self, kind) -> List[Stage]:
        return [s for s in self.stages if s.kind == kind]

    def path_tags(self) -> FrozenSet[str]:
        """stage tags that hold for the returned rows on *every* path (must-dataflow over the filter's CFG): BOX, UNIQ,
        REM (evaluated-row removal applied), FEAS.  An empty array satisfies every row-wise property (the branch on which
        ``rows.size == 0``), and FEAS is vacuous on the branch where the constraint callable is None."""
        if self._flow is None:
            self._flow = TagFlow(self.prog, self.fn, _FilterPolicy(self))
        acc = None
        for r in self.rets:
            t = self._flow.tags(r.value)
            if t is None:
                continue
            acc = t if acc is None else acc & t
        return acc if acc is not None else frozenset()

    def result_tags(self) -> FrozenSet[str]:
        """tags the filter establishes for its result *relative to its arguments*: BOX (to the bound arguments), FEAS
        (w.r.t. the constraint argument), UNIQ."""
        return frozenset(self.path_tags() & {"BOX", "FEAS", "UNIQ"})


_STAGE_TAG = {"box-clamp": "BOX", "box-drop": "BOX", "dedupe": "UNIQ", "removal": "REM", "constraint": "FEAS"}
_FILTER_ALL = frozenset({"BOX", "UNIQ", "REM", "FEAS"})


class _FilterPolicy(BasePolicy):
    row_select_preserves = False

    def __init__(self, fs: "FilterSummary"):
        self.fs = fs

    def initial(self, flow):
        return {self.fs.p_rows: EMPTY}

    def eval(self, expr, state, flow):
        st = self.fs._stage_of_value.get(id(expr))
        if st is not None:
            base = state.get(st.base, EMPTY)
            if st.kind == "other":
                return EMPTY
            tag = _STAGE_TAG.get(st.kind)
            if tag == "REM":
                # whether the idiom removes anything is R2's verdict; here: the stage is applied
                return base | {"REM"} | ({"UNIQ"} if st.detail.get("dedupes") and st.detail.get("cmp") in ("Lt", "GtE") else frozenset())
            if tag is not None and st.ok:
                if tag == "FEAS" and "BOX" not in base:
                    return base  # a constraint evaluated on rows that are not boxed yet does not count
                return base | {tag}
            if st.kind in ("box-clamp", "box-drop", "constraint", "dedupe") and not st.ok:
                return base - {tag} if tag else base
            return base  # alias / unknown selection: rows remain a subset
        if isinstance(expr, ast.Name):
            return state.get(expr.id, EMPTY)
        return EMPTY

    def eval_unpack(self, value, i, n, state, flow):
        return EMPTY

    def refine(self, test, polarity, state, flow):
        from ..terms import conjuncts

        fs = self.fs
        # every entry of the candidate rows lies within the box on this edge: max(U) <= min(hi) and min(U) >= max(lo)
        # (or the element-wise all(U <= hi) and all(U >= lo)); a flag local holding the conjunction is expanded
        atoms = []
        for c, pol in conjuncts(test, polarity):
            if isinstance(c, ast.Name) and pol:
                from .common import deref_expr

                d = deref_expr(fs.prog, fs.fn, c)
                if d is not c and not isinstance(d, ast.Name):
                    atoms.extend(conjuncts(d, True))
                    continue
            atoms.append((c, pol))

        def _ext(e, which):
            """canonical array of ``A.max()`` / ``np.max(A)`` / ``np.amax(A)`` (which = 'max') and the same for min"""
            if isinstance(e, ast.Call) and isinstance(e.func, ast.Attribute) and e.func.attr == which and not e.args and not e.keywords:
                return canon(e.func.value)
            if isinstance(e, ast.Call) and call_name(e) in (f"np.{which}", f"np.a{which}", f"np.nan{which}"[:0] or f"np.{which}") and len(e.args) == 1 and not e.keywords:
                return canon(e.args[0])
            return None

        upper_ok, lower_ok = set(), set()
        for c, pol in atoms:
            if not (pol and isinstance(c, ast.Compare) and len(c.ops) == 1):
                continue
            l, r, op = c.left, c.comparators[0], type(c.ops[0])
            if op in (ast.GtE, ast.Gt):
                l, r, op = r, l, (ast.LtE if op is ast.GtE else ast.Lt)
            if op not in (ast.LtE, ast.Lt):
                continue
            # l <= r
            a, b = _ext(l, "max"), _ext(r, "min")
            if a is not None and b is not None:
                if b == fs.p_hi:
                    upper_ok.add(a)
                if a == fs.p_lo:
                    lower_ok.add(b)
        for c, pol in atoms:
            if pol and isinstance(c, ast.Call) and call_name(c) == "np.all" and len(c.args) == 1 and isinstance(c.args[0], ast.Compare) and len(c.args[0].ops) == 1:
                cm = c.args[0]
                l, r, op = cm.left, cm.comparators[0], type(cm.ops[0])
                if op in (ast.GtE, ast.Gt):
                    l, r, op = r, l, ast.LtE
                if op in (ast.LtE, ast.Lt):
                    if canon(r) == fs.p_hi:
                        upper_ok.add(canon(l))
                    if canon(l) == fs.p_lo:
                        lower_ok.add(canon(r))
        for arr in upper_ok & lower_ok:
            if arr == fs.p_rows or arr in fs.chain:
                state[arr] = state.get(arr, EMPTY) | {"BOX"}
        for c, pol in conjuncts(test, polarity):
            # the constraint callable is absent on this edge
            if isinstance(c, ast.Compare) and len(c.ops) == 1 and canon(c.left) == fs.p_cons and isinstance(c.comparators[0], ast.Constant) and c.comparators[0].value is None:
                absent = isinstance(c.ops[0], ast.Is) == pol
                if isinstance(c.ops[0], (ast.Is, ast.IsNot)) and absent:
                    for k in list(state):
                        state[k] = state[k] | {"FEAS"}
            # the array is empty on this edge
            arr, empty = None, None
            e = c
            if isinstance(e, ast.Compare) and len(e.ops) == 1 and const_num(e.comparators[0]) == 0:
                l = e.left
                if isinstance(l, ast.Attribute) and l.attr == "size" and isinstance(l.value, ast.Name):
                    arr = l.value.id
                elif isinstance(l, ast.Call) and call_name(l) == "len" and l.args and isinstance(l.args[0], ast.Name):
                    arr = l.args[0].id
                elif isinstance(l, ast.Subscript) and isinstance(l.value, ast.Attribute) and l.value.attr == "shape" and isinstance(l.value.value, ast.Name):
                    arr = l.value.value.id
                if arr is not None:
                    op = type(e.ops[0])
                    if op is ast.Eq:
                        empty = pol
                    elif op in (ast.Gt, ast.NotEq):
                        empty = not pol
            elif isinstance(e, ast.Attribute) and e.attr == "size" and isinstance(e.value, ast.Name):
                arr, empty = e.value.id, not pol
            if arr is not None and empty and arr in fs.chain:
                state[arr] = state.get(arr, EMPTY) | _FILTER_ALL
        return state


class PointAnalysis:
    def __init__(self, prog, R, fs: FilterSummary):
        self.prog, self.R, self.fs = prog, R, fs
        self.ftags = fs.result_tags()
        self._flows: Dict[int, TagFlow] = {}
        self._param: Dict = {}
        self._busy = set()

    def flow(self, fn) -> TagFlow:
        k = id(fn.node)
        if k not in self._flows:
            self._flows[k] = TagFlow(self.prog, fn, PointPolicy(self, fn))
        return self._flows[k]

    def param_tags(self, fn, p):
        key = (id(fn.node), p)
        if key in self._param:
            return self._param[key]
        if key in self._busy:
            return EMPTY  # recursive call chain: assume nothing
        self._busy.add(key)
        acc = None
        for caller, call in self.prog.callers_of(fn):
            b = bind_args(fn, call)
            if p not in b:
                continue
            t = self.flow(caller).tags(b[p])
            if t is None:
                continue
            acc = t if acc is None else acc & t
        self._busy.discard(key)
        self._param[key] = acc if acc is not None else EMPTY
        return self._param[key]

    def return_tags(self, fn) -> FrozenSet[str]:
        """tags common to every returned value of a package helper (lets a
        helper extracted around the filter keep the provenance)."""
        key = ("ret", id(fn.node))
        if key in self._param:
            return self._param[key]
        if key in self._busy:
            return EMPTY  # recursion: assume nothing
        self._busy.add(key)
        # the summary must not depend on the callers (else a cycle through the memoised
        # caller flows would freeze an optimistic value): parameters carry no tags here
        fl = TagFlow(self.prog, fn, PointPolicy(self, fn, seed_params=False))
        acc = None
        for node in ast.walk(fn.node):
            if isinstance(node, ast.Return) and node.value is not None and self.prog.function_of(node) is fn and not isinstance(node.value, ast.Tuple):
                t = fl.tags(node.value)
                if t is None:
                    continue
                acc = t if acc is None else acc & t
        self._busy.discard(key)
        self._param[key] = acc if acc is not None else EMPTY
        return self._param[key]

    def filter_call_tags(self, fn, call) -> FrozenSet[str]:
        fs = self.fs
        b = bind_args(fs.fn, call)
        tags = set()
        lo, hi = b.get(fs.p_lo), b.get(fs.p_hi)
        from .common import deref_canon as _dcp

        pair = (_dcp(self.prog, fn, lo), _dcp(self.prog, fn, hi)) if lo is not None and hi is not None else None  # bounds handed over through locals
        if "BOX" in self.ftags and pair in HARD_BOUNDS | SEARCH_BOUNDS:
            if pair == ("lb", "ub"):
                # parameters of a helper: accept only when every caller passes hard bounds
                pass
            else:
                tags.add("BOX")
        cons = b.get(fs.p_cons)
        if "FEAS" in self.ftags and cons is not None:
            c = canon(cons)
            if c == f"self.{self.R.cons_attr}":
                tags.add("FEAS")
            elif isinstance(cons, ast.Name) and cons.id in fn.params:
                # a helper forwarding its own parameter: every caller must bind it to the user's callable
                if self._param_is_cons(fn, cons.id):
                    tags.add("FEAS")
        if "UNIQ" in self.ftags:
            tags.add("UNIQ")
        tags.add("FILT")
        return frozenset(tags)

    def _param_is_cons(self, fn, p, depth=0) -> bool:
        if depth > 4:
            return False
        callers = self.prog.callers_of(fn)
        if not callers:
            return False
        for caller, call in callers:
            b = bind_args(fn, call)
            e = b.get(p)
            if e is None:
                return False
            c = canon(e)
            if c in (f"self.{self.R.cons_attr}",):
                # attribute of BADS, or of a helper object that stored BADS' callable
                if caller.cls is self.R.bads:
                    continue
                if caller.cls is not None and self._attr_is_cons(caller.cls, self.R.cons_attr):
                    continue
                return False
            if isinstance(e, ast.Name) and e.id in caller.params and self._param_is_cons(caller, e.id, depth + 1):
                continue
            return False
        return True

    def _attr_is_cons(self, cls, attr) -> bool:
        """helper class stores its ctor parameter in self.<attr> and every
        construction binds that parameter to BADS' constraint callable."""
        init = cls.find_method("__init__")
        if init is None:
            return False
        src = None
        for t, v, s, k in iter_stores(init.node):
            if self_attr_of(t) == attr and isinstance(v, ast.Name) and v.id in init.params:
                src = v.id
        if src is None:
            return False
        sites = self.prog.callers_of(init)
        if not sites:
            return False
        for caller, call in sites:
            b = bind_args(init, call)
            e = b.get(src)
            if e is None or canon(e) != f"self.{self.R.cons_attr}" or caller.cls is not self.R.bads:
                return False
        return True


class PointPolicy(BasePolicy):
    def __init__(self, pa: PointAnalysis, fn, seed_params: bool = True):
        self.pa, self.fn, self.seed_params = pa, fn, seed_params

    def initial(self, flow):
        st = {}
        if not self.seed_params:
            return st
        for p in self.fn.params:
            if p == "self":
                continue
            t = self.pa.param_tags(self.fn, p)
            if t:
                st[p] = t
        return st

    def eval(self, expr, state, flow):
        if isinstance(expr, ast.Constant) and expr.value is None:
            return ALL_TAGS  # None cannot be indexed: vacuous origin
        return super().eval(expr, state, flow)

    def default_tags(self, path):
        if path in POINT_SLOTS or path == "LOG.X":
            return frozenset({"BOX", "FEAS"})
        return EMPTY

    def eval_unknown_path(self, expr, state, flow):
        return self.default_tags(canon(expr))

    def eval_subscript(self, expr, state, flow):
        sk = state_key(expr.value)
        if sk and sk[0] == "HIST" and sk[1] == "u":
            return frozenset({"BOX", "FEAS"})
        return super().eval_subscript(expr, state, flow)

    def eval_call(self, expr, state, flow):
        n = call_name(expr)
        targets = [t for t in self.pa.prog.resolve_call(self.fn, expr) if isinstance(t, FunctionInfo)]
        if any(t is self.pa.fs.fn for t in targets):
            return self.pa.filter_call_tags(self.fn, expr)
        if n == "np.delete" and expr.args:
            return self.eval(expr.args[0], state, flow)
        if n in ("np.vstack", "np.concatenate", "np.append"):
            args = expr.args[0].elts if expr.args and isinstance(expr.args[0], (ast.Tuple, ast.List)) else expr.args[:2]
            acc = None
            for a in args:
                t = self.eval(a, state, flow)
                acc = t if acc is None else acc & t
            return (acc or EMPTY) - {"UNIQ"}
        for t in targets:
            if t.name == "period_check" and expr.args:
                # identity placeholder in this code base (returns its first argument)
                rets = [r for r in ast.walk(t.node) if isinstance(r, ast.Return)]
                if len(rets) == 1 and isinstance(rets[0].value, ast.Name) and rets[0].value.id == t.params[0]:
                    return self.eval(expr.args[0], state, flow)
        pk = [t for t in targets if t.cls is None or t.cls is self.pa.R.bads]
        if pk and len(pk) == len(targets) and all(t is not self.pa.R.logger_call for t in pk):
            acc = None
            for t in pk:
                r = self.pa.return_tags(t)
                acc = r if acc is None else acc & r
            return acc or EMPTY
        return EMPTY
