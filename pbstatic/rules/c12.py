"""C12 -- the evaluation log records exactly what was observed, where it was
observed (DESIGN.md section 4, C12)."""
from __future__ import annotations

import ast
from typing import Dict, List, Optional, Tuple

import sympy as sp

from ..cfg import cfg_of
from ..flow import EMPTY, BasePolicy, TagFlow, path_of
from ..model import AnalysisError, FunctionInfo, bind_args, param_default
from ..roles import roles_of
from ..symb import Translator, Untranslatable, is_zero
from ..terms import call_name, canon, cmp_normal, const_num, conjuncts, dotted, guard_of, is_np_call, linear, norm_stmt
from .common import attr_stores, int_le_form, iter_stores, kw, literal_shape_first_dim, reaching_assignments, self_attr_of, shape_rank, store_base, pos

EXPLANATION = (
    "Static rules over FunctionLogger: R1 the row index of a merge/no-record lookup is derived from a rank-1 row mask "
    "(rank abstract interpretation of the mask expression); R2 on each path to a return all per-row stores use one index "
    "expression and that index is returned; R3 on the new-row path the stored point/value/SD are the routine's own parameters "
    "(provenance dataflow) and the entry points pass (inverse(x), x, validated value, sd); R4 the set of arrays allocated with "
    "cache_size rows equals the set extended in the growth routine (old contents first, same amount) and counter increment + "
    "capacity test dominate the row stores; R5 the no-record path stores only to n_evals / fun_eval_time; R6 the merge is the "
    "precision-weighted mean / combined SD (sympy identity); R7 n_evals is incremented exactly once on each path. Decides the "
    "structure of the record routine on all paths, not numeric values."
    " R3 reads the parameter roles off the stores and binds call sites by name. R6 also forbids integer-truncating operators (np.reciprocal, //) on values not proven float."
)

ARGWHERE = {"np.argwhere", "np.nonzero", "np.flatnonzero", "np.where"}


def record_routine(prog, R) -> Tuple[FunctionInfo, ast.Call]:
    best = None
    for call, targets in prog.calls_in(R.logger_call):
        for t in targets:
            if isinstance(t, FunctionInfo) and t.cls is R.logger_cls and t is not R.logger_call and len(call.args) + len(call.keywords) >= 4:
                best = (t, call)
    if best is None:
        raise AnalysisError("FunctionLogger.__call__ no longer hands the observation to a record routine")
    return best


def record_param_roles(prog, R) -> Dict[str, str]:
    """array name -> parameter of the record routine that feeds it (read off the stores, not the parameter order)."""
    rec, _ = record_routine(prog, R)
    params = [p for p in rec.params if p != "self"]
    pflow = TagFlow(prog, rec, ProvPolicy(params))
    role: Dict[str, str] = {}
    for t, v, s, k in iter_stores(rec.node):
        a = self_attr_of(t)
        if a in ("X_orig", "X", "Y_orig", "S") and isinstance(t, ast.Subscript) and v is not None and k == "assign":
            tags = pflow.tags(v) or ()
            ps = sorted(tg[2:] for tg in tags if tg.startswith("P:"))
            if len(ps) == 1 and a not in role:
                role[a] = ps[0]
    return role


def per_row_arrays(prog, R) -> Dict[str, dict]:
    """attr -> {rank, cols, call} for arrays allocated in __init__ with
    cache_size rows."""
    init = R.logger_cls.find_method("__init__")
    out = {}
    for t, v, s, kind in iter_stores(init.node):
        a = self_attr_of(t)
        if a is None or not isinstance(v, ast.Call):
            continue
        fd = literal_shape_first_dim(v)
        if fd is None:
            continue
        if canon(fd) in ("cache_size", "self.cache_size"):
            sh = v.args[0]
            cols = canon(sh.elts[1]) if isinstance(sh, (ast.Tuple, ast.List)) and len(sh.elts) > 1 else None
            out[a] = {"rank": shape_rank(v), "cols": cols, "call": v, "stmt": s}
    return out


def high_water_attrs(prog, R, arrays) -> Dict[str, list]:
    """logger attributes that bound a slice of a per-row array outside the logger class
    (``logger.X[0 : logger.<a> + 1]``, possibly through a local): attr -> [(fn, node)]."""
    out: Dict[str, list] = {}
    for fn in prog.functions():
        if fn.cls is R.logger_cls:
            continue
        for n in ast.walk(fn.node):
            if not (isinstance(n, ast.Subscript) and isinstance(n.slice, ast.Slice) and n.slice.upper is not None):
                continue
            if not (isinstance(n.value, ast.Attribute) and n.value.attr in arrays):
                continue
            base = canon(n.value.value)
            for x in ast.walk(n.slice.upper):
                cands = [x]
                if isinstance(x, ast.Name):
                    cands = reaching_assignments(prog, fn, x.id, n)
                for c in cands:
                    if isinstance(c, ast.Attribute) and canon(c.value) == base and c.attr not in arrays:
                        out.setdefault(c.attr, []).append((fn, n))
    return out


def high_water_rule(ctx, prog, R):
    """The consumers of the log (training-set selector, duplicate filter) see rows ``[0 : hw + 1]``.  ``hw`` must
    advance with every recorded row and may be bounded only by the *live* capacity of the per-row arrays."""
    arrays = per_row_arrays(prog, R)
    hw = high_water_attrs(prog, R, arrays)
    if not hw:
        ctx.undecided("no slice of a per-row log array is bounded by a logger attribute")
        return
    rec, _ = record_routine(prog, R)
    for a in sorted(hw):
        fn0, n0 = hw[a][0]
        ctx.ok(fn0, n0, f"log rows consumed up to logger.{a} + 1 ({len(hw[a])} slices)")
        stores = attr_stores(prog, R.logger_cls, a)
        adv = 0
        for fn, t, v, st, kind in stores:
            me = f"self.{a}"
            if fn.name == "__init__" and const_num(v) is not None:
                ctx.ok(fn, st, f"{me} starts at {canon(v)}")
                continue
            e, cap = v, None
            if kind == "aug" and isinstance(st.op, ast.Add) and const_num(v) == 1:
                e = None
            elif isinstance(v, ast.Call) and call_name(v) in ("np.minimum", "min") and len(v.args) == 2:
                for x, y in ((v.args[0], v.args[1]), (v.args[1], v.args[0])):
                    lt, lc = linear(x)
                    if lt == {me: 1} and lc == 1:
                        e, cap = None, y
                        break
            elif kind == "assign":
                lt, lc = linear(v)
                if lt == {me: 1} and lc == 1:
                    e = None
                elif canon(v) in ("self.Xn", "(self.Xn - 1)"):
                    e = None
            if e is not None:
                adv += fn is rec
                ctx.fail(fn, st, f"{me} is set to '{canon(v)[:60]}', not advanced by one: the consumers of the log lose (or gain) rows", construct=f"{me} <- {canon(v)[:60]}")
                continue
            if cap is not None:
                ct, cc = linear(cap)
                live = [k for k in ct if any(k == f"self.{arr}.shape[0]" or k == f"len(self.{arr})" for arr in arrays)]
                if not (len(ct) == 1 and live and ct[live[0]] == 1 and cc in (0, -1)):
                    adv += fn is rec
                    ctx.fail(fn, st, f"{me} is clamped by '{canon(cap)}', which is not the live capacity of a per-row array (array.shape[0]): after the cache has grown, rows logged later are invisible to the training-set selector and the duplicate filter", construct=f"{me} clamp {canon(cap)[:50]}")
                    continue
            if fn is not rec:
                ctx.fail(fn, st, f"{me} is advanced outside the record routine", construct=f"{me} advanced in {fn.name}")
                continue
            adv += 1
            ctx.ok(fn, st, f"{me} advanced by one per recorded row" + (f", clamped by live capacity {canon(cap)}" if cap is not None else ""))
        # the advance lies on the new-row path: same innermost branch as the store of the new row
        if adv == 0:
            ctx.fail(rec, rec.node, f"the record routine never advances self.{a}", construct=f"self.{a} not advanced")


def _float_valued(e, float_arrays) -> bool:
    """syntactic proof that ``e`` is floating point whatever the dtype of the routine's parameters."""
    if isinstance(e, ast.Constant):
        return isinstance(e.value, float)
    if isinstance(e, ast.Call):
        n = call_name(e) or ""
        if n in ("np.sqrt", "np.exp", "np.log", "float", "np.float64", "np.divide", "np.true_divide", "np.mean", "np.std"):
            return True
        if n in ("np.square", "np.abs", "np.negative", "np.copy", "np.asarray") and e.args:
            return _float_valued(e.args[0], float_arrays)
        if isinstance(e.func, ast.Attribute) and e.func.attr == "astype" and e.args and canon(e.args[0]) in ("float", "np.float64"):
            return True
        return False
    if isinstance(e, ast.BinOp):
        if isinstance(e.op, ast.Div):
            return True
        if isinstance(e.op, ast.Pow):
            return _float_valued(e.left, float_arrays)
        return _float_valued(e.left, float_arrays) or _float_valued(e.right, float_arrays)
    if isinstance(e, ast.UnaryOp):
        return _float_valued(e.operand, float_arrays)
    if isinstance(e, ast.Subscript):
        return self_attr_of(e) in float_arrays and self_attr_of(e) not in ("n_evals",)
    if isinstance(e, ast.Name):
        return False
    return False


class RankPolicy(BasePolicy):
    row_select_preserves = False

    def __init__(self, arrays):
        self.arrays = arrays

    def _arr_rank(self, expr):
        a = self_attr_of(expr) if isinstance(expr, ast.Attribute) else None
        if a in self.arrays and isinstance(expr, ast.Attribute):
            return self.arrays[a]["rank"]
        return None

    def eval_unknown_path(self, expr, state, flow):
        r = self._arr_rank(expr)
        if r is not None:
            return frozenset({f"R{r}"})
        return EMPTY

    def eval_other(self, expr, state, flow):
        if isinstance(expr, ast.Compare) and len(expr.ops) == 1:
            ranks = []
            for side in (expr.left, expr.comparators[0]):
                t = self.eval(side, state, flow)
                ranks += [int(x[1:]) for x in t if x.startswith("R")]
            if ranks:
                return frozenset({f"R{max(ranks)}"})
            return EMPTY
        if isinstance(expr, ast.BinOp) and isinstance(expr.op, (ast.BitAnd, ast.BitOr)):
            a, b = self.eval(expr.left, state, flow), self.eval(expr.right, state, flow)
            return a & b
        if isinstance(expr, ast.UnaryOp):
            return self.eval(expr.operand, state, flow)
        return EMPTY

    def eval_call(self, expr, state, flow):
        n = call_name(expr)
        red, arg = None, None
        if n in ("np.all", "np.any") and expr.args:
            red, arg = expr, expr.args[0]
        elif isinstance(expr.func, ast.Attribute) and expr.func.attr in ("all", "any"):
            red, arg = expr, expr.func.value
        if red is not None:
            t = self.eval(arg, state, flow)
            ax = kw(expr, "axis")
            if ax is None and n in ("np.all", "np.any") and len(expr.args) > 1:
                ax = expr.args[1]
            if ax is None and n is None and expr.args:
                ax = expr.args[0]
            if ax is None and isinstance(expr.func, ast.Attribute) and expr.func.attr in ("all", "any") and n not in ("np.all", "np.any") and expr.args:
                ax = expr.args[0]
            ranks = [int(x[1:]) for x in t if x.startswith("R")]
            if not ranks:
                return EMPTY
            if ax is None:
                return frozenset({"R0"})
            return frozenset({f"R{max(ranks) - 1}"})
        if n in ("np.logical_and", "np.logical_or") and len(expr.args) == 2:
            return self.eval(expr.args[0], state, flow) & self.eval(expr.args[1], state, flow)
        if n in ("np.invert", "np.logical_not") and expr.args:
            return self.eval(expr.args[0], state, flow)
        return EMPTY


class ProvPolicy(BasePolicy):
    """provenance of the routine's own parameters through copies only."""

    row_select_preserves = False

    def __init__(self, params):
        self.params = params

    def initial(self, flow):
        return {p: frozenset({f"P:{p}"}) for p in self.params}


def check(ctx):
    prog = ctx.prog
    R = roles_of(prog)
    rec, rec_call = record_routine(prog, R)
    arrays = per_row_arrays(prog, R)
    if len(arrays) < 4:
        raise AnalysisError("FunctionLogger.__init__ allocates fewer than 4 per-row arrays: log layout not recognised")
    cfg = cfg_of(rec)

    # ------------------------------------------------------------------ R1
    ctx.rule("R1", "row index of a log lookup is derived from a rank-1 row mask", floor=2)
    flow = TagFlow(prog, rec, RankPolicy(arrays))
    for node in ast.walk(rec.node):
        if isinstance(node, ast.Call) and call_name(node) in ARGWHERE and len(node.args) == 1:
            tags = flow.tags(node.args[0])
            if tags is None:
                continue
            ranks = sorted(int(t[1:]) for t in tags if t.startswith("R"))
            if ranks == [1]:
                ctx.ok(rec, node, f"{call_name(node)}({canon(node.args[0])}) mask rank 1")
            elif ranks:
                ctx.fail(
                    rec,
                    node,
                    f"row index taken from a rank-{ranks[-1]} element mask: the first matching *element*'s row, i.e. a row sharing a single coordinate, is addressed",
                    construct=f"{call_name(node)}(<rank-{ranks[-1]} mask>)",
                    witness=[f"mask = {canon(node.args[0])}"],
                )
            else:
                ctx.undecided(f"rank of mask {canon(node.args[0])} at line {node.lineno} not inferred")

    # the duplicate look-up compares the point with every filled row: the whole table, or the rows up to and including the
    # high-water mark ([: Xn + 1]); a shorter slice never finds the most recently logged point
    xparam_names = {p_ for p_ in rec.params if p_ != "self"}
    for node in ast.walk(rec.node):
        if not (isinstance(node, ast.Compare) and len(node.ops) == 1 and isinstance(node.ops[0], ast.Eq)):
            continue
        for side, other in ((node.left, node.comparators[0]), (node.comparators[0], node.left)):
            if isinstance(side, ast.Subscript) and self_attr_of(side.value) in arrays and isinstance(side.value, ast.Attribute) and isinstance(side.slice, ast.Slice) and isinstance(other, ast.Name) and other.id in xparam_names:
                sl = side.slice
                up = canon(sl.upper) if sl.upper is not None else None
                full = sl.lower is None and sl.step is None and (up is None or up in ("(1 + self.Xn)", "(1 + self.X_max_idx)"))
                ctx.check(full, rec, node, f"look-up scans {canon(side)} (all filled rows)", f"the duplicate look-up scans only {canon(side)}: rows up to and including index Xn are filled, so the most recently logged point is never matched (a repeat of it is logged as a new record / not merged)", construct=f"look-up range {canon(side)}")
    # ---------------------------------------------------------- path groups
    returns = [n for n in cfg.nodes if n.kind == "stmt" and isinstance(n.stmt, ast.Return)]
    row_stores = []  # (attr, target, value, stmt, kind)
    for t, v, s, kind in iter_stores(rec.node):
        a = self_attr_of(t)
        if a in arrays and isinstance(t, ast.Subscript) and isinstance(store_base(t), ast.Attribute):
            row_stores.append((a, t, v, s, kind))
    groups: Dict[int, list] = {}
    for a, t, v, s, kind in row_stores:
        n = cfg.node_of(s)
        reach = cfg.reachable(n.id)
        rets = [r for r in returns if r.id in reach]
        if len(rets) == 1:
            groups.setdefault(rets[0].id, []).append((a, t, v, s, kind))
    ctx.rule("R2", "one row index per path; the index returned is the index written", floor=3)
    path_kind = {}
    for rid, stores in groups.items():
        rnode = cfg.nodes[rid]
        idxs = {canon(t.slice) for a, t, v, s, k in stores}
        ret = rnode.stmt.value
        ret_idx = canon(ret.elts[1]) if isinstance(ret, ast.Tuple) and len(ret.elts) == 2 else None
        if len(idxs) != 1:
            ctx.fail(rec, rnode.stmt, f"per-row stores on one path use different row indices {sorted(idxs)}", construct="row stores index set " + "|".join(sorted(idxs)))
        elif ret_idx is not None and ret_idx not in idxs:
            ctx.fail(rec, rnode.stmt, f"returned index {ret_idx} differs from the row written {sorted(idxs)}")
        else:
            ctx.ok(rec, rnode.stmt, f"{len(stores)} row stores, index {sorted(idxs)[0]}")
        path_kind[rid] = sorted(idxs)[0] if len(idxs) == 1 else None

    # identify the new-row path: the group that stores X and X_orig
    newrow = None
    for rid, stores in groups.items():
        attrs = {a for a, *_ in stores}
        if {"X", "X_orig"} <= attrs:
            newrow = rid
    # ------------------------------------------------------------------ R3
    ctx.rule("R3", "new-row path stores the routine's own point / value / SD parameters unchanged; entry points pass (inverse(x), x, value, sd)", floor=5)
    params = [p for p in rec.params if p != "self"]
    if newrow is None or len(params) < 4:
        ctx.missing(rec, "new-row path storing X and X_orig")
    else:
        pflow = TagFlow(prog, rec, ProvPolicy(params))
        # which parameter feeds which array is read off the stores (not the parameter order): the parameter whose
        # provenance tag is on the stored value; X_orig / X / Y_orig / S must be fed by four different parameters
        feeds = {}
        for a, t, v, s, k in groups[newrow]:
            tags = pflow.tags(v) if v is not None else EMPTY
            ps = sorted(tg[2:] for tg in (tags or ()) if tg.startswith("P:"))
            feeds.setdefault(a, []).append((ps if k == "assign" else [], s, v))
        role = {}
        for a in ("X_orig", "X", "Y_orig", "Y") + (("S",) if "S" in arrays else ()):
            if a not in feeds:
                ctx.missing(rec, f"store of {a} on the new-row path")
                continue
            for ps, s, v in feeds[a]:
                if len(ps) != 1:
                    ctx.fail(rec, s, f"log array {a} does not receive one of the routine's parameters unchanged on the new-row path", construct=f"{a}[row] = {canon(v) if v is not None else '?'}")
                else:
                    role[a] = ps[0]
                    ctx.ok(rec, s, f"{a}[row] <- parameter {ps[0]}")
        distinct = [role.get(a) for a in ("X_orig", "X", "Y_orig") + (("S",) if "S" in arrays else ()) if role.get(a)]
        if len(set(distinct)) != len(distinct):
            ctx.fail(rec, cfg.nodes[newrow].stmt, f"two of the log arrays X_orig / X / Y_orig / S are fed by the same parameter ({role})", construct="log arrays fed by the same parameter")
        if role.get("Y") and role.get("Y_orig") and role["Y"] != role["Y_orig"]:
            ctx.fail(rec, cfg.nodes[newrow].stmt, f"Y and Y_orig are fed by different parameters ({role['Y']} / {role['Y_orig']})", construct="Y/Y_orig parameters differ")
        p_orig, p_int, p_val = role.get("X_orig"), role.get("X"), role.get("Y_orig")
        # returned value on the new-row path is the observed value
        rnode = cfg.nodes[newrow].stmt
        if isinstance(rnode.value, ast.Tuple) and rnode.value.elts:
            tg = pflow.tags(rnode.value.elts[0])
            ctx.check(tg is not None and p_val is not None and f"P:{p_val}" in tg, rec, rnode, "returns the observed value", "new-row path does not return the observed value unchanged")
        # entry points
        for entry in (R.logger_call, R.logger_add):
            if entry is None:
                continue
            ecalls = [c for c, tg in prog.calls_in(entry) if rec in tg]
            for c in ecalls:
                b = bind_args(rec, c)
                xparam = [p for p in entry.params if p != "self"][0]
                eflow = TagFlow(prog, entry, ProvPolicy([xparam]))
                a1 = b.get(p_int) if p_int else None
                t1 = eflow.tags(a1) if a1 is not None else None
                ctx.check(t1 is not None and f"P:{xparam}" in t1, entry, c, "internal point argument is the entry's own x", f"record routine does not receive the entry point's own x as internal coordinates")
                a0 = b.get(p_orig) if p_orig else None
                ok0 = False
                if isinstance(a0, ast.Name):
                    from .common import reaching_assignments

                    defs, work, seen_names = [], list(reaching_assignments(prog, entry, a0.id, c)), {a0.id}
                    while work:
                        d = work.pop()
                        dt_ = eflow.tags(d) if isinstance(d, ast.Name) else None
                        if isinstance(d, ast.Name) and d.id not in seen_names and (dt_ is None or f"P:{xparam}" not in dt_):
                            sub = reaching_assignments(prog, entry, d.id, d)
                            if len(sub) > 1:
                                seen_names.add(d.id)
                                work += sub
                                continue
                        defs.append(d)
                    ok0 = bool(defs)
                    from .common import deref_expr

                    for d in defs:
                        d_full = deref_expr(prog, entry, d)
                        inv = [n for n in ast.walk(d_full) if isinstance(n, ast.Call) and isinstance(n.func, ast.Attribute) and n.func.attr == R.inverse.name]
                        if inv:
                            argt = eflow.tags(inv[0].args[0]) if inv[0].args else None
                            if argt is None and inv[0].args and eflow.state_before(c) is not None:
                                # the call sits in an expanded copy of a local's definition: evaluate it in the state at the record call
                                argt = eflow.policy.eval(inv[0].args[0], eflow.state_before(c), eflow)
                            if argt is None or f"P:{xparam}" not in argt:
                                ok0 = False
                        else:
                            dt = eflow.tags(d)
                            if dt is None or f"P:{xparam}" not in dt:
                                ok0 = False
                ctx.check(ok0, entry, c, "original-space argument is inverse(x) of the same x (or x without a transformer)", "original-space point handed to the record routine is not the inverse transform of the same x")

    # ------------------------------------------------------------------ R4
    ctx.rule("R4", "growth covers exactly the per-row arrays (old rows first, same fill as at allocation, same amount, all filled rows kept); counter increment and capacity test dominate the row stores", floor=len(arrays))
    from .growth import analyse_grow, fill_of_fresh, norm_fill

    grow = None
    for call, targets in prog.calls_in(rec):
        for t in targets:
            if isinstance(t, FunctionInfo) and t.cls is R.logger_cls and t is not rec:
                n_re = sum(1 for tt, vv, ss, kk in iter_stores(t.node) if self_attr_of(tt) in arrays and isinstance(tt, ast.Attribute))
                if n_re >= 3:
                    grow = (t, call)
    if grow is None:
        ctx.missing(rec, "call of a growth routine that re-binds the per-row arrays")
    else:
        gfn, gcall = grow
        scope_funcs = {n.name: n for n in ast.walk(gfn.node) if isinstance(n, ast.FunctionDef) and n is not gfn.node}
        closure = {}
        n_stores = {}
        for t_, v_, s_, k_ in iter_stores(gfn.node):
            if isinstance(t_, ast.Name):
                n_stores[t_.id] = n_stores.get(t_.id, 0) + 1
        nested_ = {id(n_) for d_ in ast.walk(gfn.node) if isinstance(d_, (ast.FunctionDef, ast.Lambda)) and d_ is not gfn.node for n_ in ast.walk(d_)}
        for st in ast.walk(gfn.node):
            # locals bound exactly once (anywhere in the routine: the growth of an optional array sits in a branch; the locals of
            # a nested helper are that helper's own)
            if id(st) in nested_:
                continue
            if isinstance(st, ast.Assign) and len(st.targets) == 1 and isinstance(st.targets[0], ast.Name) and not isinstance(st.value, ast.Lambda) and n_stores.get(st.targets[0].id) == 1:
                closure[st.targets[0].id] = st.value
        # order of growth vs. counter increment in the record routine
        gtests = guard_of(prog, rec, gcall)
        counter = "self.Xn"
        incs = [s_ for t, v, s_, k in iter_stores(rec.node) if canon(t) == counter and k == "aug" and const_num(v) == 1 and isinstance(s_.op, ast.Add)]
        # the capacity test among the guards of the growth call (guard clauses add complements of early returns to them)
        cap_test = None
        for test_, pol_ in gtests:
            nf_ = int_le_form(test_, neg=not pol_)
            if nf_ is not None and any((".shape[0]" in k_ or k_.startswith("len(")) for k_ in dict(nf_[1][0])) and counter in dict(nf_[1][0]):
                cap_test = test_
        test_node = cfg.node_of(cap_test if cap_test is not None else gtests[-1][0]) if gtests else None
        inc_node = cfg.node_of(incs[0]) if len(incs) == 1 else None
        before_inc = bool(test_node is not None and inc_node is not None and cfg.dominates(test_node.id, inc_node.id))
        filled = "(1 + self.Xn)" if before_inc else "self.Xn"
        amounts = set()
        infos = {}
        for a in sorted(arrays):
            sts = [(t, v, s_) for t, v, s_, k in iter_stores(gfn.node) if self_attr_of(t) == a and isinstance(t, ast.Attribute)]
            if not sts:
                ctx.fail(gfn, gfn.node, f"per-row array {a} is allocated with cache_size rows but not extended by the growth routine: rows beyond the initial cache are lost / index out of range", construct=f"<no growth of {a}>")
                continue
            t, v, s_ = sts[-1]
            info = analyse_grow(v, f"self.{a}", scope_funcs, closure)
            if info is None:
                ctx.undecided(f"growth idiom of {a} not recognised: {canon(v)[:60]}")
                continue
            infos[a] = info
            alloc_fill = norm_fill(fill_of_fresh(arrays[a]["call"]))
            got_fill = norm_fill(info["fill"])
            probs = []
            if not info["old_first"]:
                probs.append("the old rows do not come first")
            if not info["axis0"] and arrays[a]["rank"] != 1:
                probs.append("rows are not added along axis 0 only")
            if got_fill != alloc_fill and not ({got_fill, alloc_fill} <= {"0", "False"}):
                probs.append(f"fresh rows are filled with {got_fill}, the array was allocated with {alloc_fill} (unused rows must stay distinguishable: NaN never equals a logged point)")
            if info["amount"] is None:
                probs.append("number of added rows not recognised")
            elif info["amount"] != "?":
                amounts.add(info["amount"])
            # a conditionally allocated array must be grown under an equivalent condition
            ga = [x for x in guard_canon_(prog, R.logger_cls.find_method("__init__"), arrays[a]["stmt"]) if "cache_size" not in x]
            gg = guard_canon_(prog, gfn, s_)
            if sorted(ga) != sorted(gg):
                why = _guards_equivalent(prog, R, ga, gg)
                if why is not True:
                    probs.append(f"it is allocated under {ga or ['always']} but grown under {gg or ['always']} ({why}): the array can be missing or keep its old length when the cache grows")
            cb = info["copy_bound"]
            if cb not in ("all", filled, f"self.{a}.shape[0]"):
                probs.append(f"only rows [:{cb}] are copied but rows [:{filled}] are filled when growth runs ({'before' if before_inc else 'after'} the row counter is advanced)")
            if probs:
                ctx.fail(gfn, s_, f"growth of {a}: " + "; ".join(probs), construct=f"growth of {a}: " + "; ".join(p_.split(' (')[0] for p_ in probs)[:120])
            else:
                ctx.ok(gfn, s_, f"{a}: {info['idiom']}, +{info['amount']} rows, fill {got_fill}, old rows first")
        if len(amounts) > 1:
            ctx.fail(gfn, gfn.node, f"per-row arrays are extended by different amounts {sorted(amounts)}", construct="growth amounts " + "|".join(sorted(amounts)))
        # capacity test relative to the increment order
        if newrow is not None:
            cap_ok = False
            for test, pol in gtests:
                nf = int_le_form(test, neg=not pol)
                if nf is None:
                    continue
                form, const = dict(nf[1][0]), nf[1][1]
                caps = [k for k in form if (".shape[0]" in k or k.startswith("len(")) and any(f"self.{a}" in k for a in arrays)]
                cnt = [k for k in form if k not in caps]
                if len(caps) == 1 and cnt == [counter] and nf[0] == "<=":
                    want_const = -1 if before_inc else 0
                    if form[caps[0]] == 1 and form[counter] == -1 and const == want_const:
                        cap_ok = True
                    else:
                        ctx.fail(rec, test, f"capacity test is not 'grow when the row about to be written ({'Xn+1' if before_inc else 'Xn'}) reaches the capacity' (normal form {dict((k, str(v)) for k, v in form.items())} + {const} <= 0)", construct=f"capacity test {canon(test)[:60]}")
                        cap_ok = None
            if cap_ok is False:
                ctx.missing(rec, "capacity test (row counter against the number of allocated rows) guarding the growth call")
            elif cap_ok:
                ctx.ok(rec, gcall, f"growth guarded by capacity test ({'before' if before_inc else 'after'} the increment)")
            if len(incs) != 1:
                ctx.fail(rec, rec.node, f"row counter {counter} is not incremented exactly once by 1 on the new-row path ({len(incs)} increments)", construct=f"increments of {counter}: {len(incs)}")
            elif test_node is not None:
                bad = []
                for a, t, v, s_, k in groups[newrow]:
                    sn = cfg.node_of(s_)
                    if not (cfg.dominates(inc_node.id, sn.id) and cfg.dominates(test_node.id, sn.id)):
                        bad.append(s_)
                    if canon(t.slice) != counter:
                        ctx.fail(rec, s_, f"new-row store of {a} is indexed by {canon(t.slice)}, not by the row counter {counter}")
                if bad:
                    ctx.fail(rec, bad[0], "a row store on the new-row path is not dominated by the counter increment and the capacity test")
                else:
                    ctx.ok(rec, incs[0], "increment and capacity test dominate the row stores")

    # ------------------------------------------------------------------ R5
    ctx.rule("R5", "no-record path writes only the evaluation counter and timing of the matched row", floor=1)
    norec_param = None
    b = bind_args(rec, rec_call)
    entry_flag = [p for p in R.logger_call.params if p not in ("self",)][1:] if len(R.logger_call.params) > 2 else []
    for pname, expr in b.items():
        if isinstance(expr, ast.Name) and expr.id in entry_flag:
            norec_param = pname
    if norec_param is None:
        ctx.missing(R.logger_call, "forwarding of the record/no-record flag to the record routine")
    else:
        allowed = {"n_evals", "fun_eval_time"}
        n_checked = 0
        for t, v, s, k in iter_stores(rec.node):
            a = self_attr_of(t)
            if a is None:
                continue
            g = []
            for test, pol in guard_of(prog, rec, s):
                for c, p in conjuncts(test, pol):
                    g.append(canon(c, neg=not p))
            if f"not {norec_param}" in g:
                n_checked += 1
                if a in allowed:
                    ctx.ok(rec, s, f"no-record path stores {a}")
                else:
                    ctx.fail(rec, s, f"no-record path alters log attribute {a}: an evaluation flagged as not to be recorded changes a record", construct=f"no-record store to {a}")
        if n_checked == 0:
            # flag may be tested with the opposite polarity first
            ctx.note("no attribute store found under the no-record guard")
        # the no-record path must not fall through into the recording code
        for n in cfg.nodes:
            if n.kind == "test" and canon(n.expr) in (f"not {norec_param}", norec_param):
                tlabel = "T" if canon(n.expr) == f"not {norec_param}" else "F"
                starts = cfg.succ(n.id, tlabel)
                for a, t, v, s, k in (groups.get(newrow, []) if newrow is not None else []):
                    sn = cfg.node_of(s)
                    if any(sn.id in cfg.reachable(st) for st in starts):
                        ctx.fail(rec, s, "the no-record branch can fall through into the new-row recording code", construct="no-record branch reaches new-row stores")
                        break
                else:
                    ctx.ok(rec, n.stmt, "no-record branch cannot reach the new-row stores")

        # path-sensitive form of the same claim: every path from the entry to a new-row store establishes the record
        # flag as true on the way (a test ``not flag and <something>`` does not do so on its false edge)
        if newrow is not None and groups.get(newrow):
            store_ids = {cfg.node_of(s).id for a, t, v, s, k in groups[newrow] if cfg.node_of(s) is not None}

            def implied(test, label):
                for c_, p_ in conjuncts(test, label == "T"):
                    if isinstance(c_, ast.Name) and c_.id == norec_param:
                        return p_
                return None

            seen_, stack_, witness = set(), [(cfg.entry.id, None)], None
            while stack_ and witness is None:
                nid, know = stack_.pop()
                if (nid, know) in seen_:
                    continue
                seen_.add((nid, know))
                if nid in store_ids and know is not True:
                    witness = nid
                    break
                node_ = cfg.nodes[nid]
                for y in cfg.g.successors(nid):
                    labs = cfg.g[nid][y]["labels"]
                    k2s = set()
                    for lab in labs:
                        k2 = know
                        if node_.kind == "test" and lab in ("T", "F") and node_.expr is not None:
                            imp = implied(node_.expr, lab)
                            if imp is not None:
                                if know is not None and know != imp:
                                    continue  # infeasible edge
                                k2 = imp
                        k2s.add(k2)
                    for k2 in k2s:
                        stack_.append((y, k2))
            if witness is not None:
                wn = cfg.nodes[witness]
                ctx.fail(rec, wn.stmt, "a path reaches the new-row recording code without the record flag having been tested true: an evaluation flagged as not to be recorded (at a point not in the log) is appended as a new record", construct="new-row stores reachable with the no-record flag unset")
            else:
                ctx.ok(rec, rec.node, "every path to the new-row stores has established the record flag")

    # ------------------------------------------------------------------ R6
    ctx.rule("R6", "merge = precision-weighted mean and combined SD (term identity)", floor=1, policy="degrade")
    merge = None
    for rid, stores in groups.items():
        attrs = {a for a, *_ in stores}
        if rid != newrow and "Y" in attrs and "S" in attrs:
            merge = rid
    if merge is None:
        ctx.missing(rec, "merge path storing Y and S of an existing row")
    else:
        idx = path_kind.get(merge)
        stmts = sorted({id(s): s for a, t, v, s, k in groups[merge]}.values(), key=pos)
        block = None
        for p in prog.ancestors(stmts[0]):
            for fld_ in ("body", "orelse", "finalbody"):
                b_ = getattr(p, fld_, None)
                if isinstance(b_, list) and any(x is stmts[0] for x in b_):
                    block = b_
            if block is not None:
                break
        try:
            tr = Translator(strip_index=lambda sl: canon(sl) == idx, positive=["self.S", params[3], "self.n_evals"])
            y0, s0, f, sd = tr.sym("self.Y"), tr.sym("self.S"), tr.sym(params[2]), tr.sym(params[3])
            straight = [s for s in block if isinstance(s, (ast.Assign, ast.AugAssign)) and pos(s) <= max(pos(x) for x in stmts)]
            tr.run(straight)
            ynew = tr.env.get("self.Y")
            snew = tr.env.get("self.S")
            ref_y = (y0 / s0**2 + f / sd**2) / (1 / s0**2 + 1 / sd**2)
            ref_s = 1 / sp.sqrt(1 / s0**2 + 1 / sd**2)
            if ynew is None or snew is None:
                ctx.undecided("merged Y/S expressions not captured by the symbolic executor")
            else:
                ctx.check(is_zero(ynew - ref_y), rec, stmts[0], "Y merge is the precision-weighted mean", "merged value is not the precision-weighted mean of the stored and the new observation", construct="merge formula Y")
                ctx.check(is_zero(snew - ref_s), rec, stmts[0], "S merge is the combined SD", "merged SD is not 1/sqrt(tau_old + tau_new)", construct="merge formula S")
        except Untranslatable as e:
            ctx.undecided(f"merge block uses a construct the term translator does not know ({e})")
        # integer-sensitive operators on caller-supplied numbers: np.reciprocal / floor division truncate for integer
        # input (an SD passed as a Python int is legal), true division does not
        arrays_f = {a for a in arrays}
        for s_ in (block or []):
            for c in ast.walk(s_):
                bad = None
                if isinstance(c, ast.Call) and call_name(c) in ("np.reciprocal", "np.floor_divide") and c.args:
                    if not _float_valued(c.args[0], arrays_f):
                        bad = f"{call_name(c)}({canon(c.args[0])})"
                elif isinstance(c, ast.BinOp) and isinstance(c.op, ast.FloorDiv):
                    bad = canon(c)
                if bad:
                    ctx.fail(rec, s_, f"'{bad[:70]}' truncates when its operand is integer-typed (an SD or value supplied as a Python / numpy integer): the merged value and SD are then not the precision-weighted mean and the combined SD", construct=f"integer-truncating {bad[:50]}")

    # ------------------------------------------------------------------ R7
    ctx.rule("R7", "per-point observation count advances by exactly one on every path", floor=3)
    # the amount one observation counts for: the literal 1, or a parameter of the record routine that defaults to 1 and that
    # the evaluating entry point never sets (an importing entry point may hand in "this value summarises k observations");
    # every increment of the routine must then use the same amount
    unit = None
    dflt = dict(zip([a_.arg for a_ in rec.node.args.args][len(rec.node.args.args) - len(rec.node.args.defaults):], rec.node.args.defaults))
    dflt.update({a_.arg: d_ for a_, d_ in zip(rec.node.args.kwonlyargs, rec.node.args.kw_defaults) if d_ is not None})
    for pn_, d_ in dflt.items():
        if const_num(d_) == 1 and not isinstance(getattr(d_, "value", None), bool):
            set_by_call = False
            for cfn_, c_ in [(f_, c2_) for f_ in R.logger_cls.methods.values() for c2_, tg_ in prog.calls_in(f_) if rec in tg_]:
                b_ = bind_args(rec, c_)
                if pn_ in b_ and const_num(b_[pn_]) != 1 and cfn_.node.name == "__call__":
                    set_by_call = True
            used = any(isinstance(n_, ast.Name) and n_.id == pn_ for a, t, v, s, k in [x for g_ in groups.values() for x in g_] if a == "n_evals" and v is not None for n_ in ast.walk(v))
            if used and not set_by_call and not any(isinstance(n_, ast.Name) and n_.id == pn_ and not isinstance(n_.ctx, ast.Load) for n_ in ast.walk(rec.node)):
                unit = pn_
    amounts_used = set()

    def _is_unit(e_):
        if const_num(e_) == 1:
            amounts_used.add("1")
            return True
        if unit is not None and isinstance(e_, ast.Name) and e_.id == unit:
            amounts_used.add(unit)
            return True
        return False

    for rid, stores in groups.items():
        incs = []
        for a, t, v, s, k in stores:
            if a != "n_evals":
                continue
            if k == "aug" and isinstance(s.op, ast.Add) and _is_unit(v):
                incs.append(s)
            elif k == "assign":
                # np.maximum(1, n + 1) on a fresh row
                plus = [n for n in ast.walk(v) if isinstance(n, ast.BinOp) and isinstance(n.op, ast.Add) and (_is_unit(n.right) or _is_unit(n.left))]
                if plus:
                    incs.append(s)
                else:
                    ctx.fail(rec, s, "n_evals is overwritten without counting the new observation")
        rn = cfg.nodes[rid].stmt
        if len(incs) == 1:
            ctx.ok(rec, incs[0], "n_evals + 1 once on this path")
        else:
            ctx.fail(rec, rn, f"n_evals is advanced {len(incs)} times on the path ending at this return (expected exactly once)", construct=f"n_evals increments on path -> {canon(rn.value)}: {len(incs)}")

    if unit is not None:
        # a path that weighs the observation by the amount parameter elsewhere (timing mean, merged value) must count it
        # by the same amount
        for rid, stores in groups.items():
            uses_unit = any(v is not None and a != "n_evals" and any(isinstance(n_, ast.Name) and n_.id == unit for n_ in ast.walk(v)) for a, t, v, s, k in stores)
            for a, t, v, s, k in stores:
                if a == "n_evals" and v is not None and uses_unit and not any(isinstance(n_, ast.Name) and n_.id == unit for n_ in ast.walk(v)):
                    ctx.fail(rec, s, f"this path weighs the observation by '{unit}' in its other per-row updates but advances the observation count by 1: a value that summarises several evaluations is under-counted", construct=f"n_evals += 1 on a path weighted by {unit}")

    # ------------------------------------------------------------------ R9
    ctx.rule("R9", "no in-place numpy operation (overwrite_input=True, sort / partition / fill / shuffle) on a view of a log table outside the logger", floor=0)
    from .common import deref_expr as _dx9

    def _log_view(fn_, e_):
        d_ = _dx9(prog, fn_, e_)
        for _ in range(6):
            if isinstance(d_, ast.Subscript):
                sl_ = d_.slice
                basic = isinstance(sl_, (ast.Slice, ast.Constant)) or (isinstance(sl_, ast.Tuple) and all(isinstance(x_, (ast.Slice, ast.Constant)) for x_ in sl_.elts))
                if not basic:
                    return None  # fancy / boolean indexing copies
                d_ = d_.value
            elif isinstance(d_, ast.Attribute) and d_.attr == "T":
                d_ = d_.value
            elif isinstance(d_, ast.Call) and isinstance(d_.func, ast.Attribute) and d_.func.attr in ("reshape", "ravel", "view", "squeeze", "transpose") :
                d_ = d_.func.value
            elif isinstance(d_, ast.Call) and call_name(d_) in ("np.asarray", "np.atleast_2d", "np.atleast_1d", "np.ravel", "np.reshape") and d_.args:
                d_ = d_.args[0]
            else:
                break
        c_ = canon(d_)
        if isinstance(d_, ast.Attribute) and d_.attr in arrays and (c_.startswith("LOG.") or "logger" in c_.lower()):
            return c_
        return None

    n9 = 0
    for fn_ in prog.functions():
        if fn_.cls is R.logger_cls:
            continue
        for c_ in ast.walk(fn_.node):
            if not isinstance(c_, ast.Call):
                continue
            victim = None
            ow = kw(c_, "overwrite_input")
            if ow is not None and not (isinstance(ow, ast.Constant) and ow.value is False) and c_.args:
                victim = c_.args[0]
            elif isinstance(c_.func, ast.Attribute) and c_.func.attr in ("sort", "partition", "fill", "resize", "itemset", "put") and not call_name(c_).startswith("np."):
                victim = c_.func.value
            elif isinstance(c_.func, ast.Attribute) and c_.func.attr == "shuffle" and c_.args:
                victim = c_.args[0]
            if victim is None:
                continue
            n9 += 1
            hit = _log_view(fn_, victim)
            if hit:
                ctx.fail(fn_, c_, f"{canon(c_.func)} works in place on a view of the log table {hit}: recorded rows are re-ordered / overwritten (a logged point no longer pairs with its value)", construct=f"in-place {canon(c_.func)} on {hit}")
            else:
                ctx.ok(fn_, c_, f"in-place {canon(c_.func)} not on a log view")
    ctx.extra["inplace_numpy_calls_examined"] = n9

    # ------------------------------------------------------------------ R8
    ctx.rule("R8", "finalize trims the per-row arrays consistently to the filled rows", floor=1)
    fin = R.logger_cls.find_method("finalize")
    if fin is None:
        ctx.note("no finalize method")
        ctx.rules["R8"].floor = 0
    else:
        ups = {}
        for t, v, s, k in iter_stores(fin.node):
            a = self_attr_of(t)
            if a in arrays and isinstance(v, ast.Subscript) and self_attr_of(v.value) == a and isinstance(v.slice, ast.Slice):
                from .common import deref_canon as _dcn

                ups[a] = (canon(v.slice.lower) if v.slice.lower else "0", _dcn(prog, fin, v.slice.upper), s)  # n = self.Xn + 1 in a local
            elif a in arrays:
                ctx.fail(fin, s, f"finalize re-binds {a} to something other than a prefix of itself", construct=f"finalize {a} <- {canon(v)[:40]}")
        bounds = {(lo, up) for lo, up, _s in ups.values()}
        if len(bounds) > 1:
            ctx.fail(fin, fin.node, f"finalize trims the per-row arrays to different lengths {sorted(bounds)}: records get out of step", construct="finalize bounds " + "|".join(sorted(up for lo, up in bounds)))
        elif bounds:
            lo, up = next(iter(bounds))
            ctx.check(lo == "0" and up in ("(1 + self.Xn)",), fin, fin.node, f"{len(ups)} arrays trimmed to [:Xn+1]", f"finalize trims to [{lo}:{up}], not to the filled rows [:Xn+1]: the last record is lost or empty rows are kept", construct=f"finalize bound {lo}:{up}")

    ctx.assume("numpy semantics: argwhere of a rank-1 mask yields row indices; np.append(a, b, axis=0) keeps a's rows first")
    ctx.assume("per-row arrays are exactly those allocated in FunctionLogger.__init__ with cache_size rows")


def guard_canon_(prog, fn, node):
    from ..terms import guard_canon

    return guard_canon(prog, fn, node)


def _guards_equivalent(prog, R, ga, gg):
    """two different guards on logger attributes are accepted when each attribute is
    written only in the logger's constructor (immutable afterwards) and BADS constructs
    the logger with the equivalent values (noise_flag = level > 0)."""
    import re

    attrs = set()
    for g in list(ga) + list(gg):
        attrs |= set(re.findall(r"self\.(\w+)", g))
    init = R.logger_cls.find_method("__init__")
    for fn in prog.functions():
        for t, v, s, k in iter_stores(fn.node):
            b = store_base(t)
            if isinstance(b, ast.Attribute) and b.attr in attrs:
                recv_is_logger = (fn.cls is R.logger_cls and isinstance(b.value, ast.Name) and b.value.id == "self") or canon(b.value) == "LOG"
                if recv_is_logger and fn is not init:
                    return f"attribute {b.attr} of the logger is modified after construction in {fn.short}"
    okset = {("self.noise_flag",), ("(0 < self.uncertainty_handling_level)",), ("(1 <= self.uncertainty_handling_level)",)}
    if tuple(ga) in okset and tuple(gg) in okset:
        bnd = R.logger_ctor_bound
        nf, lv = bnd.get("noise_flag"), bnd.get("uncertainty_handling_level")
        if nf is not None and lv is not None and canon(nf) in (f"(0 < {canon(lv)})", f"(1 <= {canon(lv)})"):
            return True
        return "BADS does not construct the logger with noise_flag = (level > 0)"
    return "conditions not comparable"


def find_appends(fn: FunctionInfo):
    """[(attr, np.append call, stmt)] for ``self.A = np.append(self.A, ...)`` /
    concatenate / vstack."""
    out = []
    for t, v, s, k in iter_stores(fn.node):
        a = self_attr_of(t)
        if a is None or not isinstance(t, ast.Attribute) or not isinstance(v, ast.Call):
            continue
        if call_name(v) in ("np.append",):
            out.append((a, v, s))
    return out
