"""C17 -- candidate filtering: no duplicates, nothing infeasible or already
evaluated."""
from __future__ import annotations

import ast

from ..cfg import cfg_of
from ..model import FunctionInfo, bind_args
from ..roles import roles_of
from ..terms import canon, const_num, guard_canon, norm_stmt
from .common import kw
from .points import FilterSummary, PointAnalysis

EXPLANATION = (
    "R1 pipeline: the assignments to the filter's result variable are classified (box clamp to the bound parameters / negated two-sided "
    "out-of-box row mask, np.unique(axis=0) de-duplication, evaluated-row removal, constraint selection C <= 0 on inverse(result)); every stage "
    "must be present with the right polarity, in this dataflow order, and executed on every path to the return (CFG reachability avoiding the "
    "stage). R2 removal is a set difference: row-set abstract interpretation of the unique-of-stack idiom (first-occurrence semantics of "
    "return_index: with the candidates stacked first, keeping indices < len(candidates) keeps all of them). R3 only filtered rows reach the "
    "target: every logger-call argument carries the filter's tags or is a point slot; the only no-record evaluations are the noise test "
    "(guard level < 1) and the final samples (guard level > 0). Rows must carry the box, removal and constraint stages. Decides the filter's structure, not floating-point coincidences within tol."
    " R4 = C02-R5 (identity of the stored constraint callable)."
)


def check(ctx):
    prog = ctx.prog
    R = roles_of(prog)
    fs = FilterSummary(prog, R)
    fn = fs.fn
    cfg = cfg_of(fn)
    retn = cfg.node_of(fs.ret)

    # ------------------------------------------------------------------ R1
    ctx.rule("R1", "filter stages present, correctly polarised, ordered, and on every path", floor=5)
    for st in fs.stages:
        if st.kind == "removal":
            continue  # R2
        if st.kind == "other":
            ctx.fail(fn, st.stmt, st.why, construct="filter result recomputed: " + norm_stmt(st.stmt)[:80])
        elif st.ok is False:
            ctx.fail(fn, st.stmt, f"{st.kind} stage: {st.why}", construct=f"{st.kind}: {norm_stmt(st.stmt)[:80]}")
        elif st.kind != "select-unknown":
            ctx.ok(fn, st.stmt, f"{st.kind} {st.detail}")
    pt = fs.path_tags()
    box = [s for s in fs.stages if s.kind in ("box-clamp", "box-drop")]
    if not box:
        ctx.missing(fn, "box stage (projection onto / removal outside the bound parameters)")
    elif "BOX" not in pt and all(b.ok for b in box) and not fs.stage("other"):
        ctx.fail(fn, fn.node, "a path through the filter reaches the return without any box stage", construct="path without box stage")
    elif "BOX" in pt:
        ctx.ok(fn, box[0].stmt, "every path passes a box stage")
    for kind, tag, what in (("dedupe", "UNIQ", "row de-duplication (np.unique(axis=0) with order restored)"),):
        sts = fs.stage(kind)
        if not sts and kind == "dedupe" and any(r.detail.get("dedupes") for r in fs.stage("removal")):
            # no separate exact pass: the unique-over-rounded-rows pass keeps first occurrences of distinct rows of the
            # candidate block, which de-duplicates it (it must then lie on every path, like a dedupe stage)
            sts = [r for r in fs.stage("removal") if r.detail.get("dedupes")]
            if tag not in pt and not fs.stage("other"):
                ctx.fail(fn, sts[0].stmt, "the only de-duplicating pass (unique over the rounded stacked rows) can be bypassed on a path to the return", construct="bypass of dedupe")
            else:
                ctx.ok(fn, sts[0].stmt, "de-duplication by the unique-over-rounded-rows pass on every path")
            continue
        if not sts:
            ctx.missing(fn, what)
            continue
        if tag not in pt and all(x.ok for x in sts) and not fs.stage("other"):
            ctx.fail(fn, sts[0].stmt, f"{kind} stage can be bypassed on a path to the return", construct=f"bypass of {kind}")
        elif tag in pt:
            ctx.ok(fn, sts[0].stmt, f"every path passes the {kind} stage")
        if kind == "dedupe" and not sts[0].detail.get("order_restored"):
            ctx.note("de-duplication does not restore the original row order (np.sort of the first-occurrence indices is absent)")
    cons = fs.stage("constraint")
    if not cons:
        ctx.missing(fn, "constraint stage (rows with C <= 0 on the inverse transform of the candidates)")
    elif all(c.ok for c in cons) and not fs.stage("other"):
        ctx.check("FEAS" in pt, fn, cons[0].stmt, "with a constraint callable every returning path applies the constraint selection", "with a constraint callable supplied, a path reaches the return without the constraint selection", construct="constraint stage bypass")
    # dataflow order: the constraint callable only ever sees boxed rows (the policy drops FEAS otherwise); the removal
    # compares de-duplicated rows
    if fs.stage("removal") and "REM" not in pt and not fs.stage("other"):
        ctx.fail(fn, fs.stage("removal")[0].stmt, "the removal of evaluated rows can be bypassed on a path to the return (for a non-empty candidate set)", construct="bypass of removal")

    # ------------------------------------------------------------------ R2
    ctx.rule("R2", "evaluated-row removal is a set difference against the log", floor=1)
    rem = fs.stage("removal")
    if not rem:
        ctx.missing(fn, "removal of previously evaluated rows")
    for st in rem:
        if st.ok is True:
            ctx.ok(fn, st.stmt, st.why)
        elif st.ok is False:
            ctx.fail(fn, st.stmt, st.why, construct="removal idiom: candidates stacked first, keep idx < len(candidates)")
        else:
            ctx.undecided(f"removal idiom at line {st.stmt.lineno}: {st.why}")
    # both blocks are rounded to the same tolerance = half the mesh tolerance
    from ..terms import linear
    from .common import iter_stores as _is, reaching_assignments as _ra

    for st in rem:
        stack = None
        for n in ast.walk(fn.node):
            if isinstance(n, ast.Call) and canon(n.func) in ("np.vstack", "np.concatenate") and n.args and isinstance(n.args[0], (ast.Tuple, ast.List)) and len(n.args[0].elts) == 2:
                stack = n
        if stack is None:
            continue
        tols = []
        for e in stack.args[0].elts:
            d = e
            if isinstance(d, ast.Name):
                dd = _ra(prog, fn, d.id, stack)
                d = dd[0] if len(dd) == 1 else d
            if isinstance(d, ast.Call) and canon(d.func) == "np.round" and d.args and isinstance(d.args[0], ast.BinOp) and isinstance(d.args[0].op, ast.Div):
                tols.append(d.args[0].right)
            else:
                tols.append(None)
        if None in tols:
            ctx.undecided("the blocks compared for coincidence are not both np.round(rows / tol)")
            continue
        same = canon(tols[0]) == canon(tols[1])
        tdef = tols[0]
        if isinstance(tdef, ast.Name):
            dd = _ra(prog, fn, tdef.id, stack)
            tdef = dd[0] if len(dd) == 1 else tdef
        lt, lc = linear(tdef)
        tolp = fs.params[3] if len(fs.params) > 3 else "tol_mesh"
        half = lt == {tolp: __import__("fractions").Fraction(1, 2)} and lc == 0
        ctx.check(same and half, fn, stack, "candidates and log rounded to the same tolerance tol_mesh/2", f"coincidence with evaluated points is tested at tolerance '{canon(tdef)}' (candidates: {canon(tols[0])}, log: {canon(tols[1])}), not half the mesh tolerance for both", construct=f"coincidence tolerance {canon(tdef)} / {canon(tols[0])} vs {canon(tols[1])}")
    # the log slice compared against must cover all filled rows
    for st in rem:
        for n in ast.walk(fn.node):
            if isinstance(n, ast.Subscript) and canon(n.value) in ("LOG.X", f"{fs.p_logger}.X") and isinstance(n.slice, ast.Slice):
                up = n.slice.upper
                from .common import deref_canon

                okc = up is not None and (canon(up) in ("(1 + X_max_idx)", "(1 + LOG.X_max_idx)", "(1 + LOG.Xn)") or deref_canon(prog, fn, up) in ("(1 + LOG.X_max_idx)", "(1 + LOG.Xn)", f"(1 + {fs.p_logger}.X_max_idx)", f"(1 + {fs.p_logger}.Xn)")) and n.slice.lower is None
                ctx.check(okc, fn, n, f"compared against log rows [:{canon(up)}]", "the evaluated-row comparison does not cover all filled log rows", construct=f"log slice {canon(n.slice)}")

    # ------------------------------------------------------------------ R3
    ctx.rule("R3", "only filtered rows (or point slots) reach the logger; no-record evaluations are the noise test and the final samples only", floor=6)
    pa = PointAnalysis(prog, R, fs)
    for f in R.evaluating_functions():
        fl = pa.flow(f)
        for call in R.logger_calls(f):
            arg = call.args[0] if call.args else None
            tags = fl.tags(arg) if arg is not None else None
            if tags is None:
                continue
            slot = canon(arg) in ("self.u", "self.u_best")
            if slot:
                ctx.ok(f, call, f"logger({canon(arg)}) evaluates a point slot")
            elif {"BOX", "FILT"} <= tags and "FEAS" not in tags:
                ctx.fail(f, call, f"the point handed to the logger ({canon(arg)}) comes from a candidate set that was filtered without the user's constraint function on some path (tags {sorted(tags)})", construct=f"logger argument {canon(arg)} not checked against the constraints")
            elif {"BOX", "FILT"} <= tags:
                ctx.ok(f, call, f"logger({canon(arg)}) evaluates a row of a filtered candidate set")
            else:
                ctx.fail(f, call, f"the point handed to the logger ({canon(arg)}) is neither a row of a filtered candidate set nor the incumbent slot (tags {sorted(tags)})", construct=f"unfiltered logger argument {canon(arg)}")
            # no-record flag
            flag = None
            b = bind_args(R.logger_call, call)
            params = [p for p in R.logger_call.params if p != "self"]
            if len(params) > 1:
                flag = b.get(params[1])
            if flag is not None and isinstance(flag, ast.Constant) and flag.value is False:
                g = guard_canon(prog, f, call)
                lvl = [x for x in g if "OS[uncertainty_handling_level]" in x]
                is_noise_test = any(x in ("(OS[uncertainty_handling_level] < 1)", "(OS[uncertainty_handling_level] <= 0)", "(0 == OS[uncertainty_handling_level])") for x in lvl)
                is_final = any(x in ("(0 < OS[uncertainty_handling_level])", "(1 <= OS[uncertainty_handling_level])") for x in lvl)
                in_loop = any(isinstance(p, (ast.For, ast.While)) for p in prog.ancestors(call))
                if is_noise_test and not in_loop and slot:
                    ctx.ok(f, call, "noise test: single no-record repeat at the start point under level < 1")
                elif is_final and slot:
                    ctx.ok(f, call, "final sampling: no-record repeats at the returned point under level > 0")
                else:
                    ctx.fail(f, call, "a repeat evaluation with the no-record flag exists that is neither the single noise test (level < 1, outside loops) nor the final sampling (level > 0): a deterministic target can be evaluated twice at the same point",
                             construct=f"no-record logger call under {' & '.join(lvl) or 'no level guard'}")
    ctx.rule("R4", "the constraint callable handed to the filter is the user's own (or a wrapper that only reshapes its result)", floor=1)
    from .c02 import constraint_identity

    constraint_identity(ctx, prog, R)
    ctx.assume("np.unique(..., axis=0, return_index=True) returns the index of the first occurrence of each distinct row")
    ctx.assume("coincidence 'within half the mesh tolerance' is decided by the rounding to tol the code applies; rounding error is not analysed")
