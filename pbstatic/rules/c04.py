"""C04 -- deterministic targets: result is the best evaluated point, reported
truthfully."""
from __future__ import annotations

import ast
from fractions import Fraction
from typing import Dict, List, Optional, Tuple

from ..cfg import cfg_of
from ..flow import TagFlow
from ..model import AnalysisError, FunctionInfo, bind_args
from ..roles import roles_of
from ..terms import guard_extra, call_name, canon, cmp_normal, conjuncts, const_num, guard_canon, linear, norm_stmt, state_key
from .c12 import ProvPolicy
from .common import attr_stores, iter_stores, reaching_assignments, self_attr_of, pos

EXPLANATION = (
    "R1 after the main loop every store to the incumbent tuple (u, yval, fval, fsd) is under the noisy-mode guard, so for deterministic targets "
    "the result fields copy the incumbent as the last iteration left it; the incumbent update stores its four parameters into the matching "
    "slots (parameter provenance). R2 point-value pairing: at every incumbent-update call site the four arguments form a store group whose "
    "members are assigned together, either from the current incumbent tuple or from one logger call (point = that call's argument, value = "
    "its first output); in deterministic branches the estimate is the observation and the SD argument is the literal 0. R3 orientation: the "
    "improvement function is f_base - f_new (+ a dispersion term) in both of its branches, the search/poll callers pass the incumbent estimate "
    "first, a move requires improvement > 0 (strict) or > the forcing function, the running poll best starts at 0 and is replaced on '>' only, "
    "and the initial incumbent is argmin over the filled part of the log with point and value taken at the same index. R4 fsd = 0 on the "
    "deterministic branch of the initialisation. Relies on the log storing the value unchanged (C12-R3)."
    " R4 also requires the deterministic fsd = 0 to carry no guard beyond the noise level."
)

GROUP = ("u", "yval", "fval", "fsd")


def strip_copy(e):
    while isinstance(e, ast.Call) and isinstance(e.func, ast.Attribute) and e.func.attr in ("copy", "flatten", "item") and not e.args:
        e = e.func.value
    return e


def _upper_canon(prog, fn, up, at):
    """canonical upper bound of a log slice; a local computed *after* the evaluations (``n = LOG.Xn + 1``) is expanded."""
    if up is None:
        return None
    if isinstance(up, ast.Name):
        from .common import reaching_assignments as _ra

        dd = _ra(prog, fn, up.id, at)
        if len(dd) == 1:
            return canon(dd[0])
    return canon(up)


def check(ctx):
    prog = ctx.prog
    R = roles_of(prog)
    opt = R.optimize
    upd = R.incumbent_update

    # ------------------------------------------------------------------ R1
    ctx.rule("R1", "after the main loop the incumbent tuple changes only in noisy mode; the update stores its parameters into the matching slots", floor=6)
    cfg = cfg_of(opt)
    loops = [n for n in cfg.nodes if n.kind == "test" and isinstance(n.stmt, ast.While)]
    if not loops:
        raise AnalysisError("optimize() has no main loop")
    main = loops[0].stmt
    end = max(pos(n) for n in ast.walk(main))
    for t, v, s, k in iter_stores(opt.node):
        a = self_attr_of(t)
        if a in GROUP + ("u_best",) and isinstance(t, ast.Attribute) and pos(s) > end:
            g = guard_canon(prog, opt, s)
            noisy = any(x in ("(0 < OS[uncertainty_handling_level])", "(1 <= OS[uncertainty_handling_level])") for x in g)
            ctx.check(noisy, opt, s, f"post-loop store to self.{a} under the noisy-mode guard", f"after the main loop self.{a} is modified also for deterministic targets: the result no longer reports the incumbent found", construct=f"post-loop store self.{a} <- {canon(v)[:50]}")
    params = [p for p in upd.params if p != "self"]
    pf = TagFlow(prog, upd, ProvPolicy(params))
    want = {"self.u": params[0], "self.u_best": params[0], "OS[u]": params[0], "self.yval": params[1], "OS[yval]": params[1], "self.fval": params[2], "OS[fval]": params[2], "self.fsd": params[3], "OS[fsd]": params[3]}
    seen = set()
    for t, v, s, k in iter_stores(upd.node):
        c = canon(t)
        if c in want:
            seen.add(c)
            tg = pf.tags(v)
            ctx.check(tg is not None and f"P:{want[c]}" in tg, upd, s, f"{c} <- parameter {want[c]}", f"the incumbent update stores something other than its '{want[c]}' argument into {c}", construct=f"{c} <- {canon(v)[:50]}")
    for c in ("self.u", "self.yval", "self.fval", "self.fsd"):
        if c not in seen:
            ctx.missing(upd, f"store of {c} in the incumbent update")

    # ------------------------------------------------------------------ R2
    ctx.rule("R2", "every incumbent move hands over a (point, value) pair from one target call", floor=2)
    for caller, call in prog.callers_of(upd):
        b = bind_args(upd, call)
        args = [b.get(p) for p in params[:4]]
        if any(a is None or not isinstance(a, ast.Name) for a in args):
            ctx.fail(caller, call, "an incumbent move is called with arguments that are not the step's (point, value, estimate, sd) locals", construct=f"update args {[canon(a) for a in args]}")
            continue
        names = [a.id for a in args]
        _pairing(ctx, prog, R, caller, call, names)

    # ------------------------------------------------------------------ R3
    ctx.rule("R3", "improvement = f_base - f_new; incumbent first; strict moves; running best replaced on '>' only; initial incumbent = argmin at one index", floor=9)
    imp = None
    ssn = R.search_step
    for t, v, s, k in iter_stores(ssn.node):
        if isinstance(t, ast.Name) and isinstance(v, ast.Call):
            tg = [x for x in prog.resolve_call(ssn, v) if isinstance(x, FunctionInfo) and (x.cls is R.bads or x.cls is None)]  # a method or a module-level helper
            if not tg:
                continue
            used_vs_zero = any(isinstance(n, ast.Compare) and len(n.ops) == 1 and {canon(n.left), canon(n.comparators[0])} == {t.id, "0"} for n in ast.walk(ssn.node))
            if used_vs_zero:
                imp = tg[0]
    if imp is None:
        ctx.missing(R.bads.module.relpath, "improvement function (f_base - f_new)")
    else:
        ps = [p for p in imp.params if p != "self"]
        rets = [n for n in ast.walk(imp.node) if isinstance(n, ast.Return)]
        def _unflat(e_):
            while isinstance(e_, ast.Call) and isinstance(e_.func, ast.Attribute) and e_.func.attr in ("flatten", "ravel") and not e_.args:
                e_ = e_.func.value
            return e_

        # every returned value: a local (all its defining expressions) or an expression returned directly (early return)
        zdefs = []
        for r_ in rets:
            rv = _unflat(r_.value) if r_.value is not None else None
            if isinstance(rv, ast.Name):
                for t, v, s, k in iter_stores(imp.node):
                    if isinstance(t, ast.Name) and t.id == rv.id and not (isinstance(_unflat(v), ast.Name) and _unflat(v).id == rv.id) and not any(s is s0 for _n, _v, s0 in zdefs):
                        zdefs.append((rv.id, _unflat(v), s))
            elif rv is not None:
                zdefs.append(("the returned value", rv, r_))
        n_def = 0
        for zname, v, s in zdefs:
            if True:
                # expand one level of locals (mu)
                e = v
                lt, lc = linear(e)
                exp = {}
                for atom, coef in lt.items():
                    sub = None
                    for t2, v2, s2, k2 in iter_stores(imp.node):
                        if isinstance(t2, ast.Name) and t2.id == atom and pos(s2) < pos(s):
                            sub = v2
                    if sub is not None:
                        l2, c2 = linear(sub)
                        for a2, co2 in l2.items():
                            exp[a2] = exp.get(a2, 0) + coef * co2
                    else:
                        exp[atom] = exp.get(atom, 0) + coef
                n_def += 1
                okz = exp.get(ps[0]) == 1 and exp.get(ps[1]) == -1
                ctx.check(okz, imp, s, f"{zname} = {ps[0]} - {ps[1]} (+ dispersion)", f"the improvement is not oriented as {ps[0]} - {ps[1]} (larger = better for minimisation) on this branch", construct=f"improvement {zname} = {canon(v)[:60]}")
        if n_def == 0:
            ctx.missing(imp, "definition of the improvement value")
        for caller in (R.search_step, R.poll_step):
            for c, tg in prog.calls_in(caller):
                if imp in tg:
                    pst = prog.parent(c)
                    if not (isinstance(pst, ast.Assign) and isinstance(pst.targets[0], ast.Name)):
                        continue  # the stall statistic (history base first) is not a move decision
                    bb = bind_args(imp, c)
                    base_ = bb.get(ps[0])
                    if isinstance(base_, ast.Name):
                        # the estimate read into a local before the loop: the same thing as long as nothing re-assigns
                        # self.fval between that read and this call
                        from .common import attr_stable_between, enclosing_stmt

                        dd_ = reaching_assignments(prog, caller, base_.id, c)
                        if len(dd_) == 1 and canon(dd_[0]) == "self.fval" and attr_stable_between(prog, caller, "fval", enclosing_stmt(prog, dd_[0]), c):
                            base_ = dd_[0]
                    bb = dict(bb)
                    bb[ps[0]] = base_
                    ctx.check(canon(bb.get(ps[0])) == "self.fval", caller, c, "incumbent estimate passed as f_base", f"the improvement of a candidate is computed against '{canon(bb.get(ps[0]))}', not the incumbent estimate", construct=f"improvement base {canon(bb.get(ps[0]))}")
    # strictness of moves
    ss, pstep = R.search_step, R.poll_step
    moves = []
    for caller, call in prog.callers_of(upd):
        g = []
        from ..terms import guard_of

        for t, pol in guard_of(prog, caller, call):
            g.append((t, pol))
        moves.append((caller, call, g))
    # a move guarded by a boolean flag whose definitions are the literals True / False (a predicate helper with early
    # returns, inlined): the conditions of the move are the guards of the ``flag = True`` stores, one virtual move each
    expanded = []
    for caller, call, g in moves:
        flag_tests = [(t, pol) for t, pol in g if isinstance(t, ast.Name) and pol]
        done_ = False
        for t, pol in flag_tests:
            stores_ = [(v_, s_) for t_, v_, s_, k_ in iter_stores(caller.node) if isinstance(t_, ast.Name) and t_.id == t.id]
            if stores_ and all(isinstance(v_, ast.Constant) and isinstance(v_.value, bool) for v_, s_ in stores_):
                rest_g = [(t2, p2) for t2, p2 in g if t2 is not t]
                for v_, s_ in stores_:
                    if v_.value is True:
                        expanded.append((caller, call, rest_g + list(guard_of(prog, caller, s_))))
                done_ = True
                break
        if not done_:
            expanded.append((caller, call, g))
    moves = expanded
    for caller, call, g in moves:
        conds = []
        for t, pol in g:
            e = t
            if isinstance(e, ast.Name):
                defs = reaching_assignments(prog, caller, e.id, call)
                conds += [(d, pol) for d in defs]
            else:
                conds.append((e, pol))
        strict_ok = False
        bad = None
        for e, pol in conds:
            for n in ast.walk(e):
                if isinstance(n, ast.Compare) and len(n.ops) == 1:
                    nf = cmp_normal(n)
                    if nf is None:
                        continue
                    rel, (form, const) = nf
                    form = dict(form)
                    impr = [k for k in form if "improvement" in k and "sufficient" not in k]
                    if not impr:
                        continue
                    if rel == "<" and form[impr[0]] == -1:
                        strict_ok = True
                    elif rel in ("<=",) and form[impr[0]] == -1:
                        # improvement >= positive forcing term still implies a strict improvement
                        if any("sufficient" in k for k in form if k != impr[0]):
                            strict_ok = True
                        else:
                            bad = n
                    elif form[impr[0]] == 1 and rel in ("<", "<="):
                        bad = n
        stob = any("stobads" in canon(t) or "sto_success" in canon(t) or "certain_good_poll" in canon(t) for t, p in g)
        if bad is not None:
            ctx.fail(caller, bad, f"an incumbent move is admitted by '{canon(bad)}': a non-improving candidate can replace the incumbent", construct=f"move condition {canon(bad)}")
        elif strict_ok or stob:
            ctx.ok(caller, call, "move requires improvement > 0 / > forcing (strict)" if strict_ok else "StoBADS decision branch")
        else:
            ctx.fail(caller, call, "no strict improvement test guards this incumbent move", construct="unguarded incumbent move")
    # running poll best
    pb = None
    for node in ast.walk(pstep.node):
        if isinstance(node, ast.If):
            nf = cmp_normal(node.test)
            if nf and nf[0] in ("<", "<="):
                form = dict(nf[1][0])
                if len(form) == 2 and all("improvement" in k for k in form):
                    pb = (node, nf)
    if pb is None:
        ctx.missing(pstep, "comparison of the polled improvement with the best so far")
    else:
        node, nf = pb
        form = dict(nf[1][0])
        best = [k for k in form if "best" in k]
        okb = nf[0] == "<" and best and form[best[0]] == 1
        ctx.check(bool(okb), pstep, node, "poll best replaced only on a strictly larger improvement", f"the running poll best is replaced under '{canon(node.test)}' (ties or worse points can replace it)", construct=f"poll best test {canon(node.test)}")
        if best:
            inits = [v for t, v, s, k in iter_stores(pstep.node) if isinstance(t, ast.Name) and t.id == best[0] and k == "assign" and not any(s in ast.walk(x) for x in ast.walk(pstep.node) if isinstance(x, ast.While))]
            ctx.check(any(const_num(v) == 0 for v in inits), pstep, node, f"{best[0]} starts at 0", f"{best[0]} does not start at 0: a non-improving poll point can become the incumbent", construct=f"{best[0]} initial value")
    # initial incumbent
    mesh = R.init_mesh
    mcfg = cfg_of(mesh)

    def deref(e, at, hops=3):
        """follow plain local aliases (Y_log = f_logger.Y; f_logger = self.function_logger)."""
        stale = None
        for _ in range(hops):
            changed = False
            for n in list(ast.walk(e)):
                if isinstance(n, ast.Name) and isinstance(n.ctx, ast.Load) and n.id not in mesh.params:
                    defs = reaching_assignments(prog, mesh, n.id, at)
                    d0 = defs[0] if len(defs) == 1 else None
                    while isinstance(d0, ast.Call) and isinstance(d0.func, ast.Attribute) and d0.func.attr in ("copy", "item") and not d0.args:
                        d0 = d0.func.value  # a row / value of the log parked in a local (with its copy)
                    if len(defs) == 1 and (isinstance(defs[0], (ast.Attribute, ast.Name)) or isinstance(d0, ast.Subscript)):
                        d = defs[0]
                        # staleness: a log array bound to a local before evaluations that may re-bind it (cache growth)
                        if canon(d).startswith("LOG.") or (isinstance(d, ast.Attribute) and d.attr in ("X", "Y", "S", "X_orig", "Y_orig")):
                            dstmt = d
                            while not isinstance(dstmt, ast.stmt):
                                dstmt = prog.parent(dstmt)
                            dn, an = mcfg.node_of(dstmt), mcfg.node_of(at)
                            if dn is not None and an is not None:
                                between = mcfg.reachable(dn.id) & {mcfg.node_of(c).id for c in R.logger_calls(mesh) if mcfg.node_of(c) is not None}
                                if any(an.id in mcfg.reachable(b) for b in between):
                                    stale = (n.id, canon(d), dstmt)
                        from .growth import subst

                        e = subst(e, {n.id: d})
                        changed = True
                        break
            if not changed:
                break
        return e, stale

    ams = [n for n in ast.walk(mesh.node) if isinstance(n, ast.Call) and call_name(n) in ("np.argmin", "np.argmax", "np.nanargmin", "np.nanargmax")]
    found = False
    for am in ams:
        st = prog.parent(am)
        # idx = np.argmin(..).item() / int(np.argmin(..)): the index as a Python int
        while isinstance(st, (ast.Attribute, ast.Call)) and (
                (isinstance(st, ast.Attribute) and st.attr == "item") or (isinstance(st, ast.Call) and (isinstance(st.func, ast.Attribute) and st.func.attr == "item" or call_name(st) in ("int",)))):
            st = prog.parent(st)
        if not isinstance(st, ast.Assign) or not isinstance(st.targets[0], ast.Name):
            continue
        idx = st.targets[0].id
        usesX, usesY, stales = [], [], []
        for t, v, s, k in iter_stores(mesh.node):
            a = self_attr_of(t)
            if a in ("u", "yval") and v is not None and isinstance(t, ast.Attribute):
                dv, stl = deref(strip_copy(v), s)
                dv = strip_copy(dv)
                while isinstance(dv, ast.Call) and isinstance(dv.func, ast.Attribute) and dv.func.attr in ("item", "copy") and not dv.args:
                    dv = strip_copy(dv.func.value)  # the scalar / a copy taken before the value is parked in a local
                if idx not in {x.id for x in ast.walk(dv) if isinstance(x, ast.Name)}:
                    continue
                if stl:
                    stales.append(stl)
                # the row as a Python scalar / through a view of the filled rows: float(LOG.Y[:n, 0][i]) is LOG.Y[i]
                while isinstance(dv, ast.Call) and call_name(dv) in ("float", "int", "np.float64") and len(dv.args) == 1:
                    dv = strip_copy(dv.args[0])
                if isinstance(dv, ast.Subscript) and isinstance(dv.slice, ast.Name) and isinstance(dv.value, ast.Subscript) and canon(dv.value.value) in ("LOG.Y", "LOG.X"):
                    isl = dv.value.slice
                    rows = isl.elts[0] if isinstance(isl, ast.Tuple) and len(isl.elts) == 2 and const_num(isl.elts[1]) == 0 and canon(dv.value.value) == "LOG.Y" else isl
                    if isinstance(rows, ast.Slice) and rows.lower is None and rows.step is None:
                        dv = ast.Subscript(value=dv.value.value, slice=dv.slice, ctx=ast.Load())
                if isinstance(dv, ast.Subscript) and isinstance(dv.slice, ast.Tuple) and len(dv.slice.elts) == 2 and const_num(dv.slice.elts[1]) == 0 and canon(dv.value) == "LOG.Y":
                    dv = ast.Subscript(value=dv.value, slice=dv.slice.elts[0], ctx=ast.Load())
                cv = canon(dv)
                if a == "u" and cv == f"LOG.X[{idx}]":
                    usesX.append(s)
                if a == "yval" and cv == f"LOG.Y[{idx}]":
                    usesY.append(s)
        arg, stl = deref(am.args[0], st)
        if stl:
            stales.append(stl)
        if not (usesX or usesY) and "LOG.Y" not in canon(arg):
            continue
        found = True
        for name, src, dstmt in stales:
            ctx.fail(mesh, dstmt, f"the local '{name}' is bound to the log array {src} before evaluations that can re-bind that array (the cache grows by re-allocation): the later read sees the stale, shorter array and ignores the points logged after the growth", construct=f"stale alias {name} = {src} across evaluations")
        ok_arg = False
        if isinstance(arg, ast.Subscript) and canon(arg.value) == "LOG.Y" and isinstance(arg.slice, ast.Tuple) and len(arg.slice.elts) == 2 and const_num(arg.slice.elts[1]) == 0 and isinstance(arg.slice.elts[0], ast.Slice):
            arg = ast.Subscript(value=arg.value, slice=arg.slice.elts[0], ctx=ast.Load())  # column 0 of the one-column value table
        if isinstance(arg, ast.Subscript) and canon(arg.value) == "LOG.Y" and isinstance(arg.slice, ast.Slice) and arg.slice.lower is None and _upper_canon(prog, mesh, arg.slice.upper, st) in ("(1 + LOG.Xn)", "(1 + LOG.X_max_idx)"):
            ok_arg = call_name(am) in ("np.argmin", "np.nanargmin")
        elif canon(arg) == "LOG.Y" and call_name(am) == "np.nanargmin":
            # the whole table: sound iff unfilled rows are NaN at allocation and after every growth
            ok_arg = _unfilled_rows_nan(prog, R, "Y")
            if not ok_arg:
                ctx.fail(mesh, st, "the initial incumbent is nanargmin over the whole value table, but unfilled rows of that table are not NaN everywhere (allocation / cache growth fill): an unfilled row can be selected as incumbent", construct="nanargmin over a table whose unfilled rows are not NaN")
                continue
        ctx.check(ok_arg and bool(usesX) and bool(usesY) and not stales, mesh, st, "initial incumbent = argmin of the filled log; point and value at the same index",
                  "the initial incumbent is not the argmin over the filled part of the log with point and value taken at the same index", construct=f"initial incumbent {canon(am)[:50]} -> X:{bool(usesX)} Y:{bool(usesY)}")
    if not found:
        ctx.missing(mesh, "selection of the initial incumbent from the log")

    # ------------------------------------------------------------------ R4
    ctx.rule("R4", "deterministic mode: fsd = 0 at initialisation; estimate = observation and SD literal 0 in the step branches", floor=3)
    det = []
    det_extra = []
    for fn in R.bads.methods.values():
        for t, v, s, k in iter_stores(fn.node):
            if self_attr_of(t) == "fsd" and isinstance(t, ast.Attribute) and const_num(v) == 0:
                g = guard_canon(prog, fn, s)
                lvl = ("(OS[uncertainty_handling_level] <= 0)", "not (0 < OS[uncertainty_handling_level])")
                if any(x in lvl for x in g):
                    det_extra.append((fn, s, guard_extra(prog, fn, s, lvl)))
                    det.append((fn, s))
    ctx.check(bool(det), opt, det[0][1] if det else None, "self.fsd = 0 on the deterministic branch", "fsd is not set to 0 for deterministic targets", construct="<missing deterministic fsd = 0>")
    if det_extra and all(ex for _f, _s, ex in det_extra):
        fn_, s_, ex = min(det_extra, key=lambda z: len(z[2]))
        ctx.fail(fn_, s_, f"self.fsd = 0 for deterministic targets is only executed under the additional condition {ex}: otherwise the placeholder SD of the initial evaluation (NaN) survives into the result", construct=f"deterministic fsd = 0 under {' & '.join(ex)[:80]}")
    for step in (R.search_step, R.poll_step):
        lcs = R.logger_calls(step)
        for c in lcs:
            st = prog.parent(c)
            if not (isinstance(st, ast.Assign) and isinstance(st.targets[0], ast.Tuple)):
                continue
            y = canon(st.targets[0].elts[0])
            okd = False
            for t, v, s, k in iter_stores(step.node):
                if isinstance(t, ast.Name) and canon(v) == y and t.id != y:
                    g = guard_canon(prog, step, s)
                    if any(x in ("(OS[uncertainty_handling_level] <= 0)",) for x in g):
                        # the SD sibling in the same block is the literal 0
                        blk = prog.parent(s)
                        sib = [x for x in (blk.orelse if s in getattr(blk, "orelse", []) else blk.body) if isinstance(x, ast.Assign) and const_num(x.value) == 0]
                        okd = bool(sib)
            ctx.check(okd, step, c, f"deterministic branch: estimate := {y}, sd := 0", f"in the deterministic branch of {step.short} the estimate is not the observation {y} with SD 0", construct=f"deterministic estimate in {step.short}")
    # ------------------------------------------------------------------ R5
    ctx.rule("R5", "start-up: whenever the observed value of the incumbent is (re)assigned the estimate follows it (fval = yval at the end of the initialisation)", floor=1)
    _initial_estimate_rule(ctx, prog, R)
    # ------------------------------------------------------------------ R6
    ctx.rule("R6", "noise level 0 (deterministic: fsd = 0, target_type deterministic) exactly when no noise handling is requested", floor=1)
    from .noiselevel import noise_level_table_rule

    noise_level_table_rule(ctx, prog, R)
    ctx.assume("the log stores the observed value unchanged (C12-R3); the default incumbent-update policy (stobads off)")


def _initial_estimate_rule(ctx, prog, R):
    """Forward must-dataflow over the initialisation routine: Y = the expression last stored into self.yval (as written, plus
    the spelling ``self.yval``), C = 'self.fval currently equals self.yval'.  A store ``self.fval = e`` establishes C iff e is
    one of the spellings in Y (a local that was re-bound since is dropped from Y); a store to self.yval clears C.  C must hold
    at every normal exit: a deterministic run that ends without a further move reports this pair."""
    from ..flow import BasePolicy, TagFlow

    mesh = R.init_mesh

    class P(BasePolicy):
        def initial(self, flow):
            return {"$y": frozenset(), "$c": frozenset({"C"})}

        def after_stmt(self, node, state, flow):
            st = node.stmt
            if node.kind != "stmt" or not isinstance(st, (ast.Assign, ast.AugAssign, ast.AnnAssign)):
                return state
            for t, v, s_, k in iter_stores(st):
                if isinstance(t, ast.Name):
                    # a re-bound local no longer spells the stored observation
                    state["$y"] = frozenset(x for x in state.get("$y", frozenset()) if t.id not in x.split("|")[1:])
                a = self_attr_of(t)
                if not isinstance(t, ast.Attribute) or a not in ("yval", "fval"):
                    continue
                names = "|".join(sorted({n.id for n in ast.walk(v) if isinstance(n, ast.Name)})) if v is not None else ""
                spelled = (canon(v) if k == "assign" else f"{canon(v)}#{k}") + "|" + names if v is not None else "?"
                if a == "yval":
                    if v is not None and canon(v) == "self.fval" and "C" in state.get("$c", frozenset()):
                        continue
                    state["$y"] = frozenset({spelled})
                    state["$c"] = frozenset()
                else:
                    ok = v is not None and (canon(v) == "self.yval" or spelled in state.get("$y", frozenset()))
                    state["$c"] = frozenset({"C"}) if ok else frozenset()
            return state

    fl = TagFlow(prog, mesh, P())
    st = fl.state_at_exit()
    if st is None:
        ctx.undecided("the initialisation routine has no normal exit")
        return
    bad = None
    if "C" not in st.get("$c", frozenset()):
        # name the last store of the estimate
        fs = [s_ for t, v, s_, k in iter_stores(mesh.node) if self_attr_of(t) == "fval" and isinstance(t, ast.Attribute)]
        bad = max(fs, key=pos) if fs else mesh.node
    ctx.check(bad is None, mesh, bad if bad is not None else mesh.node, "self.fval equals self.yval at the end of the initialisation on every path",
              "on some path the initialisation ends with self.fval holding something other than the observed value self.yval of the incumbent it selected (e.g. the value of the first evaluation after a better design point was chosen): a deterministic run that makes no further move returns that pair",
              construct="initial fval vs yval")


def _unfilled_rows_nan(prog, R, attr: str) -> bool:
    from .c12 import per_row_arrays, record_routine
    from .growth import analyse_grow, fill_of_fresh, norm_fill

    arrays = per_row_arrays(prog, R)
    if attr not in arrays or norm_fill(fill_of_fresh(arrays[attr]["call"])) != "np.nan":
        return False
    for fn in R.logger_cls.methods.values():
        if fn.name == "__init__":
            continue
        scope = {n.name: n for n in ast.walk(fn.node) if isinstance(n, ast.FunctionDef) and n is not fn.node}
        closure = {st.targets[0].id: st.value for st in fn.node.body if isinstance(st, ast.Assign) and len(st.targets) == 1 and isinstance(st.targets[0], ast.Name)}
        for t, v, s, k in iter_stores(fn.node):
            if self_attr_of(t) == attr and isinstance(t, ast.Attribute) and isinstance(v, ast.Call):
                info = analyse_grow(v, f"self.{attr}", scope, closure)
                if info is not None and norm_fill(info["fill"]) != "np.nan":
                    return False
                if info is None and not (isinstance(v, ast.Subscript)):
                    # unknown re-binding of the table (not a prefix slice): be conservative
                    if call_name(v) not in ("np.full",):
                        return False
    return True


def _pairing(ctx, prog, R, fn, call, names):
    u, y, f, s_ = names
    lcs = R.logger_calls(fn)
    evals = []  # (call, arg canon, outputs)
    for c in lcs:
        st = prog.parent(c)
        if isinstance(st, ast.Assign) and isinstance(st.targets[0], ast.Tuple) and c.args:
            evals.append((c, canon(c.args[0]), [canon(e) for e in st.targets[0].elts]))
    inc = {"u": "self.u", "yval": "self.yval", "fval": "self.fval", "fsd": "self.fsd"}
    problems = []
    n_groups = 0
    # every assignment to the point name defines a group
    for t, v, st, k in iter_stores(fn.node):
        if not (isinstance(t, ast.Name) and t.id == u):
            continue
        n_groups += 1
        src = canon(strip_copy(v))
        blk = None
        p = prog.parent(st)
        for fld in ("body", "orelse"):
            if st in getattr(p, fld, []):
                blk = getattr(p, fld)
        sib = {}
        for x in blk or []:
            for t2, v2, s2, k2 in iter_stores(x):
                if isinstance(t2, ast.Name) and t2.id in (y, f, s_) and t2.id not in sib:
                    sib[t2.id] = (v2, s2, k2)
        if src == inc["u"]:
            # group copied from the incumbent tuple
            if y in sib and canon(strip_copy(sib[y][0])) != inc["yval"]:
                problems.append((st, f"{u} is the incumbent point but {y} := {canon(sib[y][0])}"))
            continue
        ev = [e for e in evals if e[1] in (u, src)]
        if not ev:
            problems.append((st, f"the point {u} := {canon(v)[:40]} is not the argument of a logger call in this step"))
            continue
        c, argc, outs = ev[0]
        if y == outs[0]:
            continue  # y is itself the first output of that call
        if y not in sib:
            problems.append((st, f"{u} is assigned without its observed value {y} in the same block"))
        elif canon(sib[y][0]) != outs[0]:
            problems.append((sib[y][1], f"{y} := {canon(sib[y][0])[:40]} is not the value observed at {u} (first output {outs[0]} of logger({argc}))"))
    # the value name must not be defined from anything but a logger output or the incumbent value
    for t, v, st, k in iter_stores(fn.node):
        if isinstance(t, ast.Name) and t.id == y and k == "assign":
            cv = canon(strip_copy(v))
            if cv != inc["yval"] and not any(cv == e[2][0] for e in evals):
                problems.append((st, f"observed-value local {y} := {cv[:40]} is neither a target observation nor the incumbent's observed value"))
    if problems:
        for st, msg in problems:
            ctx.fail(fn, st, "incumbent move pairs a point with a value that was not observed there: " + msg, construct=f"pairing: {msg[:90]}")
    else:
        ctx.ok(fn, call, f"({u}, {y}) stem from one logger call or from the incumbent tuple ({n_groups} group assignment(s))")
