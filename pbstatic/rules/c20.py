"""C20 -- options: user settings win, unknown names rejected, no leaks between
instances."""
from __future__ import annotations

import ast
from typing import Dict, List, Optional, Set

from ..cfg import cfg_of
from ..flow import EMPTY, BasePolicy, TagFlow, path_of
from ..ini import Ini
from ..model import AnalysisError, FunctionInfo, bind_args
from ..roles import roles_of
from ..terms import call_name, canon, conjuncts, const_num, const_str, guard_canon, guard_of, norm_stmt, state_key
from .c07 import MUTATORS, _shared_state
from .common import iter_stores, kw, reaching_assignments, self_attr_of, store_base

EXPLANATION = (
    "R1 precedence: in the loader the store self[key] = eval(value) is guarded by 'key not in the protected-names set'; the Options constructor "
    "creates that set first, loads the basic file, then applies the user's dict and adds its keys to the set; BADS constructs Options (with the "
    "user's dict) before it loads the advanced file, so user values win and dependent defaults see them. R2 name validation post-dominates both "
    "loads in the constructor, receives both file paths, and raises ValueError for a key not defined in the files. R3 own dimension: the exec "
    "of the evaluation parameters precedes the eval loop in every load, both loads pass the instance's own D, and no ini value defers a read of "
    "an evaluation parameter (lambda bodies are parsed). R4 who-may-write options: every store into options[...] outside the loader is a "
    "classified site (fill-if-None, documented noisy-mode adjustment, deterministic-mode reset); anything else is an overwrite of a user value. "
    "R5 caller's data: may-alias dataflow from the constructor parameters (arrays and the options dict) through alias-preserving operations; "
    "no in-place store, augmented assignment or mutating method call through such an alias, also inside the validator and the transformer. "
    "R6 no shared mutable state (as C07-R4)."
    " R7 the options container hands its key to the underlying dict unchanged in __setitem__/__getitem__/__delitem__."
)

NOISY_ADJUST = {"tol_stall_iters", "n_train_max", "n_train_min", "mesh_overflow_warning", "min_failed_poll_steps", "mesh_noise_multiplier",
                "noise_size", "noise_final_samples", "max_fun_evals", "fun_eval_start"}
NOISY_GUARDS = ("(0 < OS[uncertainty_handling_level])", "(1 <= OS[uncertainty_handling_level])")
DET_GUARDS = ("(OS[uncertainty_handling_level] <= 0)",)


class AliasPolicy(BasePolicy):
    """may-alias of parameters: A:<param>."""

    row_select_preserves = False

    may_union = True

    def __init__(self, seeds: Dict[str, frozenset], prog=None, fn=None):
        self.seeds = seeds
        self.prog, self.fn = prog, fn

    def clone_for(self, callee, seeds):
        return AliasPolicy(seeds, self.prog, callee)

    def initial(self, flow):
        return dict(self.seeds)

    def eval_unpack(self, value, i, n, state, flow):
        if isinstance(value, ast.Call):
            return self.summarise_call(value, state, flow, index=i)
        return super().eval_unpack(value, i, n, state, flow)

    def eval(self, expr, state, flow):
        if expr is None:
            return EMPTY
        p = path_of(expr)
        if p is not None and p in state:
            return state[p]
        if isinstance(expr, ast.Call):
            n = call_name(expr)
            if n in ("np.atleast_1d", "np.atleast_2d", "np.asarray", "np.asanyarray", "np.ravel", "np.reshape", "np.squeeze", "np.transpose", "np.asfarray", "np.ascontiguousarray") and expr.args:
                # asarray(x, dtype=float) returns x itself when the dtype already matches
                return self.eval(expr.args[0], state, flow)
            if isinstance(expr.func, ast.Attribute) and expr.func.attr in ("reshape", "ravel", "squeeze", "view", "transpose") :
                return self.eval(expr.func.value, state, flow)
            if isinstance(expr.func, ast.Attribute) and expr.func.attr == "astype":
                # astype(t, copy=False) returns the array itself when the dtype already matches
                cp = kw(expr, "copy") or (expr.args[4] if len(expr.args) > 4 else None)
                if cp is not None and not (isinstance(cp, ast.Constant) and cp.value is True):
                    return self.eval(expr.func.value, state, flow)
            if n in ("np.array",) and expr.args:
                cp = kw(expr, "copy")
                if cp is not None and not (isinstance(cp, ast.Constant) and cp.value is True):
                    return self.eval(expr.args[0], state, flow)  # np.array(x, copy=False)
            return self.summarise_call(expr, state, flow)
        if isinstance(expr, ast.Attribute) and expr.attr == "T":
            return self.eval(expr.value, state, flow)
        if isinstance(expr, ast.Subscript):
            sl = expr.slice
            basic = isinstance(sl, (ast.Slice, ast.Constant)) or (isinstance(sl, ast.Tuple) and all(isinstance(e, (ast.Slice, ast.Constant)) for e in sl.elts))
            return self.eval(expr.value, state, flow) if basic else EMPTY
        if isinstance(expr, ast.IfExp):
            return self.eval(expr.body, state, flow) | self.eval(expr.orelse, state, flow)
        return EMPTY


def alias_violations(prog, fn: FunctionInfo, seeds: Dict[str, frozenset]):
    """[(node, alias tags, what)] for in-place mutations through aliases."""
    fl = TagFlow(prog, fn, AliasPolicy(seeds, prog, fn), may=True)
    out = []
    for node in ast.walk(fn.node):
        if prog.function_of(node) is not fn:
            continue
        tgt, what = None, None
        if isinstance(node, ast.Assign):
            for t in node.targets:
                if isinstance(t, ast.Subscript) and state_key(t) is None:
                    tgt, what = t.value, "subscript store"
        elif isinstance(node, ast.AugAssign):
            if isinstance(node.target, ast.Subscript):
                tgt, what = node.target.value, "augmented subscript store"
            else:
                tgt, what = node.target, "augmented assignment (in place for arrays)"
        elif isinstance(node, ast.Call) and isinstance(node.func, ast.Attribute) and node.func.attr in MUTATORS:
            tgt, what = node.func.value, f".{node.func.attr}()"
        elif isinstance(node, ast.Call) and kw(node, "out") is not None:
            tgt, what = kw(node, "out"), "out= argument"
        if tgt is None:
            continue
        st = fl.state_before(node)
        if st is None:
            continue
        tags = fl.policy.eval(tgt, st, fl)
        al = sorted(t for t in tags if t.startswith("A:"))
        if al:
            out.append((node, al, what, canon(tgt)))
    return out, fl


def _container_keys_verbatim(ctx, prog, O):
    """validate_option_names compares the names the *user wrote* (kept in ``useroptions``) with the keys of the mapping.  If
    ``__setitem__`` / ``__getitem__`` / ``__contains__`` transform the key (strip, lower-casing, aliases), a mis-spelt name is
    stored under a valid key and passes validation: the key handed to the underlying dict must be the parameter itself."""
    for mname in ("__setitem__", "__getitem__", "__delitem__", "__contains__"):
        m = O.methods.get(mname)
        if m is None:
            continue
        params = [p for p in m.params if p != "self"]
        if not params:
            continue
        key = params[0]
        rebound = [s_ for t, v, s_, k in iter_stores(m.node) if isinstance(t, ast.Name) and t.id == key]
        calls = [c for c in ast.walk(m.node) if isinstance(c, ast.Call) and isinstance(c.func, ast.Attribute) and c.func.attr == mname and len(c.args) >= 2]
        if rebound:
            ctx.fail(m, rebound[0], f"Options.{mname} rewrites the option name before using it ('{norm_stmt(rebound[0])[:60]}'): names that differ from a defined option only by that rewriting are accepted although they do not exist", construct=f"Options.{mname} rewrites its key")
            continue
        if not calls:
            ctx.undecided(f"Options.{mname} does not delegate to dict.{mname}")
            continue
        k = calls[0].args[1]
        ctx.check(isinstance(k, ast.Name) and k.id == key, m, calls[0], f"Options.{mname} passes its key unchanged", f"Options.{mname} hands '{canon(k)}' to the underlying dict instead of the name it was given", construct=f"Options.{mname} key {canon(k)[:40]}")


def caller_data_private(ctx, prog, R):
    """No in-place modification through an alias of the caller's arrays or options dict (shared by C20-R5 and C07: a
    caller's array that BADS has overwritten is a channel from one run to the next one built from the same arrays)."""
    O = R.options_cls
    init = R.bads_init
    oinit = O.find_method("__init__")
    uparam = [p for p in oinit.params if p != "self"][-1]
    iparams = [p for p in init.params if p not in ("self", "fun", "non_box_cons")]
    seeds = {p: frozenset({f"A:{p}"}) for p in iparams}
    viol, ifl = alias_violations(prog, init, seeds)
    for node, al, what, tgt in viol:
        ctx.fail(init, node, f"{what} on '{tgt}', which may alias the caller's {al}: BADS modifies the caller's data", construct=f"in-place {what} on alias of {al[0][2:]}")
    if not viol:
        ctx.ok(init, init.node, f"constructor: no in-place write through aliases of {iparams}")
    # callees receiving aliases
    for call, targets in prog.calls_in(init):
        for t in targets:
            if not isinstance(t, FunctionInfo) or t is init:
                continue
            b = bind_args(t, call)
            st = ifl.state_before(call) or {}
            sub = {}
            for p, e in b.items():
                tg = ifl.policy.eval(e, st, ifl)
                if any(x.startswith("A:") for x in tg):
                    sub[p] = tg
            if not sub:
                continue
            v2, f2 = alias_violations(prog, t, sub)
            for node, al, what, tgt in v2:
                ctx.fail(t, node, f"{what} on '{tgt}', which may alias the caller's {al} (passed by the constructor): the caller's array is modified", construct=f"in-place {what} on alias of {al[0][2:]} in {ctx.fname(t)}")
            if not v2:
                ctx.ok(t, call, f"{t.short}: no in-place write through {sorted(sub)}")
            # one more level: attributes stored from aliases and mutated in other methods are covered by copies
    # results of the validator stored in BADS attributes may alias the caller's arrays: the transformer copies them
    T = R.transformer
    tinit = T.find_method("__init__")
    tparams = [p for p in tinit.params if p not in ("self", "D")]
    v3, f3 = alias_violations(prog, tinit, {p: frozenset({f"A:{p}"}) for p in tparams})
    for node, al, what, tgt in v3:
        ctx.fail(tinit, node, f"{what} on '{tgt}', which may alias the transformer's argument {al}", construct=f"in-place {what} on alias of {al[0][2:]} in {tinit.short}")
    # attributes of the transformer that are mutated in place must have been assigned from copies
    st_end = f3.state_at_exit() or {}
    for m in T.methods.values():
        for t, v, s, k in iter_stores(m.node):
            if isinstance(t, ast.Subscript) and self_attr_of(t) and isinstance(store_base(t), ast.Attribute):
                a = "self." + self_attr_of(t)
                # tags at the point of first assignment in __init__
                tags = set()
                for t2, v2, s2, k2 in iter_stores(tinit.node):
                    if canon(t2) == a and v2 is not None and k2 == "assign":
                        tg = f3.tags(v2)
                        if tg:
                            tags |= set(tg)
                al = sorted(x for x in tags if x.startswith("A:"))
                if al:
                    ctx.fail(m, s, f"in-place store into {a}, which was assigned from the caller's {al} without a copy", construct=f"in-place store into uncopied {a}")
                else:
                    ctx.ok(m, s, f"{a} is a private copy")
    # the options dict: Options copies items; no mutation of the user's dict
    ov, of_ = alias_violations(prog, oinit, {uparam: frozenset({f"A:{uparam}"})})
    for node, al, what, tgt in ov:
        ctx.fail(oinit, node, f"{what} on '{tgt}': the caller's options dict is modified", construct=f"in-place {what} on the user's options dict")
    if not ov:
        ctx.ok(oinit, oinit.node, "Options.__init__ copies the user's items and never mutates the dict")



def check(ctx):
    prog = ctx.prog
    R = roles_of(prog)
    ini = Ini(prog.root)
    O = R.options_cls
    init = R.bads_init
    load = O.find_method("load_options_file")
    oinit = O.find_method("__init__")
    valid = O.find_method("validate_option_names")
    if load is None or oinit is None or valid is None:
        raise AnalysisError("Options.load_options_file / __init__ / validate_option_names not found")

    # ------------------------------------------------------------------ R1
    ctx.rule("R1", "user options are protected from every later file load and applied after the basic file", floor=5)
    lstores = [(t, v, s) for t, v, s, k in iter_stores(load.node) if isinstance(t, ast.Subscript) and canon(t.value) == "self" and isinstance(v, ast.Call) and isinstance(v.func, ast.Name) and v.func.id == "eval"]
    if not lstores:
        ctx.fail(load, load.node, "the loader no longer stores eval(value) under the option key", construct="<missing loader store>")
    for t, v, s in lstores:
        g = guard_canon(prog, load, s)
        key = canon(t.slice)
        okg = any(x in (f"({key} not in self.get('useroptions'))", f"({key} not in self['useroptions'])") for x in g)
        ctx.check(okg, load, s, "default written only when the key is not user-protected", "the loader overwrites an option although the user supplied it (the protected-names guard is missing)", construct=f"loader store under {g}")
    ocfg = cfg_of(oinit)
    uparam = [p for p in oinit.params if p != "self"][-1]
    set_init = [s for t, v, s, k in iter_stores(oinit.node) if isinstance(t, ast.Subscript) and const_str(t.slice) == "useroptions" and isinstance(v, ast.Call) and canon(v.func) == "set"]
    load_calls = [c for c, tg in prog.calls_in(oinit) if load in tg]
    upd = [n for n in ast.walk(oinit.node) if isinstance(n, ast.Call) and canon(n.func) == "self.update" and n.args and canon(n.args[0]) == uparam]
    prot = [n for n in ast.walk(oinit.node) if isinstance(n, ast.Call) and isinstance(n.func, ast.Attribute) and n.func.attr == "update" and "useroptions" in canon(n.func.value) and n.args
            and canon(n.args[0]) in (f"{uparam}.keys()", uparam, f"set({uparam})", f"list({uparam})", f"set({uparam}.keys())", f"list({uparam}.keys())")]
    partial = [n for n in ast.walk(oinit.node) if isinstance(n, ast.Call) and isinstance(n.func, ast.Attribute) and n.func.attr in ("update", "add") and "useroptions" in canon(n.func.value) and n not in prot]
    for n in partial:
        ctx.fail(oinit, n, f"only some of the user's keys are added to the protected set ({canon(n.args[0])[:60] if n.args else ''}): the others are overwritten when the next file loads", construct="partial protection of user keys")
    if not (set_init and load_calls and upd and prot):
        ctx.fail(oinit, oinit.node, f"Options.__init__ lacks one of: protected-set creation ({bool(set_init)}), basic load ({bool(load_calls)}), application of the user's dict ({bool(upd)}), protection of its keys ({bool(prot)})", construct="Options.__init__ structure")
    else:
        n_set, n_load, n_upd, n_prot = (ocfg.node_of(x) for x in (set_init[0], load_calls[0], upd[0], prot[0]))
        ctx.check(ocfg.dominates(n_set.id, n_load.id), oinit, set_init[0], "protected set exists before the first load", "the protected-names set is created after the first load", construct="useroptions created late")
        ctx.check(ocfg.dominates(n_load.id, n_upd.id), oinit, upd[0], "user's dict applied after the basic file (user values win)", "the user's options are applied before the basic defaults are loaded, so defaults overwrite them", construct="user options applied before basic load")
        g = guard_canon(prog, oinit, prot[0])
        g2 = guard_canon(prog, oinit, upd[0])
        ctx.check(g == g2 and all("is not None" in x for x in g), oinit, prot[0], "every applied user key is protected", "user keys are applied but not all of them are added to the protected set", construct="user keys not protected")
    # BADS: Options(...) with the user's dict dominates the advanced load
    icfg = cfg_of(init)
    octor = [c for c, tg in prog.calls_in(init) if oinit in tg]
    adv = [c for c, tg in prog.calls_in(init) if load in tg]
    optparam = "options" if "options" in init.params else None
    if not octor or not adv:
        ctx.fail(init, init.node, "the constructor no longer builds Options and loads the advanced file", construct="<missing option loads>")
    else:
        b = bind_args(oinit, octor[0])
        ua = b.get(uparam)
        for _ in range(3):
            # a local that merely carries the parameter (the formal of an inlined helper)
            if isinstance(ua, ast.Name) and ua.id != optparam:
                dd_ = reaching_assignments(prog, init, ua.id, octor[0])
                if len(dd_) == 1 and isinstance(dd_[0], ast.Name):
                    ua = dd_[0]
                    continue
            break
        # a file with defaults derived from other options (``tol_noise = ... self.get("tol_fun")``) is evaluated when it is
        # loaded: it must be loaded after the user's dict is applied, i.e. it is not the constructor's file (the
        # constructor loads its file first and overlays the user's dict afterwards)
        from .common import deref_expr

        def _file_of(e):
            if e is None:
                return None
            txt = [n.value for n in ast.walk(deref_expr(prog, init, e)) if isinstance(n, ast.Constant) and isinstance(n.value, str)]
            for f_, tag in ((ini.basic, "basic"), (ini.advanced, "advanced")):
                base = f_.path.rsplit("/", 1)[-1]
                if any(t_.endswith(base) for t_ in txt):
                    return f_
            return None

        def _derived(f_):
            return sorted(k_ for k_, v_, _d in f_.options if "self.get(" in v_ or "self[" in v_)

        cf = _file_of(b.get(oinit.params[1]))
        if cf is not None:
            ctx.check(not _derived(cf), init, octor[0], "the constructor's file has no default derived from another option",
                      f"the Options constructor loads {cf.path.rsplit('/', 1)[-1]} before the user's options are applied, but its defaults {_derived(cf)[:3]} are derived from other options: they are computed from the defaults, not from the user's values",
                      construct="derived defaults evaluated before the user's options")
        else:
            ctx.note("the option file handed to the Options constructor could not be identified (derived-default order not decided)")
        ctx.check(ua is not None and canon(ua) == optparam, init, octor[0], "Options constructed with the caller's options dict", "the caller's options are not handed to the Options constructor", construct=f"user_options={canon(ua)}")
        ctx.check(all(icfg.dominates(icfg.node_of(octor[0]).id, icfg.node_of(a).id) for a in adv), init, adv[0], "user options are protected before the advanced file loads", "the advanced file is loaded before the user's options are applied and protected", construct="advanced load before user options")

    # ------------------------------------------------------------------ R2
    ctx.rule("R2", "unknown option names raise ValueError at construction", floor=3)
    vcalls = [c for c, tg in prog.calls_in(init) if valid in tg]
    if not vcalls:
        ctx.fail(init, init.node, "the constructor no longer validates option names", construct="<missing validate_option_names call>")
    else:
        vn = icfg.node_of(vcalls[0])
        loads = [icfg.node_of(x) for x in (octor + adv)]
        ctx.check(all(icfg.dominates(l.id, vn.id) for l in loads) and icfg.postdominates(vn.id, icfg.entry.id), init, vcalls[0], "validation runs after both loads on every path", "option-name validation does not follow both loads on every constructor path", construct="validation placement")
        arg = vcalls[0].args[0] if vcalls[0].args else None
        paths = {canon(e) for e in arg.elts} if isinstance(arg, (ast.List, ast.Tuple)) else set()
        loaded = set()
        for c in octor:
            loaded.add(canon(bind_args(oinit, c).get(oinit.params[1])))
        for c in adv:
            loaded.add(canon(bind_args(load, c).get(load.params[1])))
        ctx.check(paths == loaded and len(paths) == 2, init, vcalls[0], "validation receives exactly the two loaded files", f"validation receives {sorted(paths)} but the loaded files are {sorted(loaded)}", construct="validation file list")
    raises = [n for n in ast.walk(valid.node) if isinstance(n, ast.Raise) and n.exc is not None and canon(n.exc).startswith("ValueError")]
    okr = False
    for r in raises:
        g = guard_canon(prog, valid, r)
        if any("not in file_option_names" in x or "not in" in x for x in g):
            okr = True
        # the offending keys collected by a comprehension with a 'not in' filter, the raise guarded by its non-emptiness
        for t_, pol_ in guard_of(prog, valid, r):
            if isinstance(t_, ast.Name) and pol_:
                for d_ in reaching_assignments(prog, valid, t_.id, r):
                    if isinstance(d_, (ast.ListComp, ast.SetComp)) and any(isinstance(c_, ast.Compare) and any(isinstance(o_, ast.NotIn) for o_ in c_.ops) for g_ in d_.generators for i_ in g_.ifs for c_ in ast.walk(i_)):
                        okr = True
    # the membership test is made on the key as given: a transformed key (lower-cased, stripped, ...) accepts names that no
    # file defines
    for c_ in ast.walk(valid.node):
        if isinstance(c_, ast.Compare) and len(c_.ops) == 1 and isinstance(c_.ops[0], (ast.NotIn, ast.In)) and not isinstance(c_.left, (ast.Name, ast.Constant)):
            if any(isinstance(n_, ast.Call) for n_ in ast.walk(c_.left)):
                ctx.fail(valid, c_, f"the option name is tested for membership after a transformation ({canon(c_.left)[:50]}): a name that differs from a defined option (e.g. in letter case) is accepted and silently has no effect", construct=f"membership test on transformed key {canon(c_.left)[:40]}")
    ctx.check(okr, valid, raises[0] if raises else valid.node, "a key absent from the files raises ValueError", "validate_option_names no longer raises ValueError for a key that no option file defines", construct="validate raise")
    it = [n for n in ast.walk(valid.node) if isinstance(n, ast.For) and canon(n.iter) in ("self.keys()", "self", "self.items()")]
    # ... or a comprehension over all keys whose (non-empty) result raises
    it += [g_ for n in ast.walk(valid.node) if isinstance(n, (ast.ListComp, ast.SetComp, ast.GeneratorExp)) for g_ in n.generators if canon(g_.iter) in ("self.keys()", "self", "self.items()")]
    ctx.check(bool(it), valid, valid.node, "every key of the options object is checked", "validate_option_names does not iterate over all keys", construct="validate iteration")
    # ... and the iteration is not cut short: a ``break`` / ``return`` inside the loop leaves the keys after it unchecked
    # (keys come in sorted order, so every name sorting after the one that triggers the exit is accepted unseen)
    for lp in [n for n in it if isinstance(n, ast.For)]:
        for n in ast.walk(lp):
            if isinstance(n, (ast.Break, ast.Return)) and not any(isinstance(p_, (ast.For, ast.While)) and p_ is not lp and any(x is n for x in ast.walk(p_)) for p_ in ast.walk(lp) if p_ is not lp):
                ctx.fail(valid, n, "the loop over the option names is left early (break / return): names that sort after the key at which it stops are never validated", construct="early exit from the name validation loop")

    # ------------------------------------------------------------------ R3
    ctx.rule("R3", "defaults are evaluated for the instance's own dimension", floor=4)
    lcfg = cfg_of(load)
    execs = [n for n in ast.walk(load.node) if isinstance(n, ast.Call) and isinstance(n.func, ast.Name) and n.func.id == "exec"]
    # the same binding spelled as an item assignment into globals() (kept in a local or not)
    gl_names = {t.id for t, v, s_, k in iter_stores(load.node) if isinstance(t, ast.Name) and isinstance(v, ast.Call) and isinstance(v.func, ast.Name) and v.func.id == "globals"}
    for t, v, s_, k in iter_stores(load.node):
        if isinstance(t, ast.Subscript) and k == "assign" and ((isinstance(t.value, ast.Name) and t.value.id in gl_names) or (isinstance(t.value, ast.Call) and isinstance(t.value.func, ast.Name) and t.value.func.id == "globals")):
            if not any(isinstance(a, ast.If) for a in prog.ancestors(s_)):
                execs.append(s_)
    evals = [n for n in ast.walk(load.node) if isinstance(n, ast.Call) and isinstance(n.func, ast.Name) and n.func.id == "eval"]
    if not execs or not evals:
        ctx.fail(load, load.node, "the loader no longer binds the evaluation parameters before evaluating the option values", construct="<missing exec/eval>")
    else:
        floop = None
        for p in prog.ancestors(execs[0]):
            if isinstance(p, ast.For):
                floop = p
        ok3 = floop is not None and canon(floop.iter) == f"{load.params[2]}.items()" and lcfg.dominates(lcfg.head_of(floop).id, lcfg.node_of(evals[0]).id)
        ctx.check(ok3, load, execs[0], "all evaluation parameters are (re)bound before the eval loop of the same load", "option values can be evaluated before this load's evaluation parameters are bound (a previous instance's D would be used)", construct="exec/eval order")
    for c in octor + adv:
        callee = oinit if c in octor else load
        b = bind_args(callee, c)
        ep = b.get("evaluation_parameters")
        from .common import deref_canon as _dc20, leaf_definitions as _ld20

        if isinstance(ep, ast.Name):
            # the dictionary literal kept in a local and handed to both loads
            lds = [d_ for d_ in _ld20(prog, init, ep.id, c) if d_ is not None]
            if len(lds) == 1 and isinstance(lds[0], ast.Dict):
                ep = lds[0]
        okd = isinstance(ep, ast.Dict) and len(ep.keys) == 1 and const_str(ep.keys[0]) == "D" and _dc20(prog, init, ep.values[0]) == "self.D"
        ctx.check(okd, init, c, "load evaluated with {'D': self.D}", "an option file is evaluated with something other than the instance's own dimension", construct=f"evaluation_parameters={canon(ep) if ep is not None else None}")
    oload = [c for c, tg in prog.calls_in(oinit) if load in tg]
    for c in oload:
        b = bind_args(load, c)
        ctx.check(canon(b.get("evaluation_parameters")) == "evaluation_parameters", oinit, c, "Options.__init__ forwards the evaluation parameters", "Options.__init__ does not forward the evaluation parameters to the loader", construct="forwarding of evaluation parameters")
    deferred = []
    for key in ini.keys():
        e = ini.expr(key)
        if e is None:
            continue
        for n in ast.walk(e):
            if isinstance(n, ast.Lambda):
                params = {a.arg for a in n.args.args}
                free = {x.id for x in ast.walk(n.body) if isinstance(x, ast.Name)} - params
                if "D" in free:
                    deferred.append(key)
    ctx.check(not deferred, "option ini files", None, f"{len(ini.keys())} ini values parsed: no lambda defers a read of D", f"ini value(s) {deferred} read the evaluation parameter D inside a lambda: it is looked up in module globals at call time and sees the dimension of whichever instance loaded last", construct=f"deferred D in {deferred}")

    # ------------------------------------------------------------------ R4
    ctx.rule("R4", "options are only written by the loader or at classified sites", floor=12)
    for fn in prog.functions():
        if fn.cls is O:
            continue
        for t, v, s, k in iter_stores(fn.node):
            sk = state_key(t)
            if not sk or sk[0] != "OPT" or not isinstance(t, ast.Subscript):
                continue
            key = sk[1]
            g = guard_canon(prog, fn, s)
            cls_ = None
            if any(x in (f"(OPT[{key}] is None)",) or (f"(OPT[{key}] is None)" in x and " or " in x and "False" in x) for x in g):
                cls_ = "fill-if-None"
            elif key == "uncertainty_handling" and any("(OPT[uncertainty_handling] is None)" in x for x in g):
                cls_ = "fill-if-None"
            elif key in NOISY_ADJUST and any(x in NOISY_GUARDS for x in g):
                cls_ = "documented noisy-mode adjustment"
            elif key == "noise_size" and any("isinstance(OPT[noise_size], np.ndarray)" in x for x in g):
                cls_ = "scalar normalisation of the user's value"
            elif key == "stobads" and (any(x in DET_GUARDS for x in g) or any("OPT[stobads]" in x for x in g)) and isinstance(v, ast.Constant) and v.value is False:
                cls_ = "deterministic-mode reset"
            if cls_:
                ctx.ok(fn, s, f"options['{key}'] write: {cls_}")
            else:
                ctx.fail(fn, s, f"options['{key}'] is overwritten outside the loader under guard {g[-2:] or '(none)'}: a value supplied by the user does not take effect", construct=f"unclassified write of OPT[{key}]")

    # ------------------------------------------------------------------ R5
    ctx.rule("R5", "no in-place modification through an alias of the caller's arrays or options dict", floor=3)
    caller_data_private(ctx, prog, R)
    # ------------------------------------------------------------------ R6
    ctx.rule("R6", "no mutable state shared between instances", floor=3)
    _shared_state(ctx, prog, R)
    # ------------------------------------------------------------------ R7
    ctx.rule("R7", "the options container stores and looks up names exactly as given (no normalisation between the name that is validated and the name that is stored)", floor=2)
    _container_keys_verbatim(ctx, prog, O)
    ctx.assume("basic slicing / atleast_2d / asarray / reshape may return views; copy(), arithmetic, np.array and fancy indexing return fresh arrays")
    ctx.assume("option values that are themselves mutable objects are not tracked beyond the dict level")
