"""C13 -- mesh size doubles after a successful poll (up to a cap), shrinks after
a failure."""
from __future__ import annotations

import ast
from fractions import Fraction

from ..cfg import cfg_of
from ..ini import Ini
from ..model import AnalysisError
from ..roles import roles_of
from ..terms import call_name, canon, conjuncts, const_num, guard_canon, guard_extra, guard_of, linear, norm_stmt, state_key
from .common import attr_stores, deref_canon as _deref, iter_stores, key_stores, pos, reaching_assignments, self_attr_of

EXPLANATION = (
    "R1 complete enumeration of the stores to the poll mesh exponent in the package, each in normal form with its guard: initialisation from "
    "the option; min(m + 1, cap) under the poll's success flag; m - 1 under its negation (the two in the branches of one `if` that every path "
    "through the poll step passes exactly once, outside loops); one further m - 1 under accelerate_mesh and iter > steps and stall < tol_fun; "
    "min(m + inc, cap) under search_mesh_expand > 0, tabled as dead under the shipped default (read from the ini file). Anything else is a "
    "violation. The success flag's definitions are False, best_improvement > sufficient_improvement, or the StoBADS success code == 1. R2 "
    "every store to the mesh size is multiplier ** exponent (or a copy of the other mesh-size slot); multiplier == 2, cap <= 0, init <= cap "
    "from the ini files, so the size is a power of two <= 1. R3 every store to the search exponent is min(., m*k - n) with k >= 1, n >= 0 "
    "(ini), hence <= m for m <= 0; the search mesh size is multiplier ** that exponent. R4 the tol_mesh message is guarded by mesh_size < "
    "tol_mesh. R5 coherence dataflow (rules/meshflow.py): every read of self.mesh_size / OS[mesh_size] in the methods reachable from optimize "
    "sees multiplier ** exponent computed after the last store to the exponent, on all paths (method summaries, flag-conditional coherence)."
    " Decides the update structure on all paths, for every option setting except the tabled experimental option."
    " R4 also: OS[tol_mesh] = multiplier ** ceil(log(tol_mesh)/log(multiplier)) as a sympy identity (the smallest mesh level >= the user's tolerance). R6 the poll step decides the noise mode from the run-time level (success judged on the GP estimate)."
)

EXP = "mesh_size_integer"


def _in_loop(fn, stmt) -> bool:
    cfg = cfg_of(fn)
    n = cfg.node_of(stmt)
    return n is None or bool(cfg.in_loop(n.id))


def _loop_callers(prog, R):
    """(callee, call) pairs for BADS methods called from inside the main loop of optimize (transitively)."""
    opt = R.optimize
    cfg = cfg_of(opt)
    seeds = []
    for call, targets in prog.calls_in(opt):
        n = cfg.node_of(call)
        if n is not None and cfg.in_loop(n.id):
            seeds += [t for t in targets if hasattr(t, "node")]
    out, seen = [], set()
    while seeds:
        f = seeds.pop()
        if f in seen:
            continue
        seen.add(f)
        out.append((f, None))
        for call, targets in prog.calls_in(f):
            seeds += [t for t in targets if hasattr(t, "node") and getattr(t, "cls", None) is R.bads]
    return out


def tol_mesh_snapping(ctx, prog, R):
    """The stop test compares the mesh size (a power of the multiplier) with OS[tol_mesh]; the property speaks of the
    user's tol_mesh.  mesh < snapped implies mesh < tol exactly when snapped = multiplier ** ceil(log(tol) / log(multiplier))
    (the smallest mesh level >= tol) or snapped = tol itself; '1 + floor(.)' is one level too high when tol is itself a
    mesh level.  Term identity with sympy (ceiling(x) == -floor(-x) is known to it; 1 + floor(x) is not equal)."""
    import sympy as sp

    from ..symb import Translator, Untranslatable, is_zero
    from .common import deref_expr

    n = 0
    for fn, t, v, s, kind in key_stores(prog, "OS", "tol_mesh"):
        n += 1
        full = deref_expr(prog, fn, v)
        c = canon(full)
        if c in ("OPT[tol_mesh]", "float(OPT[tol_mesh])"):
            ctx.ok(fn, s, "OS[tol_mesh] is the user's tolerance")
            continue
        ok, why = False, "not of the form multiplier ** <level>"
        if isinstance(full, ast.BinOp) and isinstance(full.op, ast.Pow) and canon(full.left) in ("OPT[poll_mesh_multiplier]", "float(OPT[poll_mesh_multiplier])"):
            tr = Translator(positive=["OPT[tol_mesh]", "OPT[poll_mesh_multiplier]"])
            try:
                lvl = tr.tr(full.right)
                lvl = lvl.replace(lambda e_: isinstance(e_, sp.floor) and e_.args[0].could_extract_minus_sign(), lambda e_: -sp.ceiling(-e_.args[0]))
                x = sp.log(tr.sym("OPT[tol_mesh]")) / sp.log(tr.sym("OPT[poll_mesh_multiplier]"))
                ok = is_zero(lvl - sp.ceiling(x))
                why = f"level {lvl} is not ceil(log(tol_mesh) / log(multiplier))"
                if not ok and isinstance(lvl, sp.ceiling):
                    # ceil(x - c) with a literal c >= 0 (a guard against round-off in the quotient) is never above ceil(x):
                    # the snapped tolerance is then at most the smallest mesh level >= tol, and "mesh < snapped" still
                    # implies "mesh < tol"
                    d_ = sp.simplify(lvl.args[0] - x)
                    if d_.is_number and d_ <= 0:
                        ok = True
            except Untranslatable as e:
                why = f"level uses a construct the term translator does not know ({e})"
        ctx.check(ok, fn, s, "OS[tol_mesh] = multiplier ** ceil(log(tol_mesh)/log(multiplier)): the smallest mesh level >= the user's tolerance",
                  f"the tolerance the stop test compares with is '{c[:80]}' ({why}): a run can be reported as stopped by the mesh tolerance while its mesh size is not below the user's tol_mesh", construct=f"OS[tol_mesh] <- {c[:70]}")
    if n == 0:
        ctx.missing(R.init_optim_state, "store of OS[tol_mesh]")


def check(ctx):
    prog = ctx.prog
    R = roles_of(prog)
    ini = Ini(prog.root)
    poll = R.poll_step
    cfg = cfg_of(poll)

    mult = ini.number("poll_mesh_multiplier")
    cap = ini.number("max_poll_grid_number")
    init0 = ini.number("init_mesh_size_integer")
    expand = ini.number("search_mesh_expand")
    inc0 = ini.number("search_mesh_increment")
    k = ini.number("search_grid_multiplier")
    n = ini.number("search_grid_number")

    # ------------------------------------------------------------------ R1
    ctx.rule("R1", "the poll mesh exponent is only ever: initialised, +1 capped on success, -1 on failure, one extra -1 when stalling", floor=4)
    stores = []
    for fn in prog.functions():
        for t, v, s, kind in iter_stores(fn.node):
            if isinstance(t, ast.Attribute) and t.attr == EXP:
                stores.append((fn, t, v, s, kind))
    if not stores:
        raise AnalysisError("attribute mesh_size_integer not found")
    # the success flag = the test of the if holding the +1 store
    plus, minus, extra = [], [], []
    flag = None
    for fn, t, v, s, kind in stores:
        g = guard_of(prog, fn, s)
        gtxt = guard_canon(prog, fn, s)
        me = "self." + EXP
        if kind == "assign" and canon(v) == "OPT[init_mesh_size_integer]" and fn is R.init_optim_state:
            ctx.ok(fn, s, "initialised from options['init_mesh_size_integer']")
            continue
        if kind == "assign" and canon(v) == "OPT[init_mesh_size_integer]" and fn not in (poll, R.search_step, R.optimize) and not _in_loop(fn, s) \
                and not any(c is fn for c, _ in _loop_callers(prog, R)):
            ctx.ok(fn, s, "re-initialised from options['init_mesh_size_integer'] in run set-up (outside the iteration loop)")
            continue
        # normal forms
        delta, capped = None, False
        if kind == "aug" and isinstance(s.op, (ast.Add, ast.Sub)):
            c = const_num(v)
            if c is not None:
                delta = c if isinstance(s.op, ast.Add) else -c
            elif isinstance(s.op, ast.Add):
                delta = canon(v)
        elif kind == "assign":
            from .common import deref_expr

            e = deref_expr(prog, fn, v)  # cap / increment kept in locals
            if call_name(e) in ("np.minimum", "min") and len(e.args) == 2:
                for a, b in ((e.args[0], e.args[1]), (e.args[1], e.args[0])):
                    if canon(b) == "OPT[max_poll_grid_number]":
                        capped = True
                        e = a
                        break
            lt, lc = linear(e)
            if lt.get(me) == 1:
                rest = {kk: vv for kk, vv in lt.items() if kk != me}
                if not rest:
                    delta = lc
                elif len(rest) == 1 and lc == 0 and list(rest.values()) == [1]:
                    delta = list(rest)[0]
        if fn is poll and delta == 1:
            if not capped:
                ctx.fail(fn, s, "the mesh exponent is increased without the cap max_poll_grid_number: the mesh size can exceed 1", construct="mesh +1 without cap")
                continue
            par = prog.parent(s)
            if isinstance(par, ast.If) and s in par.body:
                flag = par
                plus.append(s)
                ctx.ok(fn, s, f"min(m + 1, cap) under {canon(par.test)}")
            else:
                ctx.fail(fn, s, "the capped +1 update is not in the success branch of the poll evaluation", construct="mesh +1 placement")
        elif fn is poll and delta == -1:
            minus.append((s, g, gtxt))
        elif fn is R.optimize and capped and delta == "OPT[search_mesh_increment]":
            conds = set(gtxt)
            if "(0 < OPT[search_mesh_expand])" in conds and expand == 0:
                ctx.ok(fn, s, "tabled: search-triggered expansion, dead under the shipped default search_mesh_expand = 0")
            else:
                ctx.fail(fn, s, f"the search-triggered mesh expansion is live (guard {gtxt[-3:]}, ini search_mesh_expand = {expand}): the mesh changes outside of polls", construct="search-triggered mesh expansion live")
        else:
            ctx.fail(fn, s, f"the poll mesh exponent is modified by '{norm_stmt(s)[:70]}', which is none of: initialisation, min(m+1, cap) on success, m-1 on failure, the extra m-1 when stalling", construct=f"mesh exponent store {norm_stmt(s)[:70]}")
    if flag is None:
        ctx.fail(poll, poll.node, "no 'min(m + 1, cap)' update in a success branch of the poll step", construct="<missing mesh +1>")
    else:
        base = [m for m in minus if flag.orelse and any(m[0] is x for x in flag.orelse)]
        rest = [m for m in minus if m not in base]
        if len(base) != 1:
            ctx.fail(poll, flag, f"the failure branch of the poll evaluation decrements the exponent {len(base)} times unconditionally (expected once)", construct=f"mesh -1 in failure branch: {len(base)}")
        else:
            ctx.ok(poll, base[0][0], "m - 1 in the failure branch")
        for s, g, gtxt in rest:
            inner = [x for x in gtxt if x not in ("not " + canon(flag.test), canon(flag.test, neg=True))]
            in_else = any(s in ast.walk(x) for x in flag.orelse)
            # the iteration counter is a local copy of OS[iter]; guard_canon lists each conjunct as written and with
            # locals expanded, so the expanded spelling is the one to ask for
            want = {"OPT[accelerate_mesh]", "(OPT[accelerate_mesh_steps] < OS[iter])", "(self.f_q_historic_improvement < OPT[tol_fun])"}
            got = set(inner)
            if in_else and want <= got and len(rest) == 1:
                ctx.ok(poll, s, "extra m - 1 under accelerate_mesh and iter > steps and stall < tol_fun")
            else:
                ctx.fail(poll, s, f"an additional decrement of the mesh exponent under {inner[-3:] or 'no guard'} (only 'accelerate_mesh and iter > accelerate_mesh_steps and stalled' is allowed, in the failure branch)", construct=f"extra mesh -1 under {' & '.join(sorted(inner))[:80]}")
        # "stalling" is judged on the incumbent as it is when the poll ends: the statistic compares a history base with the
        # *current* estimate self.fval / self.fsd (a copy taken before the evaluations of this poll is stale once a point
        # was accepted)
        for t_, v_, s_, k_ in iter_stores(poll.node):
            if self_attr_of(t_) == "f_q_historic_improvement" and isinstance(v_, ast.Call) and len(v_.args) >= 4:
                from .common import attr_stable_between, enclosing_stmt

                for a_, want_ in ((v_.args[1], "fval"), (v_.args[3], "fsd")):
                    cur = canon(a_)
                    if isinstance(a_, ast.Name):
                        dd_ = reaching_assignments(prog, poll, a_.id, v_)
                        if len(dd_) == 1 and canon(dd_[0]) == f"self.{want_}":
                            cur = f"self.{want_}" if attr_stable_between(prog, poll, want_, enclosing_stmt(prog, dd_[0]), v_) else f"a copy of self.{want_} taken before the incumbent could move in this poll"
                    ctx.check(cur == f"self.{want_}", poll, s_, f"stall statistic uses the current self.{want_}", f"the stall statistic that decides the extra mesh decrement is computed from {cur}, not from the incumbent's current self.{want_}", construct=f"stall statistic argument {canon(a_)}")
        tn = cfg.head_of(flag)
        ctx.check(cfg.postdominates(tn.id, cfg.entry.id) and not cfg.in_loop(tn.id), poll, flag, "every poll passes the success/failure update exactly once", "the mesh update is skipped on some path through the poll step or sits in a loop", construct="mesh update placement")
        # definitions of the success flag
        if isinstance(flag.test, ast.Name):
            fname = flag.test.id
            for t, v, s, kind in iter_stores(poll.node):
                if isinstance(t, ast.Name) and t.id == fname:
                    c = canon(v)
                    okd = c in ("False", "(self.sufficient_improvement < poll_best_improvement)", "(1 == sto_success)")
                    ctx.check(okd, poll, s, f"{fname} := {c}", f"the poll's success flag is defined as '{c}', not 'best improvement > sufficient improvement' (or the StoBADS success code)", construct=f"{fname} := {c}")
        else:
            ctx.undecided("success test is not a plain flag")

    # ------------------------------------------------------------------ R2
    ctx.rule("R2", "mesh size = multiplier ** exponent; multiplier 2, cap <= 0, init <= cap (ini)", floor=5)
    good_pow = {"(OPT[poll_mesh_multiplier] ** self.mesh_size_integer)", "(float(OPT[poll_mesh_multiplier]) ** self.mesh_size_integer)"}
    slots = {"self.mesh_size", "OS[mesh_size]"}
    for fn in prog.functions():
        for t, v, s, kind in iter_stores(fn.node):
            ct = canon(t)
            if ct in slots and fn.cls is R.bads:
                cv = _deref(prog, fn, v)
                ok2 = cv in good_pow or (cv in slots and cv != ct)
                ctx.check(ok2, fn, s, f"{ct} <- {cv}", f"the mesh size is set to '{cv}', not poll_mesh_multiplier ** mesh exponent", construct=f"{ct} <- {cv[:60]}")
    ctx.check(mult == 2, ini.advanced.path, None, "ini: poll_mesh_multiplier = 2", f"poll_mesh_multiplier default is {mult}, the mesh is no longer a power of two", construct=f"ini poll_mesh_multiplier={mult}")
    ctx.check(cap is not None and cap <= 0, ini.advanced.path, None, "ini: max_poll_grid_number <= 0", f"max_poll_grid_number default is {cap} > 0: mesh size can exceed 1", construct=f"ini max_poll_grid_number={cap}")
    ctx.check(init0 is not None and cap is not None and init0 <= cap, ini.advanced.path, None, "ini: init_mesh_size_integer <= cap", f"init_mesh_size_integer {init0} exceeds the cap {cap}", construct=f"ini init_mesh_size_integer={init0}")

    # ------------------------------------------------------------------ R3
    ctx.rule("R3", "search exponent = min(., m*k - n) with k >= 1, n >= 0: the search mesh never exceeds the poll mesh", floor=3)
    from .common import deref_expr as _dx

    exp_locals = {}  # (fn, local name) whose value is stored unchanged as the search exponent
    for fn, t, v, s, kind in key_stores(prog, "OS", "search_size_integer"):
        if isinstance(v, ast.Name):
            exp_locals[(fn, v.id)] = True
        v = _dx(prog, fn, v)  # exponent computed in a local first
        ok3 = False
        if call_name(v) in ("np.minimum", "min") and len(v.args) == 2:
            for a, b in ((v.args[0], v.args[1]), (v.args[1], v.args[0])):
                first_ok = const_num(a) == 0 or canon(a) == "OS[search_size_integer]"
                cb = canon(b)
                second_ok = cb in ("((OPT[search_grid_multiplier] * self.mesh_size_integer) - OPT[search_grid_number])",)
                if first_ok and second_ok:
                    ok3 = True
        if ok3 and fn is R.poll_step:
            # the refinement after a failed poll runs whenever the search size is not locked to the mesh size (when it is
            # locked the exponent is recomputed from the mesh at the start of the next iteration): apart from the
            # conditions of the poll's own decrement, the only guard it may carry is ``not search_size_locked``
            decs = [s_ for t_, v_, s_, k_ in iter_stores(fn.node) if canon(t_) == "self.mesh_size_integer" and k_ == "aug" and isinstance(s_.op, ast.Sub)]
            if decs:
                base = set()
                for d_ in decs:
                    base |= set(guard_canon(prog, fn, d_))
                first_dec = min(decs, key=pos)
                allowed = set(guard_canon(prog, fn, first_dec)) | {"not OPT[search_size_locked]", "(not OPT[search_size_locked])"}
                extra = guard_extra(prog, fn, s, allowed)
                if extra:
                    ctx.fail(fn, s, f"the refinement of the search mesh after a failed poll only runs under {extra}: otherwise the poll mesh shrinks below the search mesh, which then exceeds it", construct=f"search refinement guarded by {extra[0][:50]}")
        ctx.check(ok3, fn, s, "search exponent <- min(0 | itself, m*k - n)", f"the search mesh exponent is set to '{canon(v)[:70]}', not min(., mesh exponent * search_grid_multiplier - search_grid_number)", construct=f"OS[search_size_integer] <- {canon(v)[:70]}")
    ctx.check(k is not None and k >= 1 and n is not None and n >= 0, ini.advanced.path, None, f"ini: search_grid_multiplier = {k} >= 1, search_grid_number = {n} >= 0", f"ini constants k={k}, n={n} do not give m*k - n <= m", construct=f"ini search grid constants k={k} n={n}")
    def _pow_of_search_exponent(fn, v) -> bool:
        """multiplier ** <search exponent>, the exponent read from the state or from the local that is stored there."""
        e = v
        for _ in range(3):
            if isinstance(e, ast.Name):
                dd = reaching_assignments(prog, fn, e.id, v)
                if len(dd) == 1:
                    e = dd[0]
                    continue
            break
        if isinstance(e, ast.BinOp) and isinstance(e.op, ast.Pow) and _deref(prog, fn, e.left) in ("OPT[poll_mesh_multiplier]", "float(OPT[poll_mesh_multiplier])"):
            r = e.right
            return canon(r) == "OS[search_size_integer]" or (isinstance(r, ast.Name) and (fn, r.id) in exp_locals)
        return False

    for fn, t, v, s, kind in key_stores(prog, "OS", "search_mesh_size"):
        if _pow_of_search_exponent(fn, v) or (canon(v) == "self.search_mesh_size" and any(_pow_of_search_exponent(m_, v_) for m_, t_, v_, s_, k_ in attr_stores(prog, R.bads, "search_mesh_size") if m_ is fn)):
            ctx.ok(fn, s, "search mesh size = multiplier ** search exponent (through a local / the attribute copy)")
            continue
        cv = _deref(prog, fn, v)
        ok4 = cv in ("(OPT[poll_mesh_multiplier] ** OS[search_size_integer])", "(float(OPT[poll_mesh_multiplier]) ** OS[search_size_integer])")
        ctx.check(ok4, fn, s, "search mesh size = multiplier ** search exponent", f"the search mesh size is '{cv[:60]}', not multiplier ** search exponent", construct=f"OS[search_mesh_size] <- {cv[:60]}")

    # ------------------------------------------------------------------ R4
    ctx.rule("R4", "a run reported as stopped by the mesh tolerance has mesh size < tol_mesh", floor=1)
    opt = R.optimize
    found = False
    for node in ast.walk(opt.node):
        if isinstance(node, ast.If):
            msgs = [s for s in node.body if isinstance(s, ast.Assign) and isinstance(s.value, ast.Constant) and isinstance(s.value.value, str) and "tol_mesh" in s.value.value]
            if msgs:
                found = True
                ctx.check(canon(node.test) == "(OS[mesh_size] < OS[tol_mesh])", opt, node, "tol_mesh message under mesh_size < tol_mesh", f"the tol_mesh termination message is guarded by '{canon(node.test)}'", construct=f"tol_mesh guard {canon(node.test)}")
    if not found:
        ctx.missing(opt, "termination message naming tol_mesh")
    tol_mesh_snapping(ctx, prog, R)
    # ------------------------------------------------------------------ R6
    ctx.rule("R6", "in the noise modes the poll's success is judged on the GP estimate: the poll step decides the noise mode from the run-time level", floor=1)
    from .c05 import _noise_mode_reads

    _noise_mode_reads(ctx, prog, R, only_fn=poll)

    # ------------------------------------------------------------------ R5
    from . import meshflow

    meshflow.report(ctx, "R5", lambda fn, e, R: e == meshflow.POLL_E)
    ctx.assume("options are the shipped defaults unless the user overrides them; the tabled search_mesh_expand option is outside the property's option quantifier")
    ctx.assume("integer exponent arithmetic: +1/-1 steps keep the exponent integral")


def check_thorough(ctx):
    """path enumeration through the poll step: on every entry->exit path the net
    change of the mesh exponent is one of {+1 capped, -1, -2}."""
    import networkx as nx

    prog = ctx.prog
    R = roles_of(prog)
    poll = R.poll_step
    cfg = cfg_of(poll)
    stores = {}
    for t, v, s, kind in iter_stores(poll.node):
        if isinstance(t, ast.Attribute) and t.attr == EXP:
            n = cfg.node_of(s)
            d = None
            if kind == "aug" and isinstance(s.op, ast.Sub) and const_num(v) == 1:
                d = -1
            elif kind == "assign" and call_name(v) in ("np.minimum", "min"):
                d = +1
            stores[n.id] = d
    # collapse the poll loop: enumerate paths on the graph without the loop body
    loops = set()
    for h, body in cfg.loops.items():
        loops |= body
    g = cfg.g.copy()
    ctx.rule("T1", "thorough: net mesh-exponent change per poll is in {+1 (capped), -1, -2} on every enumerated path", floor=1)
    total, bad = 0, []
    sub = g.subgraph([n for n in g.nodes if n not in loops or n in stores]).copy()
    # reconnect loop headers to their exits
    for h in cfg.loops:
        for x in cfg.succ(h, "F"):
            sub.add_edge(h, x)
        for b in cfg.loops[h]:
            for x in cfg.g.successors(b):
                if x not in cfg.loops[h] and x != h and h in sub and x in sub:
                    sub.add_edge(h, x)
    for p in nx.all_simple_paths(sub, cfg.entry.id, cfg.exit.id):
        total += 1
        ds = [stores[n] for n in p if n in stores]
        net = None if any(d is None for d in ds) else sum(ds)
        if net not in (1, -1, -2):
            bad.append((net, ds))
        if total >= 20000:
            break
    ctx.extra["poll_step_paths_enumerated"] = total
    ctx.check(not bad, poll, poll.node, f"{total} paths: net change in {{+1,-1,-2}}", f"{len(bad)} of {total} enumerated paths change the mesh exponent by {sorted(set(str(b[0]) for b in bad))}", construct="mesh exponent net change (path enumeration)")
