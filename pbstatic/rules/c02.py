"""C02 -- non-box constraints: no infeasible point is evaluated or returned."""
from __future__ import annotations

import ast

from ..cfg import cfg_of
from ..model import FunctionInfo, bind_args
from ..roles import roles_of
from ..terms import call_name, canon, conjuncts, const_num, guard_of, norm_stmt, state_key
from .common import attr_stores, deref_expr, iter_stores, reaching_assignments, self_attr_of, store_base, pos
from .points import POINT_SLOTS, FilterSummary, PointAnalysis

EXPLANATION = (
    "R1 feasible provenance: every logger-call argument and every store into a point slot carries the must-tag FEAS, whose only sources are "
    "the candidate filter called with the user's constraint callable bound (self.non_box_cons at BADS' sites; a helper's parameter counts only "
    "if every caller binds it to that callable), point slots, log rows and history iterates. Inside the filter the constraint stage must keep "
    "exactly rows with C <= 0 (C < 0 accepted), C computed on inverse(result) of the rows selected, as the last selection before the return, "
    "on every path on which a constraint callable is present. R2 start point: a raise ValueError guarded by constraint(x0) > 0 follows the "
    "final definition of x0 (including the random draw) in the constructor, and a second one on the snapped start point follows its last "
    "modification, both in code the constructor executes unconditionally. R3 the constructor cannot reach the target. R4 the returned x "
    "derives from the incumbent slot. Purity of the user's constraint function is assumed."
    " R5 the constraint callable the optimizer stores is the constructor's parameter, None, or a wrapper that applies it to its own argument and only reshapes the result."
)


def _is_cons_positive_test(test, cons_names, arg_pred) -> bool:
    """test implies  cons(arg) > 0  for an arg satisfying arg_pred."""
    cj = conjuncts(test, True)
    if any(isinstance(c, ast.Constant) and bool(c.value) != pol for c, pol in cj):
        return False  # a constant-false conjunct disables the test
    for c, pol in cj:
        if not pol:
            continue
        e = c
        while isinstance(e, ast.Call) and canon(e.func) in ("np.any", "any", "bool") and len(e.args) == 1:
            e = e.args[0]  # the truth value of the comparison, spelled out
        if isinstance(e, ast.Compare) and len(e.ops) == 1:
            l, r, op = e.left, e.comparators[0], type(e.ops[0])
            if op is ast.Lt:
                l, r, op = r, l, ast.Gt
            if op is ast.Gt and const_num(r) == 0 and isinstance(l, ast.Call) and canon(l.func) in cons_names and l.args and arg_pred(l.args[0]):
                return True
    return False


SHAPE_ONLY_NP = {"np.asarray", "np.array", "np.atleast_1d", "np.atleast_2d", "np.ravel", "np.squeeze", "np.reshape", "np.ndarray.flatten"}
SHAPE_ONLY_METHODS = {"reshape", "ravel", "flatten", "squeeze", "copy"}


def _shape_only(expr, param, argnames) -> bool:
    """``expr`` is the user's callable applied to (a reshaped view of) the wrapper's own argument, passed through
    operations that change neither the sign nor the NaN-ness of any entry."""
    e = expr
    while True:
        if isinstance(e, ast.Call) and call_name(e) in SHAPE_ONLY_NP and e.args:
            if any(k.arg == "dtype" and canon(k.value) not in ("float", "np.float64") for k in e.keywords):
                return False
            e = e.args[0]
        elif isinstance(e, ast.Call) and isinstance(e.func, ast.Attribute) and e.func.attr in SHAPE_ONLY_METHODS:
            e = e.func.value
        else:
            break
    if isinstance(e, ast.Call) and isinstance(e.func, ast.Name) and e.func.id == param and len(e.args) == 1 and not e.keywords:
        a = e.args[0]
        while isinstance(a, ast.Call) and (call_name(a) in SHAPE_ONLY_NP or (isinstance(a.func, ast.Attribute) and a.func.attr in SHAPE_ONLY_METHODS)):
            a = a.args[0] if call_name(a) in SHAPE_ONLY_NP and a.args else a.func.value
        return isinstance(a, ast.Name) and a.id in argnames
    return False


def constraint_identity(ctx, prog, R):
    """Every filter and the start-point test compare the callable's result with 0; they are only as good as the callable
    they are given.  The attribute must hold the constructor's parameter itself, ``None``, or a lambda / nested function
    that applies the parameter to its own argument and only reshapes the result (a wrapper that maps NaN to 0, negates,
    thresholds or caches changes which points count as feasible)."""
    init = R.bads_init
    if not R.cons_stores:
        ctx.missing(init, "store of the constraint callable")
        return
    nested = {n.name: n for n in ast.walk(init.node) if isinstance(n, ast.FunctionDef) and n is not init.node}
    def value_ok(v) -> bool:
        if (isinstance(v, ast.Name) and v.id == R.cons_param) or (isinstance(v, ast.Constant) and v.value is None):
            return True
        if isinstance(v, ast.IfExp):
            return value_ok(v.body) and value_ok(v.orelse)
        body, argnames = None, set()
        if isinstance(v, ast.Lambda):
            body, argnames = v.body, {a.arg for a in v.args.args}
        elif isinstance(v, ast.Name) and v.id in nested:
            f = nested[v.id]
            rets = [n for n in ast.walk(f) if isinstance(n, ast.Return) and n.value is not None]
            if len(rets) == 1 and len(f.body) <= 2:
                body, argnames = rets[0].value, {a.arg for a in f.args.args}
        return body is not None and _shape_only(body, R.cons_param, argnames)

    for st, v in R.cons_stores:
        if value_ok(v):
            ctx.ok(init, st, f"self.{R.cons_attr} <- {canon(v)[:60]} (the user's callable, None, or a shape-only wrapper)")
        else:
            ctx.fail(init, st, f"self.{R.cons_attr} is set to '{canon(v)[:70]}', not to the user's constraint function: what the filters compare with 0 is no longer what the user's function reports (e.g. NaN mapped to 0 counts as feasible)", construct=f"self.{R.cons_attr} <- wrapper {canon(v)[:50]}")
    # any other store to the attribute in the class
    for m, t, v, st, k in attr_stores(prog, R.bads, R.cons_attr):
        if m is not init:
            ctx.fail(m, st, f"self.{R.cons_attr} is re-assigned outside the constructor", construct=f"self.{R.cons_attr} re-assigned in {m.name}")


def check(ctx):
    prog = ctx.prog
    R = roles_of(prog)
    fs = FilterSummary(prog, R)
    pa = PointAnalysis(prog, R, fs)

    # ------------------------------------------------------------------ R1
    ctx.rule("R1", "only points that passed the user's constraint reach the logger and the point slots", floor=12)
    cons = fs.stage("constraint")
    if not cons:
        ctx.missing(fs.fn, "constraint stage in the candidate filter")
    for st in cons:
        if st.ok:
            ctx.ok(fs.fn, st.stmt, f"constraint stage keeps rows with {st.why} on inverse(result)")
        else:
            ctx.fail(fs.fn, st.stmt, f"constraint stage: {st.why}", construct=f"constraint stage: {norm_stmt(st.stmt)[:70]} [{st.detail.get('mask')}]")
    if cons and all(c.ok for c in cons):
        # must-dataflow over the filter: with a callable present every returned row passed the constraint selection, and
        # nothing recomputes the rows afterwards (a recomputation drops the tag)
        ctx.check("FEAS" in fs.path_tags(), fs.fn, cons[0].stmt, "no returning path skips the constraint selection when a callable is present; rows are only selected afterwards",
                  "with a constraint callable supplied, a path reaches the return without the constraint selection (or the rows are recomputed after it)", construct="constraint stage bypass")
    for caller, call in R.filter_calls():
        tags = pa.filter_call_tags(caller, call)
        b = bind_args(fs.fn, call)
        carg = b.get(fs.p_cons)
        if "FEAS" in tags:
            ctx.ok(caller, call, f"filter called with the user's constraint ({canon(carg)})")
        elif not R.logger_calls(caller):
            # a strategy-internal filter only shapes the proposal; the evaluating step filters again (C18-R3 decides it)
            ctx.note(f"{caller.short}: strategy-internal filter call without the user's constraint (does not reach the target directly)")
        else:
            ctx.fail(caller, call, f"the candidate filter is called with constraint argument {canon(carg) if carg is not None else '<missing>'}: candidates of this step are not checked against the user's constraint",
                     construct=f"filter constraint argument {canon(carg) if carg is not None else '<missing>'}")
    for f in R.evaluating_functions():
        fl = pa.flow(f)
        for call in R.logger_calls(f):
            arg = call.args[0] if call.args else None
            tags = fl.tags(arg) if arg is not None else None
            if tags is None:
                continue
            ctx.check("FEAS" in tags, f, call, f"logger({canon(arg)}) FEAS", f"the point handed to the logger ({canon(arg)}) has not passed the constraint filter on every path", construct=f"logger argument {canon(arg)} not constraint-checked")
    for m in R.bads.methods.values():
        fl = None
        for t, v, s, k in iter_stores(m.node):
            c = canon(t)
            if c not in POINT_SLOTS or v is None:
                continue
            fl = fl or pa.flow(m)
            tags = fl.tags(v)
            if tags is None:
                continue
            if "FEAS" in tags:
                ctx.ok(m, s, f"{c} <- {canon(v)[:50]} [FEAS]")
            elif _start_point_checked(prog, R, m, s, v):
                ctx.ok(m, s, f"{c} <- {canon(v)[:50]} [snapped start point, constraint re-checked]")
            else:
                ctx.fail(m, s, f"point slot {c} receives a value that has not passed the user's constraint on every path", construct=f"{c} <- {canon(v)[:60]} not constraint-checked")

    # ------------------------------------------------------------------ R2
    ctx.rule("R2", "an infeasible start point is rejected with ValueError before and after snapping", floor=2)
    init = R.bads_init
    cfg = cfg_of(init)
    names = {R.cons_param, f"self.{R.cons_attr}"}
    found = None
    for node in ast.walk(init.node):
        if isinstance(node, ast.If) and node.body and isinstance(node.body[-1], ast.Raise) and _is_cons_positive_test(deref_expr(prog, init, node.test), names, lambda a: canon(a) == "self.x0"):
            exc = node.body[-1].exc
            if exc is not None and canon(exc).startswith("ValueError"):
                found = node
    if found is None:
        ctx.fail(init, init.node, "the constructor no longer raises ValueError when the constraint reports a violation at the start point", construct="<missing x0 feasibility check>")
    else:
        g = [canon(t, neg=not p) for t, p in guard_of(prog, init, found)]
        extra = [x for x in g if x not in (f"({R.cons_param} is not None)", f"(self.{R.cons_attr} is not None)")]
        tn = cfg.head_of(found)
        late = []
        for m, t, v, s, k in attr_stores(prog, R.bads, "x0"):
            if m is init:
                sn = cfg.node_of(s)
                if sn is not None and tn.id in cfg.reachable(sn.id):
                    continue
                late.append(s)
        # only complement-of-raise guards are harmless
        extra = [x for x in extra if not _is_raise_complement(prog, init, found, x)]
        if extra:
            ctx.fail(init, found, f"the start-point feasibility check is additionally guarded by {extra}", construct="x0 feasibility check extra guard")
        elif late:
            ctx.fail(init, late[0], "x0 is (re)defined after the feasibility check (e.g. the random draw): the checked point is not the one used", construct="x0 defined after its feasibility check")
        else:
            ctx.ok(init, found, "constraint(x0) > 0 -> ValueError after the final definition of x0")
    ios = R.init_optim_state
    cfg2 = cfg_of(ios)
    found2 = None
    inv = R.inverse.name
    for node in ast.walk(ios.node):
        if isinstance(node, ast.If) and node.body and isinstance(node.body[-1], ast.Raise):
            if _is_cons_positive_test(deref_expr(prog, ios, node.test), names, lambda a: isinstance(a, ast.Call) and isinstance(a.func, ast.Attribute) and a.func.attr == inv and a.args and isinstance(a.args[0], ast.Name)):
                exc = node.body[-1].exc
                if exc is not None and canon(exc).startswith("ValueError"):
                    found2 = node
    if found2 is None:
        ctx.fail(ios, ios.node, "no ValueError is raised when the start point violates the constraint after being snapped to the mesh", construct="<missing snapped start point feasibility check>")
    elif _extra_conditions(prog, ios, found2, names):
        ex = _extra_conditions(prog, ios, found2, names)
        ctx.fail(ios, found2, f"the feasibility test of the snapped start point is only evaluated under the additional condition(s) {ex}: an infeasible snapped point is accepted when they fail", construct=f"snapped start point check under {' & '.join(ex)[:80]}")
    else:
        u0 = None
        for c, pol in conjuncts(deref_expr(prog, ios, found2.test), True):
            for n in ast.walk(c):
                if isinstance(n, ast.Call) and isinstance(n.func, ast.Attribute) and n.func.attr == inv and n.args and isinstance(n.args[0], ast.Name):
                    u0 = n.args[0].id
        tn = cfg2.head_of(found2)
        bad = []
        slot_src = False
        for t, v, s, k in iter_stores(ios.node):
            b = store_base(t)
            if isinstance(b, ast.Name) and b.id == u0:
                sn = cfg2.node_of(s)
                if sn is not None and not (tn.id in cfg2.reachable(sn.id)) or (sn is not None and sn.id in cfg2.reachable(tn.id) and sn.id != tn.id and pos(s) > pos(found2)):
                    bad.append(s)
            if canon(t) in POINT_SLOTS and v is not None and u0 in {n.id for n in ast.walk(v) if isinstance(n, ast.Name)}:
                slot_src = True
        if bad:
            ctx.fail(ios, bad[0], f"the snapped start point {u0} is modified after its feasibility check", construct=f"{u0} modified after feasibility check")
        elif not slot_src:
            ctx.fail(ios, found2, f"the point checked for feasibility ({u0}) is not the one stored as the initial incumbent", construct="feasibility check on a different point")
        else:
            ctx.ok(ios, found2, f"constraint(inverse({u0})) > 0 -> ValueError after the last modification of {u0}; {u0} becomes the incumbent")
    # both live in code the constructor runs unconditionally
    calls_ios = [c for c, tg in prog.calls_in(init) if ios in tg]
    if calls_ios:
        cn = cfg.node_of(calls_ios[0])
        ctx.check(cfg.postdominates(cn.id, cfg.entry.id), init, calls_ios[0], "state initialisation (with the second check) runs on every constructor path", "the routine holding the second feasibility check is not executed on every constructor path", construct="conditional call of the state initialisation")
    else:
        ctx.missing(init, "call of the state-initialisation routine from the constructor")

    # ------------------------------------------------------------------ R3
    ctx.rule("R3", "the constructor cannot reach the target (so rejection precedes any evaluation)", floor=2)
    sinks = {f for f, _ in R.target_sinks}
    reach = prog.reachable_from(init)
    hit = [f for f in reach if f in sinks]
    if hit:
        path = prog.call_path(init, hit[0])
        ctx.fail(init, init.node, "constructing BADS can call the target function", construct="ctor reaches target via " + " -> ".join(f.short for f in path), witness=[f.short for f in path])
    else:
        ctx.ok(init, init.node, f"{len(reach)} functions reachable from the constructor, none calls the target")
    ctx.check(any(f in sinks for f in prog.reachable_from(R.optimize)), R.optimize, R.optimize.node, "positive control: optimize() reaches the target", "positive control failed", construct="positive control")

    # ------------------------------------------------------------------ R4
    ctx.rule("R4", "the returned x is the inverse transform of the (feasible) incumbent slot", floor=1)
    for m, t, v, s, k in attr_stores(prog, R.bads, "x"):
        okx = isinstance(v, ast.Call) and isinstance(v.func, ast.Attribute) and v.func.attr == R.inverse.name and v.args and canon(v.args[0]) in POINT_SLOTS
        ctx.check(okx, m, s, "self.x = inverse_transf(incumbent slot)", "the returned solution is not derived from the incumbent slot", construct=f"self.x <- {canon(v)[:60]}")
    # ------------------------------------------------------------------ R5
    ctx.rule("R5", "the constraint callable the optimizer stores is the user's own (or a wrapper that only reshapes its result)", floor=1)
    constraint_identity(ctx, prog, R)

    ctx.assume("the user's constraint function is deterministic and side-effect free")
    ctx.assume("boolean-mask row selection keeps exactly the rows whose mask entry is True")


def _is_raise_complement(prog, fn, node, guard_text) -> bool:
    for t, pol in guard_of(prog, fn, node):
        if not pol and canon(t, neg=True) == guard_text:
            return True
    return False


def _start_point_checked(prog, R, fn, store_stmt, value) -> bool:
    """value's root name is the argument of inverse(...) inside a raising
    constraint test that dominates the store."""
    names = [n.id for n in ast.walk(value) if isinstance(n, ast.Name) and n.id != "self"]
    if not names:
        return False
    root = names[0]
    cfg = cfg_of(fn)
    sn = cfg.node_of(store_stmt)
    cn = {R.cons_param, f"self.{R.cons_attr}"}
    for node in ast.walk(fn.node):
        if isinstance(node, ast.If) and node.body and isinstance(node.body[-1], ast.Raise):
            if _is_cons_positive_test(deref_expr(prog, fn, node.test), cn, lambda a: isinstance(a, ast.Call) and isinstance(a.func, ast.Attribute) and a.func.attr == R.inverse.name and a.args and canon(a.args[0]) == root):
                tn = cfg.head_of(node)
                if cfg.dominates(tn.id, sn.id):
                    return True
                # dominance modulo 'no constraint supplied': every path to the store that avoids the test leaves a
                # ``<constraint> is not None`` test on its False edge (there is nothing to check on it)
                if not cfg.can_reach(cfg.entry.id, sn.id, avoiding={tn.id}, skip_edge=lambda n_, labels: _cons_absent_edge(n_, labels, cn)):
                    return True
    return False


def _extra_conditions(prog, fn, if_node, cons_names) -> list:
    """conditions other than 'a constraint callable is present' under which the raising feasibility test is evaluated:
    further conjuncts of its own test and enclosing guards (each of them narrows the rejection)."""
    out = []
    presence = {f"({n} is not None)" for n in cons_names}
    cj = conjuncts(if_node.test, True)
    for c, pol in cj:
        txt = canon(c, neg=not pol)
        if txt in presence:
            continue
        e = deref_expr(prog, fn, c)
        if _is_cons_positive_test(e, cons_names, lambda a: True) and pol:
            continue
        out.append(txt)
    from ..cfg import enclosing_tests

    # enclosing if/while tests only: the complement of an earlier ``if c: raise`` is not a narrowing (the other side raises)
    for t, pol in enclosing_tests(prog, fn, if_node):
        for c, p_ in conjuncts(t, pol):
            txt = canon(c, neg=not p_)
            if txt not in presence:
                out.append(txt)
    return out


def _cons_absent_edge(node, labels, cons_names) -> bool:
    """CFG edge on which the optional constraint callable is known to be None."""
    if node.kind != "test" or node.expr is None or len(labels) != 1:
        return False
    pol = "T" in labels
    for c, p_ in conjuncts(node.expr, pol):
        if isinstance(c, ast.Compare) and len(c.ops) == 1 and canon(c.left) in cons_names and isinstance(c.comparators[0], ast.Constant) and c.comparators[0].value is None:
            is_none = isinstance(c.ops[0], ast.Is)
            if isinstance(c.ops[0], (ast.Is, ast.IsNot)) and (is_none == p_):
                return True
    return False
