"""Recognition of cache-growth idioms (C12-R4).

For ``self.A = <grow>(self.A ...)`` in the growth routine this module extracts,
for each per-row array A: the fill value of the fresh rows, the number of rows
added, whether the old contents come first, and - for allocate-and-copy growth -
the copy bound.  Recognised idioms:

  np.append(A, np.full(shape, fill), axis=0)      (also concatenate / vstack of a pair)
  np.pad(A, ((0, n), (0, 0)) | (0, n) | [(0, n)] + [(0, 0)] * (A.ndim - 1)[, constant_values=fill])
  helper(A[, fill])                               with helper a nested function / method using one of the idioms
  g = np.full((A.shape[0] + n,) + A.shape[1:], fill); g[:k] = A[:k]; return g
"""
from __future__ import annotations

import ast
import copy
from typing import Dict, Optional

from ..terms import call_name, canon, const_num
from .common import kw, literal_shape_first_dim


class Subst(ast.NodeTransformer):
    def __init__(self, env):
        self.env = env

    def visit_Name(self, node):
        if node.id in self.env and isinstance(node.ctx, ast.Load):
            return copy.deepcopy(self.env[node.id])
        return node


def subst(expr, env):
    return Subst(env).visit(copy.deepcopy(expr))


def fill_of_fresh(fresh) -> Optional[str]:
    n = call_name(fresh) if isinstance(fresh, ast.Call) else None
    if n == "np.full" and len(fresh.args) >= 2:
        return canon(fresh.args[1])
    if n == "np.full" and kw(fresh, "fill_value") is not None:
        return canon(kw(fresh, "fill_value"))
    if n == "np.zeros":
        return "0"
    if n == "np.ones":
        return "1"
    if n == "np.empty":
        return "uninitialised"
    return None


def norm_fill(f: Optional[str]) -> Optional[str]:
    if f is None:
        return None
    if f in ("0", "0.0", "False"):
        return {"0": "0", "0.0": "0", "False": "False"}[f]
    return f


def analyse_grow(expr: ast.AST, arr: str, scope_funcs: Dict[str, ast.FunctionDef], closure: Dict[str, ast.AST], depth: int = 0) -> Optional[dict]:
    """``expr`` is the right-hand side of ``self.A = expr``; ``arr`` = canon of self.A."""
    if depth > 3 or not isinstance(expr, ast.Call):
        return None
    n = call_name(expr)
    # (a) append / concatenate pair
    def _cl(e):
        # a local bound once to the array / to the block of fresh rows (``table = self.X``)
        return closure[e.id] if isinstance(e, ast.Name) and e.id in closure and depth == 0 else e

    if n == "np.append" and len(expr.args) >= 2:
        first, fresh = _cl(expr.args[0]), expr.args[1]
        if canon(first) != arr and canon(_cl(fresh)) == arr:
            fresh = _cl(fresh)
        old_first = canon(first) == arr
        if not old_first and canon(fresh) == arr:
            first, fresh = fresh, first
        if isinstance(fresh, ast.Name) and fresh.id in closure:
            fresh = closure[fresh.id]  # the block of empty rows built once in a local
        fd = literal_shape_first_dim(fresh) if isinstance(fresh, ast.Call) else None
        ax = kw(expr, "axis")
        return {"idiom": "append", "old_first": old_first, "fill": fill_of_fresh(fresh), "amount": canon(fd) if fd is not None else None,
                "axis0": ax is not None and const_num(ax) == 0, "fresh": fresh, "copy_bound": "all"}
    if n in ("np.concatenate", "np.vstack") and expr.args and isinstance(expr.args[0], (ast.Tuple, ast.List)) and len(expr.args[0].elts) == 2:
        a, b = expr.args[0].elts
        if canon(_cl(a)) == arr:
            a = _cl(a)
        elif canon(_cl(b)) == arr:
            b = _cl(b)
        old_first = canon(a) == arr
        fresh = b if old_first else a
        if isinstance(fresh, ast.Name) and fresh.id in closure:
            fresh = closure[fresh.id]  # the block of empty rows built once in a local
        fd = literal_shape_first_dim(fresh) if isinstance(fresh, ast.Call) else None
        ax = kw(expr, "axis")
        return {"idiom": n, "old_first": old_first, "fill": fill_of_fresh(fresh), "amount": canon(fd) if fd is not None else None,
                "axis0": n == "np.vstack" or ax is None or const_num(ax) == 0, "fresh": fresh, "copy_bound": "all"}
    if n == "np.resize" and expr.args and canon(expr.args[0]) == arr:
        return {"idiom": "resize", "old_first": True, "fill": "repeated copies of the old rows", "amount": "?", "axis0": True, "fresh": None, "copy_bound": "all"}
    # (b) pad
    if n == "np.pad" and len(expr.args) >= 2 and canon(expr.args[0]) == arr:
        spec = expr.args[1]
        if isinstance(spec, ast.Name) and spec.id in closure:
            spec = closure[spec.id]
        amount, at_end, rest_zero = None, False, True
        pairs = None
        if isinstance(spec, (ast.Tuple, ast.List)) and spec.elts and all(isinstance(e, (ast.Tuple, ast.List)) for e in spec.elts):
            pairs = spec.elts
        elif isinstance(spec, (ast.Tuple, ast.List)) and len(spec.elts) == 2 and not isinstance(spec.elts[0], (ast.Tuple, ast.List)):
            pairs = [spec]
        elif isinstance(spec, ast.BinOp) and isinstance(spec.op, ast.Add) and isinstance(spec.left, (ast.List, ast.Tuple)):
            # [(0, n)] + [(0, 0)] * (arr.ndim - 1)
            pairs = list(spec.left.elts)
            right = spec.right
            if isinstance(right, ast.BinOp) and isinstance(right.op, ast.Mult) and isinstance(right.left, (ast.List, ast.Tuple)):
                for e in right.left.elts:
                    if not (isinstance(e, (ast.Tuple, ast.List)) and all(const_num(x) == 0 for x in e.elts)):
                        rest_zero = False
            else:
                rest_zero = False
        if pairs:
            p0 = pairs[0]
            if isinstance(p0, (ast.Tuple, ast.List)) and len(p0.elts) == 2:
                at_end = const_num(p0.elts[0]) == 0
                amount = canon(p0.elts[1])
            for p in pairs[1:]:
                if not (isinstance(p, (ast.Tuple, ast.List)) and all(const_num(x) == 0 for x in p.elts)):
                    rest_zero = False
        cv = kw(expr, "constant_values")
        mode = kw(expr, "mode")
        fill = canon(cv) if cv is not None else "0"
        if mode is not None and canon(mode) not in ("'constant'",):
            fill = f"mode={canon(mode)}"
        return {"idiom": "pad", "old_first": at_end, "fill": fill, "amount": amount, "axis0": rest_zero, "fresh": None, "copy_bound": "all"}
    # (c) helper
    if isinstance(expr.func, ast.Name) and expr.func.id in scope_funcs:
        h = scope_funcs[expr.func.id]
        params = [a.arg for a in h.args.args]
        env = dict(closure)
        for p, a in zip(params, expr.args):
            env[p] = a
        # defaults
        defaults = [None] * (len(params) - len(h.args.defaults)) + list(h.args.defaults)
        for p, d in zip(params, defaults):
            if p not in env and d is not None:
                env[p] = d
        local = {}
        copies = []
        ret = None
        for s in h.body:
            if isinstance(s, ast.Assign) and len(s.targets) == 1 and isinstance(s.targets[0], ast.Name):
                local[s.targets[0].id] = subst(s.value, {**env, **local})
            elif isinstance(s, ast.Assign) and isinstance(s.targets[0], ast.Subscript):
                copies.append((subst(s.targets[0], {**env}), subst(s.value, {**env, **local})))
            elif isinstance(s, ast.Return) and s.value is not None:
                ret = s.value
        if ret is None:
            return None
        if isinstance(ret, ast.Name) and ret.id in local:
            alloc = local[ret.id]
            if isinstance(alloc, ast.Call) and call_name(alloc) in ("np.full", "np.zeros", "np.empty"):
                # (d) allocate and copy
                shape = alloc.args[0] if alloc.args else None
                amount = None
                if shape is not None:
                    first = shape
                    if isinstance(shape, ast.BinOp) and isinstance(shape.op, ast.Add):
                        first = shape.left
                    if isinstance(first, (ast.Tuple, ast.List)) and first.elts:
                        first = first.elts[0]
                    if isinstance(first, ast.BinOp) and isinstance(first.op, ast.Add):
                        l, r = canon(first.left), canon(first.right)
                        if l == f"{arr}.shape[0]":
                            amount = r
                        elif r == f"{arr}.shape[0]":
                            amount = l
                bound = None
                src_ok = False
                for t, v in copies:
                    if isinstance(t, ast.Subscript) and canon(t.value) == ret.id and isinstance(t.slice, ast.Slice) and t.slice.lower is None:
                        if isinstance(v, ast.Subscript) and canon(v.value) == arr and isinstance(v.slice, ast.Slice) and v.slice.lower is None:
                            ub_t = canon(t.slice.upper) if t.slice.upper is not None else "all"
                            ub_v = canon(v.slice.upper) if v.slice.upper is not None else "all"
                            src_ok = ub_t == ub_v or "all" in (ub_t, ub_v)
                            bound = ub_v if ub_v != "all" else ub_t
                        elif canon(v) == arr:
                            src_ok, bound = True, canon(t.slice.upper) if t.slice.upper is not None else "all"
                return {"idiom": "allocate-and-copy", "old_first": src_ok, "fill": fill_of_fresh(alloc), "amount": amount, "axis0": True, "fresh": alloc, "copy_bound": bound}
            return analyse_grow(alloc, arr, scope_funcs, env, depth + 1)
        return analyse_grow(subst(ret, {**env, **local}), arr, scope_funcs, env, depth + 1)
    return None
