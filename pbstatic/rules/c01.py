"""C01 -- hard box bounds are never left."""
from __future__ import annotations

import ast
from typing import Dict, FrozenSet, List, Optional, Set, Tuple

from ..cfg import cfg_of
from ..flow import EMPTY, BasePolicy, TagFlow, path_of
from ..model import AnalysisError, FunctionInfo, bind_args
from ..quant import absorb_nan_guard, Normaliser, show, top_disjuncts
from ..roles import roles_of
from ..terms import call_name, canon, const_num, guard_of, match_clamp_all, norm_stmt, state_key
from .c08 import make_rename, mask_resolver, ROLES5
from .common import attr_stores, iter_stores, kw, pos, reaching_assignments, self_attr_of, store_base
from .points import FilterSummary, PointAnalysis, POINT_SLOTS, HARD_BOUNDS, SEARCH_BOUNDS

EXPLANATION = (
    "R1 clamp summary: every return of VariableTransformer.inverse_transf carries a two-sided clamp to self.orig_lb/self.orig_ub (must-tag "
    "dataflow; reshape preserves), and those attributes are written only in __init__ from copies of the lower/upper bound parameters. R2 "
    "sinks: the target call's argument is inverse(x)[0] (or x only when no transformer exists, and BADS constructs its logger with a "
    "transformer that is never None); every argument of the user's constraint callable is an inverse-transform result or a value validated "
    "by a dominating two-sided raise guard / drawn uniformly between validated plausible bounds; result x = inverse(incumbent slot). R3 boxed "
    "slots (inductive invariant): every store to self.u, self.u_best, optim_state['u'] and history 'u' is another slot, a log/history row, a "
    "row of a filtered candidate set, or the snapped start point whose two-sided bounds re-check post-dominates the store; every logger-call "
    "argument carries BOX. R4 filter summary: on every path the filter's result is a two-sided clamp to / a negated two-sided out-of-box "
    "selection against its bound parameters followed by row selections only, and each call site passes the hard internal bounds or the "
    "search bounds. R5 search bounds lie inside the hard bounds: inward-rounding idiom (mask direction and correction sign pair as (<,+) / "
    "(>,-)) in both sibling implementations, cross-checked. Sound modulo NaN and the two arithmetic lemmas named in DESIGN.md."
    " R6 effect rule: module-level package functions never write into an array they were handed (in-place store through a parameter or a view of it, ufunc out=); state dictionaries exempt."
)


class ClampPolicy(BasePolicy):
    def __init__(self, lo, hi):
        self.lo, self.hi = lo, hi

    def eval(self, expr, state, flow):
        if isinstance(expr, ast.Call):
            for val, lo, hi in match_clamp_all(expr):
                if canon(lo) == self.lo and canon(hi) == self.hi:
                    return frozenset({"CL"})
            if match_clamp_all(expr):
                return EMPTY
        return super().eval(expr, state, flow)


def _vacuous_clamp_edge(prog, fn, test, polarity) -> bool:
    """the edge (test, polarity) is only taken when every original hard bound is infinite, where the two-sided clamp is
    the identity (and so is the clamp to the transformed bounds, g being increasing and onto): ``if self._needs_clamp:``
    with ``self._needs_clamp = bool(np.any(np.isfinite(concatenate([orig_lb, orig_ub]))))`` stored once, after the bounds."""
    import copy

    from ..quant import Normaliser, top_conjuncts
    from .common import attr_stores

    if fn.cls is None:
        return False
    once = {}

    def stored(a):
        if a not in once:
            sts = [x for x in attr_stores(prog, fn.cls, a)]
            once[a] = sts[0] if len(sts) == 1 and sts[0][2] is not None and sts[0][4] == "assign" else None
        return once[a]

    used = []

    class A(ast.NodeTransformer):
        def visit_Attribute(self, node):
            if isinstance(node.value, ast.Name) and node.value.id == "self" and isinstance(node.ctx, ast.Load) and node.attr not in ("orig_lb", "orig_ub"):
                st = stored(node.attr)
                if st is not None and isinstance(st[2], (ast.Call, ast.BoolOp, ast.UnaryOp, ast.Compare)):
                    used.append(st)
                    return copy.deepcopy(st[2])
            return node

    t2 = A().visit(copy.deepcopy(test))
    if not used:
        return False
    f = Normaliser().quant(t2, polarity)
    conj = set(top_conjuncts(f))
    need = {("all", ("pred", "isfinite", "self.orig_lb", False)), ("all", ("pred", "isfinite", "self.orig_ub", False))}
    if not need <= conj:
        return False
    # the flag is computed from the stored bounds: both are stored exactly once and before the flag
    for b in ("orig_lb", "orig_ub"):
        sb = stored(b)
        if sb is None or any(sb[0] is not u[0] or pos(sb[3]) > pos(u[3]) for u in used):
            return False
    return True


class _VacuousAware(ClampPolicy):
    def refine(self, test, polarity, state, flow):
        if _vacuous_clamp_edge(flow.prog, flow.fn, test, polarity):
            for k in list(state):
                state[k] = state[k] | {"CL"}
        return state


def clamp_summary(ctx, prog, fn: FunctionInfo, lo: str, hi: str, what: str) -> bool:
    fl = TagFlow(prog, fn, _VacuousAware(lo, hi))
    ok = True
    n = 0
    for node in ast.walk(fn.node):
        if isinstance(node, ast.Return) and prog.function_of(node) is fn:
            n += 1
            tags = fl.tags(node.value) if node.value is not None else EMPTY
            if tags is None:
                continue
            if "CL" in tags:
                ctx.ok(fn, node, f"{what}: returned value is clamped to [{lo}, {hi}]")
            else:
                ok = False
                ctx.fail(fn, node, f"{what} can return a value that has not passed the two-sided clamp to [{lo}, {hi}] on this path", construct=f"{fn.short} returns unclamped {canon(node.value)}")
    if n == 0:
        ctx.missing(fn, f"return statement of {fn.short}")
        ok = False
    return ok


def _convex_pair(e):
    """(A, B) when e is a*A + b*B with literal a, b > 0, a + b = 1, or (A + B) / 2, or A + t*(B - A) with literal 0 <= t <= 1"""
    def scaled(x):
        if isinstance(x, ast.BinOp) and isinstance(x.op, ast.Mult):
            for c_, a_ in ((x.left, x.right), (x.right, x.left)):
                k_ = const_num(c_)
                if k_ is not None and not isinstance(a_, ast.Constant):
                    return float(k_), a_
        if isinstance(x, ast.BinOp) and isinstance(x.op, ast.Div) and const_num(x.right):
            return 1.0 / float(const_num(x.right)), x.left
        return None

    if isinstance(e, ast.BinOp) and isinstance(e.op, ast.Add):
        l, r = scaled(e.left), scaled(e.right)
        if l and r and l[0] > 0 and r[0] > 0 and abs(l[0] + r[0] - 1.0) < 1e-15:
            return l[1], r[1]
        # A + t * (B - A)
        for a_, t_ in ((e.left, e.right), (e.right, e.left)):
            st_ = scaled(t_)
            if st_ and 0 <= st_[0] <= 1 and isinstance(st_[1], ast.BinOp) and isinstance(st_[1].op, ast.Sub) and canon(st_[1].right) == canon(a_):
                return a_, st_[1].left
    sc = scaled(e)
    if sc and abs(sc[0] - 0.5) < 1e-15 and isinstance(sc[1], ast.BinOp) and isinstance(sc[1].op, ast.Add):
        return sc[1].left, sc[1].right
    return None


class BoundProv(BasePolicy):
    """P:<param> through copies, float casts, broadcasting against ones; an
    infinite default (no bound) is vacuous."""

    def __init__(self, params, prog=None, fn=None, seeds=None, top=None):
        self.params = params
        self.top = top if top is not None else frozenset(f"P:{p}" for p in params)
        self.prog, self.fn, self.seeds = prog, fn, seeds

    def initial(self, flow):
        if self.seeds is not None:
            return dict(self.seeds)
        return {p: frozenset({f"P:{p}"}) for p in self.params}

    def clone_for(self, callee, seeds):
        return BoundProv([], self.prog, callee, seeds, self.top)

    def _is_inf_default(self, e):
        if isinstance(e, ast.Call) and call_name(e) in ("np.full", "np.full_like") and len(e.args) >= 2 and const_num(e.args[1]) in (float("inf"), float("-inf")):
            return True  # np.full(shape, +-inf)
        if isinstance(e, ast.Call) and call_name(e) in ("np.full", "np.full_like") and any(k.arg == "fill_value" and const_num(k.value) in (float("inf"), float("-inf")) for k in e.keywords):
            return True
        return isinstance(e, ast.BinOp) and isinstance(e.op, ast.Mult) and any(const_num(x) in (float("inf"), float("-inf")) for x in (e.left, e.right))

    def eval(self, expr, state, flow):
        if self._is_inf_default(expr):
            return self.top
        if isinstance(expr, ast.BinOp) and isinstance(expr.op, ast.Mult):
            for a, b in ((expr.left, expr.right), (expr.right, expr.left)):
                if isinstance(b, ast.Call) and call_name(b) == "np.ones":
                    return self.eval(a, state, flow)
        return super().eval(expr, state, flow)

    def eval_unpack(self, value, i, n, state, flow):
        if isinstance(value, (ast.GeneratorExp, ast.ListComp)) and len(value.generators) == 1:
            g = value.generators[0]
            if isinstance(g.iter, (ast.Tuple, ast.List)) and len(g.iter.elts) == n and isinstance(g.target, ast.Name):
                sub = dict(state)
                sub[g.target.id] = self.eval(g.iter.elts[i], state, flow)
                return self.eval(value.elt, sub, flow)
        return super().eval_unpack(value, i, n, state, flow)


class ValPolicy(BasePolicy):
    """VAL = inside the caller's hard box, established by a dominating raising
    guard (refinement on the fall-through edge)."""

    def __init__(self, prog, fn, rename, roles):
        self.prog, self.fn, self.rename, self.roles = prog, fn, rename, roles  # roles: name -> role

    def refine(self, test, polarity, state, flow):
        if polarity:
            return state
        from .c08 import inline_mask_helper

        f = absorb_nan_guard(Normaliser(mask_resolver(self.prog, self.fn, [k for k, v in self.roles.items() if v in ROLES5], test), self.rename, inline=inline_mask_helper(self.prog, self.fn)).quant(test, True))
        ds = {show(d) for d in top_disjuncts(f)}
        inv = {v: k for k, v in self.roles.items()}
        if "ANY[x0 < lb]" in ds and "ANY[ub < x0]" in ds and "x0" in inv:
            state[inv["x0"]] = frozenset({"VAL"})
        if "ANY[plb < lb]" in ds and "ANY[ub < pub]" in ds and "ANY[pub <= plb]" in ds:
            for r in ("plb", "pub"):
                if r in inv:
                    state[inv[r]] = frozenset({"VAL"})
        return state

    def eval(self, expr, state, flow):
        if isinstance(expr, ast.Call):
            cl = match_clamp_all(expr)
            for val, lo, hi in cl:
                if self.rename(canon(lo)) == "LBEFF" and self.rename(canon(hi)) == "UBEFF":
                    return self.eval(val, state, flow)
                # a two-sided clamp to the hard bounds themselves puts any value inside the hard box
                if self.rename(canon(lo)) == "lb" and self.rename(canon(hi)) == "ub":
                    return frozenset({"VAL"})
            n = call_name(expr)
            if n in ("np.maximum", "np.minimum") and len(expr.args) == 2:
                # moving a validated plausible bound towards an effective bound / towards x0 keeps it
                # inside the hard box (arithmetic lemma: effective bounds are inward)
                a, b = expr.args
                ta, tb = self.eval(a, state, flow), self.eval(b, state, flow)
                names = {self.rename(canon(a)), self.rename(canon(b))}
                if "VAL" in ta and ("VAL" in tb or names & {"LBEFF", "UBEFF"}):
                    return frozenset({"VAL"})
                if "VAL" in tb and names & {"LBEFF", "UBEFF"}:
                    return frozenset({"VAL"})
                if "VAL" in ta or "VAL" in tb:
                    # min/max with a reduction of validated x0 rows
                    other = b if "VAL" in ta else a
                    if isinstance(other, ast.Call) and isinstance(other.func, ast.Attribute) and other.func.attr in ("min", "max"):
                        if "VAL" in self.eval(other.func.value, state, flow):
                            return frozenset({"VAL"})
            if n in ("np.vstack", "np.concatenate") and expr.args and isinstance(expr.args[0], (ast.Tuple, ast.List)):
                acc = None
                for e in expr.args[0].elts:
                    t = self.eval(e, state, flow)
                    acc = t if acc is None else acc & t
                return acc or EMPTY
        return super().eval(expr, state, flow)


def check(ctx):
    prog = ctx.prog
    R = roles_of(prog)
    T = R.transformer

    # ------------------------------------------------------------------ R1
    ctx.rule("R1", "the inverse transform ends in a two-sided clamp to the original hard bounds, which only __init__ writes from copies of its parameters", floor=3)
    clamp_summary(ctx, prog, R.inverse, "self.orig_lb", "self.orig_ub", "inverse transform")
    tinit = T.find_method("__init__")
    tparams = [p for p in tinit.params if p not in ("self", "D")]
    bf = TagFlow(prog, tinit, BoundProv(tparams, prog, tinit))
    for attr, param in (("orig_lb", tparams[0]), ("orig_ub", tparams[1])):
        sts = attr_stores(prog, T, attr)
        if not sts:
            ctx.missing(tinit, f"store of self.{attr}")
        for m, t, v, s, k in sts:
            if m is not tinit or isinstance(t, ast.Subscript) or k != "assign":
                ctx.fail(m, s, f"self.{attr} (the clamp bound of the inverse transform) is modified outside the constructor's initial assignment", construct=f"store to {attr} in {m.short}")
                continue
            tags = bf.tags(v)
            is_copy = isinstance(v, ast.Call) and isinstance(v.func, ast.Attribute) and v.func.attr in ("copy", "astype")
            if tags is not None and f"P:{param}" in tags and is_copy:
                ctx.ok(m, s, f"self.{attr} <- copy of parameter {param}")
            else:
                ctx.fail(m, s, f"self.{attr} is not a copy of the constructor's '{param}' argument", construct=f"self.{attr} <- {canon(v)}")
    # in-place writes through a local alias of the clamp bounds (ubtest = self.orig_ub; ubtest[..] = ..)
    from .c20 import alias_violations

    for m in T.methods.values():
        seeds = {f"self.{a_}": frozenset({f"A:self.{a_}"}) for a_ in ("orig_lb", "orig_ub")}
        viol, _fl = alias_violations(prog, m, seeds)
        for node, al, what, tgt in viol:
            if tgt in ("self.orig_lb", "self.orig_ub"):
                continue  # direct stores are reported above
            ctx.fail(m, node, f"{what} on '{tgt}', which may alias the transformer's stored original bounds {al}: the clamp bounds of the inverse transform are corrupted", construct=f"in-place {what} on alias of {al[0][2:]}")
        if not viol:
            ctx.ok(m, m.node, f"{m.short}: no in-place write through an alias of the original bounds")
    # external writers
    for fn in prog.functions():
        for t, v, s, k in iter_stores(fn.node):
            b = store_base(t)
            if isinstance(b, ast.Attribute) and b.attr in ("orig_lb", "orig_ub") and not (fn.cls is T and isinstance(b.value, ast.Name) and b.value.id == "self"):
                ctx.fail(fn, s, "the transformer's original bounds are modified from outside the transformer", construct=f"external store to {canon(b)}")
    # BADS hands its validated hard bounds to the transformer
    ios = R.init_optim_state
    tcall = R.transformer_ctor_call
    b = bind_args(tinit, tcall)
    okb = canon(b.get(tparams[0])) == "self.lower_bounds" and canon(b.get(tparams[1])) == "self.upper_bounds"
    ctx.check(okb, ios, tcall, "transformer constructed with BADS' validated hard bounds", "the transformer is not constructed with BADS' validated hard bounds", construct=f"VariableTransformer(.., {canon(b.get(tparams[0]))}, {canon(b.get(tparams[1]))})")

    # ------------------------------------------------------------------ R4 (needed by R2/R3)
    fs = FilterSummary(prog, R)
    pa = PointAnalysis(prog, R, fs)
    ctx.rule("R4", "candidate filter: result is boxed to its bound parameters on every path; call sites pass hard or search bounds", floor=5)
    for st in fs.stages:
        if st.kind in ("box-clamp", "box-drop"):
            if st.ok:
                ctx.ok(fs.fn, st.stmt, f"{st.kind} {st.detail}")
            else:
                ctx.fail(fs.fn, st.stmt, f"{st.kind}: {st.why}", construct=f"{st.kind}: {norm_stmt(st.stmt)[:80]}")
        elif st.kind == "other":
            ctx.fail(fs.fn, st.stmt, st.why, construct="filter result recomputed: " + norm_stmt(st.stmt)[:80])
    if "BOX" not in fs.path_tags():
        if not any(x.kind in ("box-clamp", "box-drop", "other") and not x.ok for x in fs.stages):
            ctx.fail(fs.fn, fs.fn.node, "a path through the candidate filter returns rows that never passed a box stage", construct="filter path without box stage")
    else:
        ctx.ok(fs.fn, fs.ret, "every path: box stage, then row selections only")
    for caller, call in R.filter_calls():
        bb = bind_args(fs.fn, call)
        from .common import deref_canon as _dcp1

        pair = (_dcp1(prog, caller, bb.get(fs.p_lo)), _dcp1(prog, caller, bb.get(fs.p_hi))) if bb.get(fs.p_lo) is not None and bb.get(fs.p_hi) is not None else (None, None)
        if pair in HARD_BOUNDS - {("lb", "ub")} or pair in SEARCH_BOUNDS:
            ctx.ok(caller, call, f"filtered against {pair}")
        else:
            ctx.fail(caller, call, f"candidates are filtered against {pair}, which is neither the hard internal box nor the inward-rounded search box", construct=f"filter bounds {pair}")

    # ------------------------------------------------------------------ R2
    ctx.rule("R2", "target, constraint callable and result x only see clamped / validated points", floor=7)
    lc = R.logger_call
    sinks = [c for f, c in R.target_sinks if f is lc]
    if len(R.target_sinks) != 1:
        ctx.note(f"{len(R.target_sinks)} target call sites (C03-R1 decides who-may-call)")
    for f, c in R.target_sinks:
        arg = c.args[0] if c.args else None
        if not isinstance(arg, ast.Name):
            ctx.fail(f, c, "the target is called with an expression that is not the original-space point computed by the inverse transform", construct=f"target({canon(arg)})")
            continue
        xparam = [p for p in f.params if p != "self"][0]
        from .common import deref_expr

        # definitions reaching the call; a local with several definitions that is neither an inverse transform nor the
        # (reshaped) parameter is expanded into its own definitions (if/else assignment to a temporary)
        defs, work, seen_names = [], list(reaching_assignments(prog, f, arg.id, c)), {arg.id}
        while work:
            d = work.pop()
            if isinstance(d, ast.Name) and d.id != xparam and d.id not in seen_names and not _is_reshaped_param(prog, f, d, xparam) \
                    and not any(isinstance(n, ast.Call) and isinstance(n.func, ast.Attribute) and n.func.attr == R.inverse.name for n in ast.walk(deref_expr(prog, f, d))):
                sub = reaching_assignments(prog, f, d.id, d)
                if sub:
                    seen_names.add(d.id)
                    work += sub
                    continue
            defs.append(d)
        for d in defs:
            d_full = deref_expr(prog, f, d)
            inv = [n for n in ast.walk(d_full) if isinstance(n, ast.Call) and isinstance(n.func, ast.Attribute) and n.func.attr == R.inverse.name]
            if inv:
                ctx.ok(f, c, f"target argument {arg.id} = {canon(d)[:60]} (clamped by R1)")
            elif isinstance(d, ast.Name) and (d.id == xparam or _is_reshaped_param(prog, f, d, xparam)):
                # only without a transformer; BADS always provides one
                st = d
                while not isinstance(st, ast.stmt):
                    st = prog.parent(st)
                g = [canon(t, neg=not pol) for t, pol in guard_of(prog, f, st)]
                flagdefs = [v for m, t, v, s, k in attr_stores(prog, R.logger_cls, "transform_variables")]
                flag_ok = any("not self.transform_variables" == x for x in g) and all(canon(v) in ("(variable_transformer is not None)",) for v in flagdefs) and bool(flagdefs)
                tr_arg = R.logger_ctor_bound.get("variable_transformer")
                ctor_ok = tr_arg is not None and canon(tr_arg) in ("VT", f"self.{R.transformer_attr}")
                ctx.check(flag_ok and ctor_ok, f, c, "untransformed branch is taken only without a transformer; BADS always passes its transformer",
                          "the target can receive the internal point unchanged although BADS works in transformed coordinates", construct=f"target argument {arg.id} = {canon(d)} (no inverse transform)")
            else:
                ctx.fail(f, c, "the target's argument has a definition that is not the inverse transform of the internal point", construct=f"target argument {arg.id} = {canon(d)[:60]}")
    # BADS' transformer attribute is only ever a VariableTransformer
    for m, t, v, s, k in attr_stores(prog, R.bads, R.transformer_attr):
        okv = isinstance(v, ast.Call) and isinstance(prog.resolve_name_expr(m.module, v.func), type(T)) and prog.resolve_name_expr(m.module, v.func) is T
        ctx.check(okv, m, s, f"self.{R.transformer_attr} <- VariableTransformer(...)", f"self.{R.transformer_attr} can be something other than a VariableTransformer", construct=f"self.{R.transformer_attr} <- {canon(v)[:50]}")
    # constraint callable call sites
    val = R.bounds_check
    vparams = [p for p in val.params if p != "self"]
    mapping = dict(zip(vparams[:5], ROLES5))
    for t, v, s, k in iter_stores(val.node):
        if isinstance(t, ast.Name) and isinstance(v, ast.BinOp) and t.id not in mapping:
            if isinstance(v.op, ast.Add) and canon(v.left) == vparams[1]:
                mapping.setdefault(t.id, "LBEFF")
            if isinstance(v.op, ast.Sub) and canon(v.left) == vparams[2]:
                mapping.setdefault(t.id, "UBEFF")
    vflow = TagFlow(prog, val, ValPolicy(prog, val, make_rename(mapping), mapping))
    vret = [n for n in ast.walk(val.node) if isinstance(n, ast.Return) and isinstance(n.value, ast.Tuple) and len(n.value.elts) == 5]
    val_ok = {}
    for r in vret:
        for i in (0, 3, 4):
            tg = vflow.tags(r.value.elts[i])
            val_ok[i] = val_ok.get(i, True) and tg is not None and "VAL" in tg
    if not vret:
        ctx.missing(val, "return of (x0, lb, ub, plb, pub) from the validator")
    for i, nm in ((0, "x0"), (3, "plausible lower bound"), (4, "plausible upper bound")):
        ctx.check(val_ok.get(i, False), val, vret[0] if vret else val.node, f"validator returns a {nm} that passed the two-sided raise guard", f"the validator can return a {nm} that has not passed a raising check against the hard bounds on every path",
                  construct=f"validator result[{i}] unvalidated")
    cons_calls = []
    for fn in prog.functions():
        for node in ast.walk(fn.node):
            if isinstance(node, ast.Call) and prog.function_of(node) is fn:
                c = canon(node.func)
                if any(isinstance(a_, ast.Lambda) for a_ in prog.ancestors(node)) and fn is R.bads_init:
                    continue  # inside a stored wrapper of the callable: it runs when self.<cons> is called (judged there; C02-R5 decides the wrapper)
                if c == f"self.{R.cons_attr}" and fn.cls is R.bads or (isinstance(node.func, ast.Name) and node.func.id == R.cons_param and fn in (R.bads_init, val)) or (fn is fs.fn and c == fs.p_cons):
                    cons_calls.append((fn, node))
    init = R.bads_init
    for fn, c in cons_calls:
        arg = c.args[0] if c.args else None
        okc, why = False, ""
        a = arg
        if isinstance(a, ast.Name):
            defs = reaching_assignments(prog, fn, a.id, c)
            if len(defs) == 1:
                a = defs[0]
        if isinstance(a, ast.Call) and isinstance(a.func, ast.Attribute) and a.func.attr == R.inverse.name:
            okc, why = True, "inverse-transform result (clamped by R1)"
        elif fn is val:
            tg = vflow.tags(arg)
            okc, why = tg is not None and "VAL" in tg, "validated plausible bounds"
            # the starting point may still be the all-NaN placeholder of an omitted x0 inside the validator (the comparisons
            # of the raise guards are all false for NaN): it must not reach the callable unless a finiteness test guards the call
            if okc and arg is not None and vparams and any(isinstance(n_, ast.Name) and n_.id == vparams[0] for n_ in ast.walk(arg)):
                gtxt = " ".join(canon(t_, neg=not p_) for t_, p_ in guard_of(prog, fn, c))
                if f"np.isfinite({vparams[0]})" not in gtxt and f"np.isnan({vparams[0]})" not in gtxt:
                    okc, why = False, ""
        elif fn is init and arg is not None:
            # self.x0: validator result[0] or a uniform draw between the validated plausible bounds; the validated
            # plausible bounds themselves (the shape probe of the callable, wherever it is made)
            good = val_ok.get(0, False)
            parts_ = [arg]
            if isinstance(arg, ast.Call) and call_name(arg) in ("np.vstack", "np.concatenate", "np.row_stack") and arg.args and isinstance(arg.args[0], (ast.Tuple, ast.List)):
                parts_ = list(arg.args[0].elts)
            is_x0_ = canon(arg) == "self.x0"
            from .common import pos as _pos

            ran_before = set()
            for call_, tg_ in prog.calls_in(init):
                if _pos(call_) < _pos(c):
                    for t_ in tg_:
                        if isinstance(t_, FunctionInfo) and t_ is not val:
                            ran_before |= {t_} | set(prog.reachable_from(t_))

            def val_origin(m, e, kind="assign", depth=0):
                """index of the validator result component that e is, wherever it was parked in between (a local bound
                by unpacking the validator call, an attribute of self assigned from such a local, a copy of either)"""
                if e is None or depth > 4:
                    return None
                if isinstance(e, ast.Call) and any(x is val for x in prog.resolve_call(m, e)):
                    return int(kind[7:-1]) if kind.startswith("assign[") else None
                if isinstance(e, ast.Call) and isinstance(e.func, ast.Attribute) and e.func.attr == "copy" and not e.args:
                    return val_origin(m, e.func.value, "assign", depth + 1)
                if isinstance(e, ast.Name):
                    ds = [(v_, k_) for t_, v_, s_, k_ in iter_stores(m.node) if isinstance(t_, ast.Name) and t_.id == e.id]
                    if len(ds) == 1:
                        return val_origin(m, ds[0][0], ds[0][1], depth + 1)
                    return None
                a_ = self_attr_of(e)
                if a_ and isinstance(e, ast.Attribute):
                    # stores made by methods that run only after the constraint call (the state initialiser re-bases the
                    # bounds into the transformed space later) do not define the value read here
                    os_ = {val_origin(m2, v2, k2, depth + 1) if m2 is init else None for m2, t2, v2, s2, k2 in attr_stores(prog, R.bads, a_) if m2 is init or m2 in ran_before}
                    return next(iter(os_)) if len(os_) == 1 else None
                return None

            for m, t, v, s, k in (attr_stores(prog, R.bads, "x0") if is_x0_ else []):
                if m is not init:
                    good = False
                if val_origin(m, v, k) == 0:
                    continue
                if isinstance(v, ast.Name):
                    from .common import deref_expr as _dx1

                    v = _dx1(prog, m, v)  # the draw kept in a local first
                if isinstance(v, ast.Call) and call_name(v) == "np.random.uniform":
                    lo, hi = kw(v, "low") or (v.args[0] if v.args else None), kw(v, "high") or (v.args[1] if len(v.args) > 1 else None)
                    good = good and val_origin(m, lo) == 3 and val_origin(m, hi) == 4 and val_ok.get(3, False) and val_ok.get(4, False)
                elif _convex_pair(v) is not None:
                    # a convex combination of the two validated plausible bounds (the centre of the plausible box) lies
                    # between them coordinate by coordinate, hence inside the hard box
                    pa_, pb_ = _convex_pair(v)
                    good = good and {val_origin(m, pa_), val_origin(m, pb_)} == {3, 4} and val_ok.get(3, False) and val_ok.get(4, False)
                else:
                    good = False
            if not is_x0_:
                good = all(val_origin(init, e_) in (3, 4) and val_ok.get(val_origin(init, e_), False) for e_ in parts_)
            okc, why = good, "validated x0 or a uniform draw between validated plausible bounds"
        ctx.check(okc, fn, c, f"constraint callable sees {why}", "the user's constraint callable can be called at a point that is not known to lie inside the hard bounds", construct=f"{canon(c.func)}({canon(arg)[:60]})")
    # result x
    opt = R.optimize
    xs = [(m, t, v, s, k) for m, t, v, s, k in attr_stores(prog, R.bads, "x")]
    if not xs:
        ctx.missing(opt, "store of the returned solution self.x")
    for m, t, v, s, k in xs:
        okx = isinstance(v, ast.Call) and isinstance(v.func, ast.Attribute) and v.func.attr == R.inverse.name and v.args and canon(v.args[0]) in POINT_SLOTS
        ctx.check(okx, m, s, "self.x = inverse_transf(incumbent slot)", "the returned solution is not the inverse transform of the incumbent slot", construct=f"self.x <- {canon(v)[:60]}")

    # ------------------------------------------------------------------ R3
    ctx.rule("R3", "point slots and logger arguments only receive boxed values (inductive invariant)", floor=14)
    for f in R.evaluating_functions():
        fl = pa.flow(f)
        for call in R.logger_calls(f):
            arg = call.args[0] if call.args else None
            tags = fl.tags(arg) if arg is not None else None
            if tags is None:
                continue
            ctx.check("BOX" in tags, f, call, f"logger({canon(arg)}) BOX", f"the point handed to the logger ({canon(arg)}) has not passed the box filter / is not a boxed slot on every path", construct=f"logger argument {canon(arg)} not boxed")
    for m in R.bads.methods.values():
        fl = None
        for t, v, s, k in iter_stores(m.node):
            c = canon(t)
            if c not in POINT_SLOTS or isinstance(t, ast.Subscript) and state_key(t) is None:
                continue
            fl = fl or pa.flow(m)
            tags = fl.tags(v) if v is not None else None
            if tags is None:
                continue
            if "BOX" in tags:
                ctx.ok(m, s, f"{c} <- {canon(v)[:50]} [BOX]")
            elif _validated_after(prog, m, s, v):
                ctx.ok(m, s, f"{c} <- {canon(v)[:50]} [two-sided bounds re-check post-dominates]")
            else:
                ctx.fail(m, s, f"point slot {c} receives a value that is not boxed on every path (not a slot, log/history row, filtered row, nor re-checked against the hard bounds)", construct=f"{c} <- {canon(v)[:60]}")
        for node in ast.walk(m.node):
            if isinstance(node, ast.Call) and isinstance(node.func, ast.Attribute) and node.func.attr == "record" and canon(node.func.value) == "HIST" and len(node.args) == 3:
                if isinstance(node.args[0], ast.Constant) and node.args[0].value == "u":
                    fl = fl or pa.flow(m)
                    tags = fl.tags(node.args[1])
                    if tags is not None:
                        ctx.check("BOX" in tags, m, node, "history 'u' records a boxed slot", "history 'u' records a value that is not a boxed point", construct=f"record u <- {canon(node.args[1])}")
    # hard internal bounds are the transformer's
    for attr, src in (("lower_bounds", "lb"), ("upper_bounds", "ub")):
        for m, t, v, s, k in attr_stores(prog, R.bads, attr):
            if m is R.bads_init:
                continue
            okh = canon(v) in (f"VT.{src}.copy()", f"VT.{src}")
            ctx.check(okh, m, s, f"self.{attr} <- transformer's internal {src}", f"BADS' internal hard bound self.{attr} is not the transformer's internal bound", construct=f"self.{attr} <- {canon(v)[:50]}")

    # ------------------------------------------------------------------ R5
    ctx.rule("R5", "every value stored as a search bound is a hard bound rounded to the search grid and corrected inward", floor=4)
    from .common import key_stores

    HARD = {"lb_search": ({"self.lower_bounds", "OS[lb]"}, ("<", "+"), "lower"), "ub_search": ({"self.upper_bounds", "OS[ub]"}, (">", "-"), "upper")}
    impls = set()
    for key, (hard, want, role) in HARD.items():
        stores = list(key_stores(prog, "OS", key))
        if not stores:
            ctx.missing(R.init_optim_state, f"store of optim_state['{key}']")
        for fn, t, v, st, k in stores:
            # producer of the stored value: a local of fn, or the i-th element a package function returns
            prod_fn, prod_name, argmap = fn, None, {}
            if isinstance(v, ast.Name):
                prod_name = v.id
            elif isinstance(v, ast.Call):
                tg = [x for x in prog.resolve_call(fn, v) if isinstance(x, FunctionInfo)]
                if len(tg) == 1:
                    prod_fn = tg[0]
                    argmap = {p: a_ for p, a_ in bind_args(prod_fn, v).items()}
                    rets = [n for n in ast.walk(prod_fn.node) if isinstance(n, ast.Return) and n.value is not None]
                    idx = int(k[7:-1]) if k.startswith("assign[") else None
                    for r_ in rets:
                        e = r_.value.elts[idx] if idx is not None and isinstance(r_.value, ast.Tuple) and idx < len(r_.value.elts) else (r_.value if idx is None else None)
                        if isinstance(e, ast.Name):
                            prod_name = e.id
            sites = [x for x in _inward_sites(prog, prod_fn) if x[0] == prod_name] if prod_name else []
            if not sites:
                ctx.fail(fn, st, f"optim_state['{key}'] is written from something that is not an inward-rounded hard bound", construct=f"OS[{key}] <- {canon(v)[:50]}")
                continue
            impls.add(prod_fn.short)
            for var, b, tt, rel, sign, stmt, grid_t in sites:
                # the bound the mask compares with: through locals of the producer and through its parameters
                cands = {canon(b)} | ({canon(d) for d in reaching_assignments(prog, prod_fn, b.id, stmt)} if isinstance(b, ast.Name) else set())
                if isinstance(b, ast.Name) and b.id in argmap:
                    a_ = argmap[b.id]
                    cands |= {canon(a_)} | ({canon(d) for d in reaching_assignments(prog, fn, a_.id, st)} if isinstance(a_, ast.Name) else set())
                okb = bool(cands & hard)
                tdefs = {canon(tt)} | ({canon(x) for x in reaching_assignments(prog, prod_fn, tt.id, stmt)} if isinstance(tt, ast.Name) else set())
                gdefs = {grid_t} | ({canon(x) for x in reaching_assignments(prog, prod_fn, grid_t, stmt)} if grid_t and grid_t.isidentifier() else set())
                same_t = grid_t is None or bool(tdefs & gdefs)
                if not okb:
                    ctx.fail(prod_fn, stmt, f"the {role} search bound is corrected against '{canon(b)}' (= {sorted(cands)[:3]}), which is not the hard {role} bound", construct=f"{role} search bound compared with {canon(b)[:40]}")
                elif (rel, sign) == want and same_t:
                    ctx.ok(prod_fn, stmt, f"{role} search bound: v[v {rel} bound] {sign}= mesh")
                else:
                    ctx.fail(prod_fn, stmt, f"{role} search bound is not rounded inward: mask 'v {rel} bound' with correction '{sign} mesh' (expected {want}); candidates projected onto it can leave the hard box",
                             construct=f"{role} search bound rounding ({rel},{sign})")
    ctx.extra["search_bound_implementations"] = sorted(impls)

    from .common import helper_purity

    helper_purity(ctx, prog, "R6")
    ctx.assume("NaN coordinates are excluded by the finite-bounds validation (min/max propagate NaN)")
    ctx.assume("effective bounds lb + c*range / ub - c*range (c > 0 literal) lie inside the hard bounds; rounding to the grid moves a value by at most half a cell")
    ctx.assume("numpy minimum/maximum/clip and boolean row selection semantics")


def _is_reshaped_param(prog, fn, name_node, param) -> bool:
    """``name_node`` holds the parameter itself, passed through copies / reshapes only (provenance dataflow)."""
    from ..flow import TagFlow
    from .c12 import ProvPolicy

    fl = TagFlow(prog, fn, ProvPolicy([param]))
    tg = fl.tags(name_node)
    return tg is not None and f"P:{param}" in tg


def _validated_after(prog, fn, store_stmt, value) -> bool:
    """the stored value's root name is re-checked by a raising two-sided
    out-of-box test that post-dominates the store."""
    names = [n.id for n in ast.walk(value) if isinstance(n, ast.Name) and n.id != "self"]
    if not names:
        return False
    root = names[0]
    cfg = cfg_of(fn)
    sn = cfg.node_of(store_stmt)
    for node in ast.walk(fn.node):
        if isinstance(node, ast.If) and node.body and isinstance(node.body[-1], ast.Raise):
            from .common import deref_expr as _dxv

            # the bounds may be read through locals bound once to the attributes (lb = self.lower_bounds)
            class _B(ast.NodeTransformer):
                def visit_Name(self, n_):
                    if n_.id != root and isinstance(n_.ctx, ast.Load):
                        d_ = _dxv(prog, fn, n_)
                        if canon(d_) in ("self.upper_bounds", "self.lower_bounds"):
                            return d_
                    return n_

            import copy as _cp

            f = Normaliser(None, None).quant(_B().visit(_cp.deepcopy(node.test)), True)
            ds = {show(d) for d in top_disjuncts(f)}
            if f"ANY[self.upper_bounds < {root}]" in ds and f"ANY[{root} < self.lower_bounds]" in ds:
                tn = cfg.head_of(node)
                if cfg.postdominates(tn.id, sn.id) or cfg.dominates(tn.id, sn.id):
                    # no modification of root between store and check
                    return True
    return False


def _inward_sites(prog, fn):
    """[(var, bound, mesh, rel, sign, stmt, grid mesh canon)] for
    ``v[v < b] = v[v < b] + t`` patterns."""
    out = []
    for t, v, s, k in iter_stores(fn.node):
        if not (isinstance(t, ast.Subscript) and isinstance(t.value, ast.Name)):
            continue
        cmp_ = t.slice
        if isinstance(cmp_, ast.Name):
            # mask kept in a local: ``below = v < b; v[below] = v[below] + t``
            md = reaching_assignments(prog, fn, cmp_.id, s)
            if len(md) == 1 and isinstance(md[0], ast.Compare):
                cmp_ = md[0]
        if not (isinstance(cmp_, ast.Compare) and len(cmp_.ops) == 1):
            continue
        var = t.value.id
        l, r = cmp_.left, cmp_.comparators[0]
        op = type(cmp_.ops[0])
        if canon(l) != var:
            if canon(r) == var:
                l, r = r, l
                op = {ast.Lt: ast.Gt, ast.Gt: ast.Lt, ast.LtE: ast.GtE, ast.GtE: ast.LtE}.get(op, op)
            else:
                continue
        rel = {ast.Lt: "<", ast.Gt: ">", ast.LtE: "<=", ast.GtE: ">="}.get(op)
        if rel is None or not isinstance(v, ast.BinOp) or not isinstance(v.op, (ast.Add, ast.Sub)):
            continue
        if not (isinstance(v.left, ast.Subscript) and canon(v.left) == canon(t)):
            continue
        sign = "+" if isinstance(v.op, ast.Add) else "-"
        # grid mesh used to create var
        grid_t = None
        for d in reaching_assignments(prog, fn, var, s):
            if isinstance(d, ast.Call) and len(d.args) >= 2 and any(isinstance(x, FunctionInfo) and x.name == "force_to_grid" for x in prog.resolve_call(fn, d)):
                # force_to_grid(x, mesh, tol=None): the grid is tol when given, else mesh
                g3 = d.args[2] if len(d.args) >= 3 else kw(d, "tol")
                grid_t = canon(g3) if g3 is not None and not (isinstance(g3, ast.Constant) and g3.value is None) else canon(d.args[1])
        out.append((var, r, v.right, rel, sign, s, grid_t))
    # the same correction as a selection: v = np.where(v < b, v + t, v)
    for t, v, s, k in iter_stores(fn.node):
        if not (isinstance(t, ast.Name) and isinstance(v, ast.Call) and call_name(v) == "np.where" and len(v.args) == 3 and not v.keywords):
            continue
        cmp_, yes, no = v.args
        var = t.id
        if isinstance(cmp_, ast.Name):
            md = reaching_assignments(prog, fn, cmp_.id, s)
            if len(md) == 1 and isinstance(md[0], ast.Compare):
                cmp_ = md[0]
        if not (isinstance(cmp_, ast.Compare) and len(cmp_.ops) == 1 and canon(no) == var and isinstance(yes, ast.BinOp) and isinstance(yes.op, (ast.Add, ast.Sub)) and canon(yes.left) == var):
            continue
        l, r = cmp_.left, cmp_.comparators[0]
        op = type(cmp_.ops[0])
        if canon(l) != var:
            if canon(r) == var:
                l, r = r, l
                op = {ast.Lt: ast.Gt, ast.Gt: ast.Lt, ast.LtE: ast.GtE, ast.GtE: ast.LtE}.get(op, op)
            else:
                continue
        rel = {ast.Lt: "<", ast.Gt: ">", ast.LtE: "<=", ast.GtE: ">="}.get(op)
        if rel is None:
            continue
        sign = "+" if isinstance(yes.op, ast.Add) else "-"
        grid_t = None
        # the definition of var that the selection reads (the one reaching the np.where statement's operands)
        for d in reaching_assignments(prog, fn, var, v):
            if isinstance(d, ast.Call) and len(d.args) >= 2 and any(isinstance(x, FunctionInfo) and x.name == "force_to_grid" for x in prog.resolve_call(fn, d)):
                g3 = d.args[2] if len(d.args) >= 3 else kw(d, "tol")
                grid_t = canon(g3) if g3 is not None and not (isinstance(g3, ast.Constant) and g3.value is None) else canon(d.args[1])
        out.append((var, r, yes.right, rel, sign, s, grid_t))
    return out
