"""C16 -- numerical failure of a GP hyperparameter fit never aborts the run."""
from __future__ import annotations

import ast
from typing import List, Optional

from ..cfg import cfg_of
from ..model import FunctionInfo, bind_args
from ..roles import roles_of
from ..terms import call_name, canon, const_num, dotted
from .c15 import is_gp_expr
from .common import iter_stores, kw, pos, reaching_assignments

EXPLANATION = (
    "R1: every <gp>.fit(...) call site is lexically inside a try whose handler catches LinAlgError (or wider), has no raise "
    "and cannot leave the function without going round an enclosing retry loop that is unbounded (while on a flag) or admits >= 5 "
    "attempts (literal range bound). R2: inside the retry, whenever the training inputs/targets handed to fit are re-bound through "
    "a row mask, the noise vector handed to the same fit is re-bound through the same mask (parallel-array consistency). R3: the "
    "posterior update after a refit sits under a LinAlgError handler that restores the previous hyperparameters. R4 sibling fit calls agree on the shape of the fallback start. R5 the stored vector fit() falls back to when its s2 argument is None is thinned with X and Y, unless every caller passes <gp>.s2 of the surrogate the receiver is copied from. Decides the "
    "exception-handling structureDecides the "
    "exception-handling structure on all paths; whether the retried fit eventually succeeds is numeric and not decided."
    " R6 operands of the thinning mask are computed from the current arrays. R7 a function that re-binds a surrogate's X or y re-binds the s2 of the same object."
)

BROAD = {"Exception", "BaseException"}


def handler_catches_linalg(h: ast.ExceptHandler) -> bool:
    if h.type is None:
        return True
    types = h.type.elts if isinstance(h.type, ast.Tuple) else [h.type]
    for t in types:
        d = dotted(t) or ""
        if d.split(".")[-1] in ("LinAlgError",) or d in BROAD:
            return True
    return False


def fit_calls(prog, fn: FunctionInfo) -> List[ast.Call]:
    out = []
    for node in ast.walk(fn.node):
        if isinstance(node, ast.Call) and isinstance(node.func, ast.Attribute) and node.func.attr == "fit" and is_gp_expr(prog, fn, node.func.value):
            if prog.function_of(node) is fn:
                out.append(node)
    return out


def enclosing(prog, node, kinds, stop):
    for p in prog.ancestors(node):
        if p is stop:
            return None
        if isinstance(p, kinds):
            return p
    return None


def in_body(prog, node, tr: ast.Try) -> bool:
    cur = node
    for p in prog.ancestors(node):
        if p is tr:
            return any(cur is s for s in tr.body)
        cur = p
    return False


def _noise_rebind_bypass(prog, fn, x_rebind_stmt, s_rebind_stmts, fit_call, sname):
    """a CFG path from the X re-binding to the next fit that avoids every re-binding of
    the noise vector, not counting the fall-through of tests that only ask whether the
    noise vector is None / scalar."""
    cfg = cfg_of(fn)
    start = cfg.node_of(x_rebind_stmt).id
    goal = cfg.node_of(fit_call).id
    avoid = {cfg.node_of(s_).id for s_ in s_rebind_stmts}
    benign = set()
    # a flag that asks once whether the noise vector is None / scalar (has_s2 = s2 is not None and not np.isscalar(s2)) stays
    # true while the vector is only ever re-bound to a row selection of itself
    flag_defs = {}
    for t_, v_, s_, k_ in iter_stores(fn.node):
        if isinstance(t_, ast.Name) and k_ == "assign" and v_ is not None:
            flag_defs.setdefault(t_.id, []).append(v_)
    only_row_filters = all(isinstance(v_, ast.Subscript) and isinstance(v_.value, ast.Name) and v_.value.id == sname for s_ in s_rebind_stmts for v_ in [getattr(s_, "value", None)])
    for n in cfg.nodes:
        if n.kind == "test":
            e_ = n.expr
            if isinstance(e_, ast.Name) and len(flag_defs.get(e_.id, [])) == 1 and only_row_filters:
                e_ = flag_defs[e_.id][0]
            names = {x.id for x in ast.walk(e_) if isinstance(x, ast.Name)} - {"np", "numpy"}
            if names == {sname}:
                benign.add(n.id)
    # the noise vector may be filtered *before* X and Y in the same episode: its (None / scalar guarded) filter dominates the
    # X re-binding and no fit lies between the two
    for s_ in s_rebind_stmts:
        g_ = s_
        for p_ in prog.ancestors(s_):
            if isinstance(p_, ast.If) and cfg.node_of(p_.test) is not None and cfg.node_of(p_.test).id in benign:
                g_ = p_
            if p_ is fn.node:
                break
        hd = cfg.head_of(g_) if isinstance(g_, ast.If) else cfg.node_of(g_)
        sn = cfg.node_of(s_)
        if hd is not None and sn is not None and hd.id != start and cfg.dominates(hd.id, start) and goal not in cfg.reachable(sn.id, avoiding={start}):
            return None
    prev = {start: None}
    queue = [start]
    while queue:
        x = queue.pop(0)
        if x == goal and x != start:
            path = []
            while x is not None:
                path.append(x)
                x = prev[x]
            return (cfg.nodes[path[0]].stmt, cfg.describe_path(path[::-1]))
        for y in cfg.g.successors(x):
            if y in avoid or y in prev:
                continue
            labels = cfg.g[x][y]["labels"]
            if x in benign and labels == {"F"}:
                continue
            prev[y] = x
            queue.append(y)
    return None


def retry_consistency(ctx, prog, fit_fns, rule_id="R2"):
    ctx.rule(rule_id, "inside the retry, X, Y and the noise vector handed to the next fit are filtered through the same mask", floor=1)
    n_r2 = 0
    for fn in fit_fns:
        for c in fit_calls(prog, fn):
            args = list(c.args[:3])
            if len(args) < 3:
                s2 = kw(c, "s2")
                args = list(c.args[:2]) + [s2]
            if len(args) < 3 or any(a is None for a in args):
                continue
            names = [a.id if isinstance(a, ast.Name) else None for a in args]
            if names[0] is None or names[1] is None:
                continue
            loop = enclosing(prog, c, (ast.While, ast.For), fn.node)
            if loop is None:
                continue
            rebinds = {}  # name -> list of (mask canon, stmt)
            for t, v, s, k in iter_stores(loop):
                if isinstance(t, ast.Name) and t.id in names and isinstance(v, ast.Subscript) and isinstance(v.value, ast.Name) and v.value.id == t.id:
                    rebinds.setdefault(t.id, []).append((canon(v.slice), s))
            if names[0] in rebinds or names[1] in rebinds:
                n_r2 += 1
                mx = {m for m, _ in rebinds.get(names[0], [])}
                my = {m for m, _ in rebinds.get(names[1], [])}
                stmt = (rebinds.get(names[0]) or rebinds.get(names[1]))[0][1]
                if mx != my:
                    ctx.fail(fn, stmt, f"training inputs and targets are filtered through different masks ({sorted(mx)} vs {sorted(my)})", construct="X/Y mask mismatch in retry")
                    continue
                if names[2] is None:
                    if isinstance(args[2], ast.Constant) and args[2].value is None:
                        ctx.ok(fn, stmt, "no noise vector is passed to this fit")
                    else:
                        ctx.fail(fn, c, f"noise argument {canon(args[2])} of the retried fit is not a local that is filtered with X and Y", construct=f"s2 argument {canon(args[2])}")
                    continue
                ms = {m for m, _ in rebinds.get(names[2], [])}
                bypass = None
                if ms == mx:
                    bypass = _noise_rebind_bypass(prog, fn, rebinds[names[0]][0][1], [s_ for _m, s_ in rebinds[names[2]]], c, names[2])
                if ms == mx and bypass:
                    ctx.fail(fn, bypass[0], f"rows are dropped from {names[0]} and {names[1]} in the retry, but on a path to the next fit the noise vector '{names[2]}' is not filtered (the filtering statement is skipped for a reason other than '{names[2]}' being None/scalar): the next attempt aborts with a shape error",
                             construct=f"retry: {names[2]} filter bypassed on a path", witness=bypass[1])
                elif ms == mx:
                    ctx.ok(fn, stmt, f"{names[0]}, {names[1]}, {names[2]} all re-bound through {sorted(mx)}")
                else:
                    ctx.fail(
                        fn,
                        stmt,
                        f"rows are dropped from {names[0]} and {names[1]} in the retry but the noise vector '{names[2]}' handed to the next fit keeps its old length: a second consecutive failure aborts with a shape error",
                        construct=f"retry filters {names[0]},{names[1]} by {sorted(mx)} but {names[2]} by {sorted(ms)}",
                    )
    if n_r2 == 0:
        ctx.note("no retry loop re-binds its training arrays (nothing to keep consistent)")
        ctx.rules[rule_id].floor = 0


def training_triple_complete(ctx, prog, rule_id="R7"):
    """The surrogate's training data is a triple (X, y, s2) of equal length; gpyreg's update()/fit() combine them
    element-wise.  A function that re-binds X or y of a GP object must re-bind s2 of the same object as well (under a
    'noise vector present' guard at most), otherwise the next posterior update fails with a shape error in the noisy modes."""
    ctx.rule(rule_id, "a function that re-binds a surrogate's X or y also re-binds the s2 of the same object", floor=2)
    n = 0
    for fn in prog.functions():
        recv = {}
        for t, v, st, k in iter_stores(fn.node):
            if isinstance(t, ast.Attribute) and t.attr in ("X", "y", "s2") and isinstance(t.value, ast.Name) and is_gp_expr(prog, fn, t.value):
                recv.setdefault(t.value.id, {}).setdefault(t.attr, st)
        for r, d in sorted(recv.items()):
            if "X" in d or "y" in d:
                n += 1
                ctx.check("s2" in d, fn, d.get("X") or d.get("y"), f"{r}.X / {r}.y and {r}.s2 re-bound in {fn.short}", f"{fn.short}() re-binds {r}.{'X' if 'X' in d else 'y'} but never {r}.s2: with a noise vector present the surrogate's training arrays then have different lengths and the caller's posterior update raises instead of completing", construct=f"{r}.X/y re-bound without {r}.s2")
    if n == 0:
        ctx.rules[rule_id].floor = 0


def retry_mask_freshness(ctx, prog, fit_fns, rule_id="R6"):
    """Inside a retry loop that thins X and Y, every array combined into the thinning mask must have the *current* length:
    it is computed inside the loop (after the previous thinning) or thinned itself.  A mask operand computed once before
    the loop from the training targets has the old length on the second thinning -> shape error instead of a recovery."""
    ctx.rule(rule_id, "operands of the thinning mask are computed from the current (already thinned) training arrays", floor=1)
    n = 0
    for fn in fit_fns:
        for c in fit_calls(prog, fn):
            loop = enclosing(prog, c, (ast.While, ast.For), fn.node)
            if loop is None or len(c.args) < 2 or not all(isinstance(a, ast.Name) for a in c.args[:2]):
                continue
            xn, yn = c.args[0].id, c.args[1].id
            rebinds = [(v, st) for t, v, st, k in iter_stores(loop) if isinstance(t, ast.Name) and t.id in (xn, yn) and isinstance(v, ast.Subscript) and isinstance(v.value, ast.Name)]
            if not rebinds:
                continue
            n += 1
            in_loop_defs = {}
            accumulates = set()
            for t, v, st, k in iter_stores(loop):
                if isinstance(t, ast.Name):
                    in_loop_defs.setdefault(t.id, []).append(v)
                    if k == "aug" or (v is not None and any(isinstance(x, ast.Name) and x.id == t.id for x in ast.walk(v)) and not (isinstance(v, ast.Subscript) and isinstance(v.value, ast.Name) and v.value.id == t.id)):
                        accumulates.add(t.id)
                elif isinstance(t, ast.Subscript) and isinstance(t.value, ast.Name):
                    in_loop_defs.setdefault(t.value.id, [])
            outer_defs = {}
            for t, v, st, k in iter_stores(fn.node):
                if isinstance(t, ast.Name) and not any(st is x for x in ast.walk(loop)):
                    outer_defs.setdefault(t.id, []).append(v)
            # closure of the names that flow into the mask, through definitions inside the loop
            seen, work, stale = set(), [x.id for v, _ in rebinds for x in ast.walk(v.slice) if isinstance(x, ast.Name)], []
            while work:
                nm = work.pop()
                if nm in seen or nm in (xn, yn):
                    continue
                seen.add(nm)
                if nm in in_loop_defs:
                    for d in in_loop_defs[nm]:
                        if d is not None:
                            work += [x.id for x in ast.walk(d) if isinstance(x, ast.Name)]
                if nm in outer_defs and (nm not in in_loop_defs or nm in accumulates):
                    # defined only before the loop: stale if it is an array derived from the training arrays
                    srcs = {x.id for d in outer_defs[nm] if d is not None for x in ast.walk(d) if isinstance(x, ast.Name)}
                    arrayish = any(d is not None and not (isinstance(d, ast.Constant) or (isinstance(d, ast.Call) and call_name(d) in ("len", "int", "float", "np.size"))) for d in outer_defs[nm])
                    if arrayish and srcs & {xn, yn}:
                        stale.append(nm)
            # a local that is a plain snapshot of a slot the loop re-binds (``gp_s2 = tmp_gp.s2`` before the loop,
            # ``tmp_gp.s2 = gp_s2[keep]`` inside): after the first thinning the snapshot still has the old rows
            slot_stores = {canon(t): st for t, v, st, k in iter_stores(loop) if isinstance(t, ast.Attribute)}
            for nm, ds in outer_defs.items():
                if nm in in_loop_defs or len(ds) != 1 or not isinstance(ds[0], ast.Attribute) or canon(ds[0]) not in slot_stores:
                    continue
                reads = [x for x in ast.walk(loop) if isinstance(x, ast.Name) and x.id == nm and isinstance(x.ctx, ast.Load)]
                if reads:
                    ctx.fail(fn, slot_stores[canon(ds[0])], f"'{nm}' is a snapshot of {canon(ds[0])} taken before the retry loop, but the loop re-binds {canon(ds[0])} (rows are dropped) and keeps reading the snapshot: "
                             "from the second thinning on the snapshot has the old number of rows (shape error instead of a recovery)", construct=f"stale snapshot {nm} of {canon(ds[0])} in retry loop")
            if stale:
                ctx.fail(fn, rebinds[0][1], f"the thinning mask combines {stale}, computed once before the retry loop from the training arrays, with arrays of the current length: after the first thinning the lengths differ and the next removal fails with a shape error instead of recovering", construct=f"stale mask operand {stale[0]} in retry")
            else:
                ctx.ok(fn, rebinds[0][1], "mask operands are computed inside the loop from the current arrays")
    if n == 0:
        ctx.rules[rule_id].floor = 0


def stored_noise_consistency(ctx, prog, fit_fns, rule_id="R5"):
    """gpyreg's fit keeps the receiver's stored noise vector when its s2 argument is None (``if s2 is not None: self.s2 =
    s2``).  When a retry drops rows from X and Y, the receiver's stored vector must be thinned with the same mask - unless
    the s2 argument is None exactly when the stored vector is (every caller passes ``<gp>.s2`` of the very surrogate the
    receiver is copied from)."""
    ctx.rule(rule_id, "after rows are dropped in a retry, the noise vector the next fit falls back to (receiver.s2) has the same rows", floor=1)
    n = 0
    for fn in fit_fns:
        for c in fit_calls(prog, fn):
            loop = enclosing(prog, c, (ast.While, ast.For), fn.node)
            if loop is None or len(c.args) < 2 or not all(isinstance(a, ast.Name) for a in c.args[:2]):
                continue
            xn = c.args[0].id
            masks = [(canon(v.slice), st) for t, v, st, k in iter_stores(loop) if isinstance(t, ast.Name) and t.id == xn and isinstance(v, ast.Subscript) and isinstance(v.value, ast.Name) and v.value.id == xn]
            if not masks:
                continue
            n += 1
            recv = canon(c.func.value)
            stored = [(canon(v.slice), st) for t, v, st, k in iter_stores(loop) if canon(t) == f"{recv}.s2" and isinstance(v, ast.Subscript) and canon(v.value) == f"{recv}.s2"]
            if stored and {m for m, _ in stored} == {m for m, _ in masks}:
                ctx.ok(fn, stored[0][1], f"{recv}.s2 thinned with the mask of {xn}")
                continue
            # (b) the s2 argument is None iff the stored vector is None
            s2a = c.args[2] if len(c.args) > 2 else kw(c, "s2")
            okb = False
            why = "the s2 argument of the retried fit is not a local derived from a parameter"
            if isinstance(s2a, ast.Name):
                def src_params(name, depth=0):
                    out = set()
                    for t, v, st, k in iter_stores(fn.node):
                        if isinstance(t, ast.Name) and t.id == name and v is not None and not (isinstance(v, ast.Subscript) and canon(v.value) == name):
                            for x in ast.walk(v):
                                if isinstance(x, ast.Name) and x.id != name:
                                    if x.id in fn.params:
                                        out.add(x.id)
                                    elif depth < 2 and x.id not in ("np",):
                                        out |= src_params(x.id, depth + 1)
                    return out
                sp_ = src_params(s2a.id) if s2a.id not in fn.params else {s2a.id}
                rp = src_params(recv) if recv not in fn.params else {recv}
                sites = prog.callers_of(fn)
                if len(sp_) == 1 and len(rp) == 1 and sites:
                    okb, why = True, ""
                    for caller, call in sites:
                        b = bind_args(fn, call)
                        a_s, a_r = b.get(next(iter(sp_))), b.get(next(iter(rp)))
                        if a_s is None or a_r is None or canon(a_s) != canon(a_r) + ".s2":
                            okb = False
                            why = f"{caller.short}() passes '{canon(a_s) if a_s is not None else '?'}' as noise while the fitted surrogate is a copy of '{canon(a_r) if a_r is not None else '?'}'"
                elif not sites:
                    why = "no call site"
            if okb:
                ctx.ok(fn, masks[0][1], f"every caller passes <gp>.s2 of the copied surrogate: the argument is None only when {recv}.s2 is None")
            else:
                ctx.fail(fn, masks[0][1], f"rows are dropped from {xn} in the retry but {recv}.s2 is not thinned; fit() falls back to the stored vector when its s2 argument is None ({why}): the next attempt fails with a shape error instead of recovering", construct=f"{recv}.s2 not thinned in retry")
    if n == 0:
        ctx.rules[rule_id].floor = 0



def check(ctx):
    prog = ctx.prog
    R = roles_of(prog)

    ctx.rule("R1", "every GP.fit call is retried under a non-re-raising LinAlgError handler (>= 5 attempts or unbounded)", floor=4)
    fit_fns = []
    for fn in prog.functions():
        calls = fit_calls(prog, fn)
        if not calls:
            continue
        fit_fns.append(fn)
        cfg = cfg_of(fn)
        for c in calls:
            # innermost try whose *body* contains the call
            tr = None
            for p in prog.ancestors(c):
                if p is fn.node:
                    break
                if isinstance(p, ast.Try) and in_body(prog, c, p):
                    tr = p
                    break
            if tr is None:
                ctx.fail(fn, c, "GP hyperparameter fit is not inside any try block: a LinAlgError aborts the optimisation", construct=f"unprotected {canon(c.func)}")
                continue
            hs = [h for h in tr.handlers if handler_catches_linalg(h)]
            if not hs:
                ctx.fail(fn, c, "the try around the GP fit has no handler for numpy.linalg.LinAlgError", construct=f"handlers {[canon(h.type) for h in tr.handlers]}")
                continue
            h = hs[0]
            raises = [n for n in ast.walk(h) if isinstance(n, ast.Raise)]
            if raises:
                ctx.fail(fn, raises[0], "the LinAlgError handler around the GP fit re-raises", construct="raise in fit handler")
                continue
            loop = enclosing(prog, tr, (ast.While, ast.For), fn.node)
            if loop is None:
                ctx.fail(fn, c, "the protected GP fit is not inside a retry loop: one failure leaves the GP unfitted", construct="fit handler without retry loop")
                continue
            hdr = cfg.head_of(loop)
            hn = cfg.head_of(h)
            escapes = cfg.can_reach(hn.id, cfg.exit.id, avoiding={hdr.id}) or cfg.can_reach(hn.id, cfg.raise_exit.id, avoiding={hdr.id})
            if escapes:
                p = cfg.find_path(hn.id, cfg.exit.id, avoiding={hdr.id}) or cfg.find_path(hn.id, cfg.raise_exit.id, avoiding={hdr.id})
                ctx.fail(fn, h, "after a failed fit the handler can leave the function without another attempt", construct="fit handler escapes retry loop", witness=cfg.describe_path(p or []))
                continue
            # bound of the retry loop
            if isinstance(loop, ast.While):
                bound = "unbounded (while)"
                okb = True
            else:
                okb, bound = False, canon(loop.iter)
                if call_name(loop.iter) in ("itertools.count", "count") and len(loop.iter.args) <= 2:
                    okb, bound = True, "unbounded (itertools.count)"
                if call_name(loop.iter) == "range" and loop.iter.args:
                    hi = loop.iter.args[-1] if len(loop.iter.args) <= 2 else loop.iter.args[1]
                    n = const_num(hi)
                    if n is None and isinstance(hi, ast.Name):
                        defs = reaching_assignments(prog, fn, hi.id, loop)
                        vals = [const_num(d) for d in defs]
                        if vals and all(v is not None for v in vals):
                            n = min(vals)
                    lo = const_num(loop.iter.args[0]) if len(loop.iter.args) >= 2 else 0
                    if n is not None and lo is not None:
                        okb = (n - lo) >= 5
                        bound = f"{int(n - lo)} attempts"
            if okb:
                ctx.ok(fn, c, f"{canon(c.func)} retried under except {canon(h.type)} [{bound}]")
            else:
                ctx.fail(fn, loop, f"retry loop admits fewer than five attempts ({bound}): a run of 2-4 consecutive failures exhausts it", construct=f"retry bound {bound}")

    retry_consistency(ctx, prog, fit_fns)
    stored_noise_consistency(ctx, prog, fit_fns)
    retry_mask_freshness(ctx, prog, fit_fns)
    training_triple_complete(ctx, prog)

    ctx.rule("R3", "posterior update after a refit falls back to the previous hyperparameters on LinAlgError", floor=1)
    reach_fit = set()
    for fn in prog.functions():
        if any(f in fit_fns for f in prog.reachable_from(fn)):
            reach_fit.add(fn)
    # helpers that the fitting routines call (the roll-back may be factored out of the routine that refits)
    scope_fit = set(reach_fit)
    for fn in list(reach_fit):
        if any(fn.module is f_.module for f_ in fit_fns):
            for g_ in prog.reachable_from(fn):
                if g_.module is fn.module:
                    scope_fit.add(g_)
    for fn in scope_fit:
        for node in ast.walk(fn.node):
            if isinstance(node, ast.Call) and isinstance(node.func, ast.Attribute) and node.func.attr == "update" and is_gp_expr(prog, fn, node.func.value) and prog.function_of(node) is fn:
                tr = None
                for p in prog.ancestors(node):
                    if p is fn.node:
                        break
                    if isinstance(p, ast.Try) and in_body(prog, node, p):
                        tr = p
                        break
                hs = [h for h in tr.handlers if handler_catches_linalg(h)] if tr is not None else []
                if not hs:
                    ctx.fail(fn, node, "posterior update after a hyperparameter refit is not protected against LinAlgError", construct=f"unprotected {canon(node.func)}")
                    continue
                h = hs[0]
                if any(isinstance(n, ast.Raise) for n in ast.walk(h)):
                    ctx.fail(fn, h, "the handler around the posterior update re-raises", construct="raise in update handler")
                    continue
                restores = [n for n in ast.walk(h) if isinstance(n, ast.Call) and isinstance(n.func, ast.Attribute) and n.func.attr == "set_hyperparameters"]
                ctx.check(bool(restores), fn, h, "fallback restores the previous hyperparameters", "the handler around the posterior update does not restore previous hyperparameters", construct="update handler without fallback")

    ctx.rule("R4", "retry attempts start the fit from hyperparameters of the same shape as the first attempt (sibling fit calls agree)", floor=1)
    n4 = 0
    for fn in fit_fns:
        calls = fit_calls(prog, fn)
        first = [c for c in calls if kw(c, "hyp0") is not None]
        if len(first) < 2:
            continue
        ref = canon(kw(first[0], "hyp0"))
        for c in first[1:]:
            h = kw(c, "hyp0")
            defs = reaching_assignments(prog, fn, h.id, c) if isinstance(h, ast.Name) else [h]
            for d in defs:
                shp = None
                if call_name(d) in ("np.zeros", "np.ones", "np.full", "np.empty"):
                    a0 = kw(d, "shape") or (d.args[0] if d.args else None)
                    if isinstance(a0, ast.Attribute) and a0.attr == "shape":
                        shp = canon(a0.value)
                elif call_name(d) in ("np.zeros_like", "np.ones_like", "np.full_like", "np.empty_like") and d.args:
                    shp = canon(d.args[0])
                if shp is None:
                    continue
                n4 += 1
                ctx.check(shp == ref, fn, c, f"fallback start has the shape of {ref}", f"a retry starts the fit from an array shaped like '{shp}' while the first attempt passes '{ref}': the fallback attempt fails with a shape/index error instead of recovering", construct=f"fallback hyp0 shaped like {shp} (first attempt: {ref})")
    if n4 == 0:
        ctx.rules["R4"].floor = 0
    ctx.rule("R8", "in a retry handler the hyperparameters installed in the GP are the vector the next attempt starts from", floor=1)
    n8 = 0
    for fn in fit_fns:
        for c in fit_calls(prog, fn):
            h = kw(c, "hyp0")
            if not isinstance(h, ast.Name):
                continue
            tr = next((p_ for p_ in prog.ancestors(c) if isinstance(p_, ast.Try) and in_body(prog, c, p_)), None)
            if tr is None or not any(isinstance(p_, (ast.For, ast.While)) for p_ in prog.ancestors(tr)):
                continue
            for hd in tr.handlers:
                if not handler_catches_linalg(hd):
                    continue
                sets = [n for b_ in hd.body for n in ast.walk(b_) if isinstance(n, ast.Call) and isinstance(n.func, ast.Attribute) and n.func.attr == "set_hyperparameters" and n.args
                        and canon(n.func.value) == canon(c.func.value)]
                if not sets:
                    continue
                last = max(sets, key=pos)
                a = last.args[0]
                # plain copies of the start vector made inside the handler count as the vector itself
                names = {h.id}
                grew = True
                while grew:
                    grew = False
                    for t_, v_, s_, k_ in iter_stores(fn.node):
                        if isinstance(t_, ast.Name) and isinstance(v_, ast.Name) and k_ == "assign" and ((v_.id in names and t_.id not in names) or (t_.id in names and v_.id not in names)) \
                                and any(s_ is x for b_ in hd.body for x in ast.walk(b_)) and pos(s_) > pos(last):
                            names |= {t_.id, v_.id}
                            grew = True
                n8 += 1
                ctx.check(isinstance(a, ast.Name) and a.id in names, fn, last, f"set_hyperparameters({canon(a)}) installs the restart vector {h.id}",
                          f"the retry handler installs '{canon(a)[:40]}' in the GP but the next attempt starts from '{h.id}', which the handler did not bring to the same (nudged, re-normalised) value: "
                          "the restart point keeps the shape / noise level from before the nudge", construct=f"restart vector {h.id} vs installed {canon(a)[:30]}")
    if n8 == 0:
        ctx.rules["R8"].floor = 0
    ctx.assume("implicit exceptions other than those raised inside try bodies are not modelled")
    ctx.assume("ten consecutive failures (all attempts exhausted) are outside the property's quantifier (runs of 2-4)")
