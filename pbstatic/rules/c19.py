"""C19 -- iteration history and OptimizeResult are consistent records."""
from __future__ import annotations

import ast
from typing import Dict, List, Optional, Tuple

from ..cfg import cfg_of
from ..model import AnalysisError, FunctionInfo
from ..roles import roles_of
from ..terms import call_name, canon, const_str, dotted, guard_canon, guard_of, conjuncts, state_key, norm_stmt
from .common import attr_stores, iter_stores, self_attr_of, store_base

EXPLANATION = (
    "R1 incumbent-tuple coherence: in every block that re-assigns the incumbent's observed value / estimate / SD from the history at an "
    "index other than the current iteration, the point slots (self.u and the slot the next iteration restores self.u from) are assigned "
    "from history 'u' at the same index in that block (store-group analysis). R2 record block: all per-iteration keys are recorded in one "
    "block with one index, 'x' is the inverse transform of the expression recorded as 'u', value keys read the incumbent attributes, "
    "func_count reads the logger's counter. R3 containers: history __setitem__/record and result __setitem__ deep-copy, reject unknown "
    "keys, __getattr__ maps to items. R4 result sources: each result field reads its designated state location; target_type/problem_type "
    "mapping. R5: any store to the incumbent point after the record block takes a recorded iterate from the history under the noisy-mode "
    "guard, so the returned x is a recorded iterate. R6 must-definition dataflow over set_attributes (exceptional edges included): a field stored anywhere is stored on every path. Decides record structure, not the numeric values recorded."
    " R7 self.x0 does not may-alias a constructor argument at the end of __init__ (element-wise alias summaries of helper returns). R1 also requires a swap to assign all of yval / fval / fsd."
)

VALUE_ATTRS = ("yval", "fval", "fsd")


def hist_read(expr) -> Optional[Tuple[str, str]]:
    """``HIST.get("k")[i]`` / ``HIST["k"][i]`` -> (key, canon(i))."""
    if isinstance(expr, ast.Subscript):
        sk = state_key(expr.value)
        if sk and sk[0] == "HIST":
            return sk[1], canon(expr.slice)
    if isinstance(expr, ast.Call) and isinstance(expr.func, ast.Attribute) and expr.func.attr in ("copy", "flatten", "item") and not expr.args:
        return hist_read(expr.func.value)
    if isinstance(expr, ast.Call) and call_name(expr) in ("float", "np.copy") and expr.args:
        return hist_read(expr.args[0])
    return None


def block_of(prog, stmt) -> Optional[list]:
    p = prog.parent(stmt)
    for f in ("body", "orelse", "finalbody"):
        blk = getattr(p, f, None)
        if isinstance(blk, list) and any(s is stmt for s in blk):
            return blk
    return None


def tuple_coherence(ctx, prog, R, opt, iter_idx, restore_attr, rule_id="R1"):
    # ------------------------------------------------------------------ R1
    ctx.rule(rule_id, "incumbent value/estimate/SD and the point slots move together from the same history index", floor=2)
    blocks: Dict[int, dict] = {}
    for fn in R.bads.methods.values():
        for t, v, s, k in iter_stores(fn.node):
            a = self_attr_of(t)
            if a in VALUE_ATTRS and isinstance(t, ast.Attribute) and v is not None:
                hr = hist_read(v)
                if hr is None:
                    continue
                blk = block_of(prog, s)
                b = blocks.setdefault(id(blk), {"fn": fn, "blk": blk, "vals": [], "first": s})
                b["vals"].append((a, hr[0], hr[1], s))
    for b in blocks.values():
        fn, blk = b["fn"], b["blk"]
        idxs = {i for _a, _k, i, _s in b["vals"]}
        first = b["first"]
        # keys must match attributes
        for a, k, i, s in b["vals"]:
            if a != k:
                ctx.fail(fn, s, f"incumbent attribute {a} is re-assigned from history key '{k}'", construct=f"self.{a} <- HIST[{k}]")
        if len(idxs) != 1:
            ctx.fail(fn, first, f"incumbent value/estimate/SD are re-assigned from different history indices {sorted(idxs)}", construct="history indices " + "|".join(sorted(idxs)))
            continue
        idx = next(iter(idxs))
        if idx == iter_idx:
            ctx.ok(fn, first, f"estimates of the current iterate refreshed at index {idx} (point unchanged)")
            continue
        # swap to another iterate: point slots must move with it
        stores = {}
        for s in blk:
            for t, v, st, k in iter_stores(s) if not isinstance(s, (ast.If, ast.While, ast.For, ast.Try)) else []:
                a = self_attr_of(t)
                if a and isinstance(t, ast.Attribute):
                    stores[a] = (v, st)
        # the point the next iteration works on: the restore slot if the loop re-synchronises
        # self.u from it at the top of every iteration, else self.u itself
        need = [restore_attr] if restore_attr else ["u"]
        if "u" in stores and "u" not in need:
            need = ["u"] + need
        ok = True
        part = [a for a in VALUE_ATTRS if a not in {x[0] for x in b["vals"]}]
        if part:
            ctx.fail(fn, first, f"the incumbent is swapped to history index {idx} but self.{', self.'.join(part)} keep(s) the value of the previous incumbent: "
                     f"the observed value / estimate / SD that are reported (and appended to the final samples) belong to different points", construct=f"swap to HIST[{idx}] without self.{part[0]}")
            ok = False
        for a in need:
            if a not in stores:
                ctx.fail(fn, first, f"the incumbent's value/estimate/SD are swapped to history index {idx} but the point slot self.{a} is not assigned in the same block: "
                         f"the next iteration pairs the new values with the old point", construct=f"swap to HIST[{idx}] without self.{a}")
                ok = False
                continue
            v, st = stores[a]
            hr = hist_read(v)
            if hr is not None:
                if hr != ("u", idx):
                    ctx.fail(fn, st, f"point slot self.{a} is taken from history {hr} while the values come from index {idx}", construct=f"self.{a} <- HIST{hr}")
                    ok = False
            else:
                # copy of another point slot assigned in this block
                src = self_attr_of(v.func.value) if isinstance(v, ast.Call) and isinstance(v.func, ast.Attribute) and v.func.attr == "copy" else self_attr_of(v) if isinstance(v, ast.Attribute) else None
                if src not in ("u", restore_attr) or src not in stores or src == a:
                    ctx.fail(fn, st, f"point slot self.{a} is not assigned from the history iterate at index {idx}", construct=f"self.{a} <- {canon(v)}")
                    ok = False
        if ok:
            ctx.ok(fn, first, f"swap to iterate {idx}: values and point slots {need} assigned together")



def record_context(prog, R):
    """-> (iteration index name of the record block, restore slot) or None."""
    opt = R.optimize
    idxs = []
    for node in ast.walk(opt.node):
        if isinstance(node, ast.Call) and isinstance(node.func, ast.Attribute) and node.func.attr == "record" and canon(node.func.value) == "HIST" and len(node.args) == 3 and const_str(node.args[0]) == "u":
            idxs.append(canon(node.args[2]))
    restore = None
    for t, v, s, k in iter_stores(opt.node):
        if self_attr_of(t) == "u" and isinstance(t, ast.Attribute) and isinstance(v, ast.Attribute) and self_attr_of(v) not in (None, "u"):
            restore = self_attr_of(v)
    return (idxs[0] if idxs else None), restore


def _result_sources_private(ctx, prog, R, sa, bparam):
    """result['x0'] = bads.x0.copy() copies only when the run ends: if bads.x0 may alias the array the caller passed to the
    constructor, an in-place change of that array between construction and the end of optimize() shows up in the result
    (x0 no longer agrees with the problem that was run).  May-alias dataflow over the constructor, helper returns followed
    element-wise."""
    from ..flow import TagFlow
    from .c20 import AliasPolicy

    init = R.bads_init
    seeds = {p: frozenset({f"A:{p}"}) for p in init.params if p != "self"}
    fl = TagFlow(prog, init, AliasPolicy(seeds, prog, init), may=True)
    st = fl.state_at_exit() or {}
    read = sorted({n.attr for n in ast.walk(sa.node) if isinstance(n, ast.Attribute) and isinstance(n.value, ast.Name) and n.value.id == bparam})
    # only data that is fixed at construction: attributes the constructor assigns from its array parameters
    for a in read:
        if a not in ("x0",):
            continue
        tags = sorted(t for t in st.get(f"self.{a}", frozenset()) if t.startswith("A:"))
        stores = [s_ for m, t, v, s_, k in attr_stores(prog, R.bads, a) if m is init]
        ctx.check(not tags, init, stores[0] if stores else init.node, f"self.{a} is a private copy at the end of the constructor", f"self.{a} may be a view of the caller's {', '.join(t[2:] for t in tags)}: the result's '{a}' reports whatever that array holds when the run ends, not the {a} of the problem that was run", construct=f"self.{a} aliases constructor argument")


def _field_set_rule(ctx, prog, sa):
    """must-definition of ``self[<literal>]`` over the CFG of set_attributes, exceptional edges included (an exception edge
    carries the state from before the statement that raised)."""
    from ..flow import BasePolicy, TagFlow

    class P(BasePolicy):
        def initial(self, flow):
            return {"$keys": frozenset()}

        def after_stmt(self, node, state, flow):
            st = node.stmt
            if node.kind == "stmt" and isinstance(st, (ast.Assign, ast.AnnAssign)):
                tg = list(st.targets) if isinstance(st, ast.Assign) else [st.target]
                flat = []
                while tg:
                    t0 = tg.pop()
                    if isinstance(t0, (ast.Tuple, ast.List)):
                        tg = list(tg) + list(t0.elts)  # self['a'], self['b'] = x, y
                    else:
                        flat.append(t0)
                for t in flat:
                    if isinstance(t, ast.Subscript) and canon(t.value) == "self":
                        k = const_str(t.slice)
                        if k:
                            state["$keys"] = state.get("$keys", frozenset()) | {k}
            return state

    fl = TagFlow(prog, sa, P())
    st = fl.state_at_exit()
    if st is None:
        ctx.undecided("set_attributes has no normal exit")
        return
    must = st.get("$keys", frozenset())
    may = {}
    for t, v, s_, k in iter_stores(sa.node):
        if isinstance(t, ast.Subscript) and canon(t.value) == "self":
            key = const_str(t.slice)
            if key:
                may.setdefault(key, s_)
    for key in sorted(may):
        ctx.check(key in must, sa, may[key], f"result['{key}'] stored on every path", f"result field '{key}' is stored on some paths only (e.g. not when an exception handler runs): results of different runs expose different field sets and result['{key}'] / result.{key} raises", construct=f"result[{key}] not stored on every path")


class _NoTable(Exception):
    pass


_SIDE = {"inf": "all infinite", "mix": "partly finite", "fin": "all finite"}


def _label_by_cases(prog, sa, key: str, bparam: str):
    """finite-domain evaluation of the branching that stores the literal result field ``key``: for every assignment of
    (uncertainty level in 0..2, specify_target_noise, all-lower-infinite, all-upper-infinite, constraint absent) the label
    that ends up stored.  -> {assignment tuple: label} ; raises _NoTable when a test is outside the atom language."""
    import itertools

    from .common import deref_expr
    from ..terms import const_num

    def bounds_atom(e):
        """-> evaluator(env) for a quantified finiteness predicate over the lower / upper hard bounds (a side is 'inf' =
        all infinite, 'mix' = some finite, 'fin' = all finite), also over both stacked: np.isfinite([lb, ub]).any()"""
        inner, red = None, None
        if isinstance(e, ast.Call) and isinstance(e.func, ast.Attribute) and e.func.attr in ("any", "all") and not e.args:
            inner, red = e.func.value, e.func.attr
        elif isinstance(e, ast.Call) and canon(e.func) in ("np.any", "np.all", "any", "all") and len(e.args) == 1 and not e.keywords:
            inner, red = e.args[0], canon(e.func).split(".")[-1]
        if inner is None:
            return None
        neg = False
        while isinstance(inner, ast.UnaryOp) and isinstance(inner.op, (ast.Invert, ast.Not)):
            inner, neg = inner.operand, not neg
        if isinstance(inner, ast.Call) and canon(inner.func) == "np.logical_not" and len(inner.args) == 1:
            inner, neg = inner.args[0], not neg
        if not (isinstance(inner, ast.Call) and canon(inner.func) in ("np.isfinite", "np.isinf") and len(inner.args) == 1):
            return None
        finite = (canon(inner.func) == "np.isfinite") != neg  # the element predicate is 'finite' (True) or 'infinite'
        arg = inner.args[0]
        parts = None
        if isinstance(arg, (ast.List, ast.Tuple)):
            parts = arg.elts
        elif isinstance(arg, ast.Call) and canon(arg.func) in ("np.concatenate", "np.vstack", "np.hstack", "np.stack", "np.array", "np.asarray", "np.row_stack") and arg.args and isinstance(arg.args[0], (ast.List, ast.Tuple)):
            parts = arg.args[0].elts
        else:
            parts = [arg]
        sides = []
        for p_ in parts:
            c_ = canon(p_)
            if c_ == f"{bparam}.lower_bounds":
                sides.append("lb")
            elif c_ == f"{bparam}.upper_bounds":
                sides.append("ub")
            else:
                return None

        def run_(env):
            def one(side):
                v = env[side]  # 'inf' | 'mix' | 'fin'
                if red == "any":
                    return (v != "inf") if finite else (v != "fin")
                return (v == "fin") if finite else (v == "inf")

            vals = [one(s_) for s_ in sides]
            return any(vals) if red == "any" else all(vals)

        return run_

    def ev(e, env):
        if isinstance(e, ast.BoolOp):
            vals = [ev(v, env) for v in e.values]
            return all(vals) if isinstance(e.op, ast.And) else any(vals)
        if isinstance(e, ast.UnaryOp) and isinstance(e.op, ast.Not):
            return not ev(e.operand, env)
        if isinstance(e, ast.Call) and canon(e.func) == "bool" and len(e.args) == 1:
            return ev(e.args[0], env)
        ba = bounds_atom(e)
        if ba is not None:
            return ba(env)
        c = canon(e)
        if c == "OPT[specify_target_noise]":
            return env["S"]
        if c == "OS[uncertainty_handling_level]":
            return env["L"] != 0
        if isinstance(e, ast.Compare) and len(e.ops) == 1:
            l, r, op = e.left, e.comparators[0], e.ops[0]
            if canon(l) == f"{bparam}.non_box_cons" and isinstance(r, ast.Constant) and r.value is None and isinstance(op, (ast.Is, ast.IsNot, ast.Eq, ast.NotEq)):
                return env["C"] == isinstance(op, (ast.Is, ast.Eq))
            lv = env["L"] if canon(l) == "OS[uncertainty_handling_level]" else const_num(l)
            rv = env["L"] if canon(r) == "OS[uncertainty_handling_level]" else const_num(r)
            if lv is not None and rv is not None and "OS[uncertainty_handling_level]" in (canon(l), canon(r)):
                import operator as _o

                f = {ast.Lt: _o.lt, ast.LtE: _o.le, ast.Gt: _o.gt, ast.GtE: _o.ge, ast.Eq: _o.eq, ast.NotEq: _o.ne}.get(type(op))
                if f is not None:
                    return f(lv, rv)
            if canon(l) == "OPT[specify_target_noise]" and isinstance(r, ast.Constant) and isinstance(r.value, bool) and isinstance(op, (ast.Is, ast.Eq, ast.IsNot, ast.NotEq)):
                return (env["S"] == r.value) == isinstance(op, (ast.Is, ast.Eq))
        raise _NoTable(canon(e))

    def stores_key(st) -> bool:
        return any(isinstance(n, ast.Subscript) and not isinstance(n.ctx, ast.Load) and canon(n.value) == "self" and const_str(n.slice) == key for n in ast.walk(st))

    def run(stmts, env, cur):
        for st in stmts:
            if not stores_key(st):
                continue
            if isinstance(st, ast.Assign) and len(st.targets) == 1 and isinstance(st.targets[0], ast.Subscript):
                v = deref_expr(prog, sa, st.value)
                if isinstance(v, ast.IfExp):
                    stack = [v]
                    while isinstance(stack[-1], ast.IfExp):
                        stack.append(stack[-1].body if ev(stack[-1].test, env) else stack[-1].orelse)
                    v = stack[-1]
                lab = const_str(v)
                if lab is None:
                    raise _NoTable(canon(st.value))
                cur = lab
            elif isinstance(st, ast.If):
                cur = run(st.body if ev(deref_expr(prog, sa, st.test), env) else st.orelse, env, cur)
            else:
                raise _NoTable(norm_stmt(st)[:60])
        return cur

    out = {}
    for L, S, lb, ub, C in itertools.product((0, 1, 2), (False, True), ("inf", "mix", "fin"), ("inf", "mix", "fin"), (False, True)):
        env = {"L": L, "S": S, "lb": lb, "ub": ub, "C": C}
        out[(L, S, lb, ub, C)] = run(sa.node.body, env, None)
    return out


def _cache_coherent_at(prog, R, fn, attr: str, at) -> Optional[bool]:
    """``self.<attr>`` holds inverse_transf(self.u) at the program point ``at`` of ``fn`` on every path: must-dataflow with
    gen = ``self.<attr> = VT.inverse_transf(self.u[.flatten()/.copy()])``, kill = any store to self.u (or to the attribute
    from something else), and method summaries (a callee that stores self.u must have re-established the cache at each of
    its exits; a callee that touches neither leaves the fact alone).  None when fn cannot be analysed."""
    from ..flow import BasePolicy, TagFlow
    from ..model import FunctionInfo

    COH = frozenset({"COH"})
    memo = {}
    touches = {}

    def touched(f):
        if f not in touches:
            touches[f] = any(self_attr_of(t) in ("u", attr) for t, v, s, k in iter_stores(f.node))
        return touches[f]

    def reach_touch(f):
        return touched(f) or any(touched(g) for g in prog.reachable_from(f) if isinstance(g, FunctionInfo) and g.cls is fn.cls)

    def is_gen(v):
        if not (isinstance(v, ast.Call) and isinstance(v.func, ast.Attribute) and v.func.attr == R.inverse.name and v.args):
            return False
        a = v.args[0]
        while isinstance(a, ast.Call) and isinstance(a.func, ast.Attribute) and a.func.attr in ("flatten", "copy", "ravel") and not a.args:
            a = a.func.value
        return canon(a) == "self.u"

    def strip_copy_(v):
        while isinstance(v, ast.Call) and isinstance(v.func, ast.Attribute) and v.func.attr in ("copy", "flatten") and not v.args:
            v = v.func.value
        return canon(v)

    class P(BasePolicy):
        def __init__(self, depth, init=frozenset()):
            self.depth, self.init = depth, init

        def initial(self, flow):
            return {"@cache": self.init}

        def eval(self, expr, state, flow):
            return EMPTY_

        def eval_unpack(self, value, i, n, state, flow):
            return EMPTY_

        def refine(self, test, polarity, state, flow):
            # lazily filled cache: on the edge where the attribute is not None, "None or coherent" means coherent
            c_ = canon(test)
            not_none = (c_ == f"(self.{attr} is None)" and not polarity) or (c_ == f"(self.{attr} is not None)" and polarity)
            cur = state.get("@cache", EMPTY_)
            if not_none and "NOC" in cur:
                state["@cache"] = cur | COH
            return state

        def after_stmt(self, node, state, flow):
            s_ = node.stmt
            if node.kind != "stmt" or s_ is None:
                return state
            cur = state.get("@cache", EMPTY_)
            # calls first (evaluated before the store of an assignment), in source order
            for c in [n for n in ast.walk(s_) if isinstance(n, ast.Call)]:
                for tg in prog.resolve_call(flow.fn, c):
                    if isinstance(tg, FunctionInfo) and tg.cls is not None and fn.cls is not None and tg.cls in fn.cls.mro() + fn.cls.subclasses(prog) and reach_touch(tg):
                        bot_, top_ = summary(tg, self.depth + 1)
                        cur = bot_ | (cur & top_)  # gen / preserve of the callee
            usrc = state.get("@usrc", EMPTY_)
            for t, v, s2, k in iter_stores(s_):
                a = self_attr_of(t)
                whole = isinstance(t, ast.Attribute) and k == "assign"
                if a == "u":
                    if whole and strip_copy_(v) == "self.u_best" and "BEQ" in cur:
                        continue  # re-synchronised from the mirror slot, which equals self.u: the value does not change
                    cur = EMPTY_  # (a stale cache is neither coherent nor None)
                    usrc = frozenset({strip_copy_(v)}) if whole and v is not None else EMPTY_
                elif a == "u_best":
                    src_ = strip_copy_(v) if whole and v is not None else None
                    cur = (cur | {"BEQ"}) if src_ is not None and (src_ == "self.u" or src_ in usrc) else (cur - {"BEQ"})
                elif a == attr:
                    if whole and is_gen(v):
                        cur = cur | COH | {"NOC"}
                    elif whole and isinstance(v, ast.Constant) and v.value is None:
                        cur = (cur - COH) | {"NOC"}  # invalidated: None or coherent
                    else:
                        cur = cur - COH - {"NOC"}
            state["@cache"] = cur
            state["@usrc"] = usrc
            return state

    EMPTY_ = frozenset()

    def summary(f, depth):
        """(facts the callee establishes whatever held at its entry, facts it preserves)"""
        if f in memo:
            return memo[f]
        if depth > 4:
            return (EMPTY_, EMPTY_)
        memo[f] = (EMPTY_, EMPTY_)  # recursion: assume nothing
        res = []
        for init in (EMPTY_, frozenset({"COH", "BEQ", "NOC"})):
            fl = TagFlow(prog, f, P(depth, init))
            acc = None
            for r_ in [n for n in ast.walk(f.node) if isinstance(n, ast.Return) and prog.function_of(n) is f]:
                st = fl.state_before(r_)
                if st is not None:
                    t_ = st.get("@cache", EMPTY_)
                    acc = t_ if acc is None else acc & t_
            end = fl.inn.get(fl.cfg.exit.id)
            if end is not None and not any(isinstance(b, ast.Return) for b in f.node.body[-1:]):
                t_ = end.get("@cache", EMPTY_)
                acc = t_ if acc is None else acc & t_
            res.append(acc if acc is not None else EMPTY_)
        memo[f] = (res[0], res[1])
        return memo[f]

    try:
        fl = TagFlow(prog, fn, P(0))
        st = fl.state_before(at)
    except Exception:
        return None
    if st is None:
        return None
    return "COH" in st.get("@cache", EMPTY_)


def check(ctx):
    prog = ctx.prog
    R = roles_of(prog)
    opt = R.optimize

    # ---- the iteration counter: index used by the record block
    records = []  # (call, key, value, idx)
    for fn in [opt]:
        for node in ast.walk(fn.node):
            if isinstance(node, ast.Call) and isinstance(node.func, ast.Attribute) and node.func.attr == "record" and canon(node.func.value) == "HIST" and len(node.args) == 3:
                k = const_str(node.args[0])
                if k:
                    records.append((node, k, node.args[1], canon(node.args[2])))
    # the record block = the block containing the record of "u"
    ublocks = [(c, prog.parent(c)) for c, k, v, i in records if k == "u"]
    if not ublocks:
        ctx.rule("R2", "one record block per iteration with one index; x = inverse(u); value keys read the incumbent", floor=7)
        ctx.missing(opt, "record of history key 'u' (the iterate) in optimize()")
        return
    rec_stmt = ublocks[0][1]
    rec_block = block_of(prog, rec_stmt)
    in_block = [(c, k, v, i) for c, k, v, i in records if block_of(prog, prog.parent(c)) is rec_block]
    iter_idx = in_block[0][3]

    # ---- restore slot: self.u = self.<X>
    restore_attr = None
    for t, v, s, k in iter_stores(opt.node):
        if self_attr_of(t) == "u" and isinstance(t, ast.Attribute) and isinstance(v, ast.Attribute) and self_attr_of(v) not in (None, "u"):
            restore_attr = self_attr_of(v)

    tuple_coherence(ctx, prog, R, opt, iter_idx, restore_attr)

    # D1 write-only attributes (diagnostic)
    reads, writes = set(), {}
    for c in [R.bads]:
        for m in c.methods.values():
            for node in ast.walk(m.node):
                if isinstance(node, ast.Attribute) and isinstance(node.value, ast.Name) and node.value.id == "self":
                    if isinstance(node.ctx, ast.Store):
                        writes.setdefault(node.attr, node)
                    else:
                        reads.add(node.attr)
    ext_reads = set()
    for fn in prog.functions():
        if fn.cls is R.bads:
            continue
        for node in ast.walk(fn.node):
            if isinstance(node, ast.Attribute) and isinstance(node.value, ast.Name) and node.value.id == "bads":
                ext_reads.add(node.attr)
    wo = sorted(a for a in writes if a not in reads and a not in ext_reads)
    ctx.extra["diagnostic_write_only_attributes"] = wo
    near = [a for a in wo if sorted(a.split("_")) in [sorted(x.split("_")) for x in reads]]
    if near:
        ctx.note(f"write-only attribute(s) whose name is a permutation of a read attribute: {near}")

    # ------------------------------------------------------------------ R2
    ctx.rule("R2", "one record block per iteration with one index; x = inverse(u); value keys read the incumbent", floor=7)
    keys = {k: (c, v, i) for c, k, v, i in in_block}
    idxs = {i for _c, _k, _v, i in in_block}
    ctx.check(len(idxs) == 1, opt, rec_stmt, f"{len(in_block)} keys recorded at index {iter_idx}", f"record block uses several iteration indices {sorted(idxs)}", construct="record indices " + "|".join(sorted(idxs)))
    want_src = {"yval": "self.yval", "fval": "self.fval", "fsd": "self.fsd", "func_count": "LOG.func_count", "mesh_size": "self.mesh_size"}
    for k in ("u", "x", "yval", "fval", "fsd", "func_count", "mesh_size"):
        if k not in keys:
            ctx.missing(opt, f"record of history key '{k}' in the per-iteration record block")
    if "u" in keys:
        from .common import deref_expr as _dx

        u_expr = keys["u"][1]
        base = _dx(prog, opt, u_expr)  # the flattened incumbent kept in a local
        while isinstance(base, ast.Call) and isinstance(base.func, ast.Attribute) and base.func.attr in ("flatten", "copy"):
            base = base.func.value
        ctx.check(canon(base) == "self.u", opt, keys["u"][0], "'u' records the incumbent self.u", "history key 'u' does not record the incumbent point self.u", construct=f"record u <- {canon(u_expr)}")
        if "x" in keys:
            xv = keys["x"][1]
            ok = isinstance(xv, ast.Call) and isinstance(xv.func, ast.Attribute) and xv.func.attr == R.inverse.name and canon(xv.func.value) == "VT" and xv.args and (canon(xv.args[0]) == canon(u_expr) or canon(_dx(prog, opt, xv.args[0])) == canon(_dx(prog, opt, u_expr)))
            if not ok and canon(base) == "self.u":
                # the original-space incumbent kept in an attribute next to self.u (a cache): accepted where the cache is
                # coherent with self.u on every path to the record
                xb = xv
                while isinstance(xb, ast.Call) and isinstance(xb.func, ast.Attribute) and xb.func.attr in ("copy", "flatten") and not xb.args:
                    xb = xb.func.value
                if isinstance(xb, ast.Name):
                    # the cache read into a local right before the record (an inlined getter's return value)
                    from .common import reaching_assignments as _ra19

                    dd_ = _ra19(prog, opt, xb.id, keys["x"][0])
                    if len(dd_) == 1 and isinstance(dd_[0], ast.Attribute):
                        xb = dd_[0]
                ca = self_attr_of(xb) if isinstance(xb, ast.Attribute) else None
                if ca and ca != "u":
                    coh = _cache_coherent_at(prog, R, opt, ca, keys["x"][0])
                    if coh:
                        ok = True
                    elif coh is False:
                        ctx.fail(opt, keys["x"][0], f"history key 'x' records self.{ca}, which is not inverse_transf(self.u) on every path to the record: self.u is re-assigned on some path without self.{ca} being refreshed (stale cache)", construct=f"record x <- stale self.{ca}")
                        ok = None
            if ok is not None:
                ctx.check(bool(ok), opt, keys["x"][0], "'x' = inverse_transf(expression recorded as 'u')", "history key 'x' is not the inverse transform of the point recorded as 'u'", construct=f"record x <- {canon(xv)}")
    for k, src in want_src.items():
        if k in keys:
            v = keys[k][1]
            inner = v
            while isinstance(inner, ast.Call) and (call_name(inner) in ("float", "int", "np.copy") or (isinstance(inner.func, ast.Attribute) and inner.func.attr in ("copy", "item"))):
                inner = inner.args[0] if inner.args else inner.func.value
            ctx.check(canon(inner) == src, opt, keys[k][0], f"'{k}' records {src}", f"history key '{k}' does not record {src}", construct=f"record {k} <- {canon(v)}")
    # guard of the record block: recorded on every polled iteration and upon termination
    g = guard_canon(prog, opt, rec_stmt)
    ctx.extra["record_block_guard"] = g

    # ------------------------------------------------------------------ R5
    ctx.rule("R5", "after the record block the incumbent point only changes to a recorded history iterate, under the noisy-mode guard", floor=2)
    # 'after the record block' in CFG terms (inlined statements keep their helper's line numbers): later in the same
    # iteration (reachable from the record of 'u' without passing the loop header) or after the loop
    cfg_o = cfg_of(opt)
    rn_ = cfg_o.node_of(rec_stmt)
    after = set()
    if rn_ is not None:
        hdrs = [h for h, body in cfg_o.loops.items() if rn_.id in body]
        after = cfg_o.reachable(rn_.id, avoiding=set(hdrs)) - {rn_.id}
        for h in hdrs:
            for x in cfg_o.succ(h, "F"):
                after |= cfg_o.reachable(x, avoiding=set(hdrs))
        after -= {n_.id for s_ in rec_block for n_ in [cfg_o.node_of(s_)] if n_ is not None}
    for t, v, s, k in iter_stores(opt.node):
        a = self_attr_of(t)
        sn_ = cfg_o.node_of(s)
        if a != "u" or not isinstance(t, ast.Attribute) or sn_ is None or sn_.id not in after:
            continue
        hr = hist_read(v)
        g = guard_canon(prog, opt, s)
        noisy = any(x in ("(0 < OS[uncertainty_handling_level])", "(1 <= OS[uncertainty_handling_level])") for x in g)
        if hr is None or hr[0] != "u":
            ctx.fail(opt, s, "after the iteration was recorded the incumbent point is assigned from something other than a recorded history iterate: the returned x need not be a recorded iterate", construct=f"self.u <- {canon(v)}")
        elif not noisy:
            ctx.fail(opt, s, "the incumbent point is swapped after recording without the noisy-mode guard: for deterministic targets the returned x must be the last recorded iterate", construct=f"unguarded self.u <- HIST[u][{hr[1]}]")
        else:
            ctx.ok(opt, s, f"self.u <- HIST[u][{hr[1]}] under noisy guard")

    # ------------------------------------------------------------------ R3
    ctx.rule("R3", "history and result containers deep-copy on store, reject unknown keys, map attributes to items", floor=6)
    H = R.history_cls
    _container_setitem(ctx, prog, H, "IterationHistory")
    recm = H.find_method("record")
    if recm is None:
        raise AnalysisError("IterationHistory.record not found")
    p = [x for x in recm.params if x != "self"]
    # record: negative iteration raises, unknown key raises, element store deep-copies
    raises = [n for n in ast.walk(recm.node) if isinstance(n, ast.Raise)]
    tests = [canon(t) for n in ast.walk(recm.node) if isinstance(n, ast.If) for t in [n.test]]
    ctx.check(any(f"({p[2]} < 0)" == t for t in tests) and len(raises) >= 2, recm, recm.node, "record rejects iteration < 0 and unknown keys", "IterationHistory.record no longer rejects negative iterations / unknown keys", construct="record validation")
    ctx.check(any(f"({p[0]} not in self)" == t for t in tests), recm, recm.node, "record rejects unknown keys", "IterationHistory.record accepts keys that were not declared", construct="record unknown-key test")
    elem = [(t, v, s) for t, v, s, k in iter_stores(recm.node) if isinstance(t, ast.Subscript) and isinstance(t.value, ast.Subscript)]
    okc = any(call_name(v) in ("copy.deepcopy", "deepcopy") and v.args and canon(v.args[0]) == p[1] and canon(t.slice) == p[2] and canon(t.value.slice) == p[0] for t, v, s in elem if isinstance(v, ast.Call))
    ctx.check(okc, recm, elem[0][2] if elem else recm.node, "record stores deepcopy(value) at [key][iteration]", "IterationHistory.record does not store a deep copy of the value at the given key and iteration", construct="record element store")
    OR = R.result_cls
    _container_setitem(ctx, prog, OR, "OptimizeResult")
    ga = OR.find_method("__getattr__")
    if ga is None:
        ctx.missing("pybads/bads/optimize_result.py", "OptimizeResult.__getattr__")
    else:
        nm = [x for x in ga.params if x != "self"][0]
        rets = [n for n in ast.walk(ga.node) if isinstance(n, ast.Return)]
        ok = any(canon(r.value) == f"self[{nm}]" for r in rets if r.value is not None)
        conv = any(isinstance(n, ast.Raise) and n.exc is not None and "AttributeError" in canon(n.exc) for n in ast.walk(ga.node))
        ctx.check(ok and conv, ga, ga.node, "attribute access maps to item access, KeyError -> AttributeError", "OptimizeResult attribute access no longer mirrors item access", construct="__getattr__")

    # ------------------------------------------------------------------ R4
    ctx.rule("R4", "result fields read their designated state locations", floor=8)
    sa = OR.find_method("set_attributes")
    if sa is None:
        raise AnalysisError("OptimizeResult.set_attributes not found")
    bparam = [x for x in sa.params if x != "self"][0]
    table = {
        "x0": f"{bparam}.x0",
        "x": f"{bparam}.x",
        "fval": f"{bparam}.fval",
        "fsd": f"{bparam}.fsd",
        "func_count": "LOG.func_count",
        "mesh_size": f"{bparam}.mesh_size",
        "random_seed": "OS[random_seed]",
        "message": "OS[termination_msg]",
        "iterations": "OS[iter]",
        "fun": "LOG.fun",
        "non_box_cons": f"{bparam}.non_box_cons",
    }
    stores = {}
    for t, v, s, k in iter_stores(sa.node):
        if isinstance(t, ast.Subscript) and canon(t.value) == "self":
            key = const_str(t.slice)
            if key:
                stores.setdefault(key, []).append((v, s))
    allowed = _result_keys(OR)
    # fields handed to dict.update(...) never pass the item setter of the result class (which copies what it stores)
    via_update = {}
    for n in ast.walk(sa.node):
        if isinstance(n, ast.Call) and isinstance(n.func, ast.Attribute) and n.func.attr == "update" and canon(n.func.value) in ("self", "super()") and n.args and isinstance(n.args[0], ast.Dict):
            for k_ in n.args[0].keys:
                if const_str(k_):
                    via_update[const_str(k_)] = n
        if isinstance(n, ast.Call) and isinstance(n.func, ast.Attribute) and n.func.attr == "update" and canon(n.func.value) in ("self", "super()"):
            for kw_ in n.keywords:
                if kw_.arg:
                    via_update[kw_.arg] = n
    for key, want in table.items():
        if key not in stores and key in via_update:
            ctx.fail(sa, via_update[key], f"result field '{key}' is stored with dict.update(), which bypasses the result's item setter: the value is not copied, the result shares the object with the optimizer", construct=f"result[{key}] via update()")
            continue
        if key not in stores:
            ctx.missing(sa, f"result field '{key}'")
            continue
        for v, s in stores[key]:
            inner = v
            while isinstance(inner, ast.Call) and isinstance(inner.func, ast.Attribute) and inner.func.attr == "copy":
                inner = inner.func.value
            ctx.check(canon(inner) == want, sa, s, f"result['{key}'] <- {want}", f"result field '{key}' does not read {want}", construct=f"result[{key}] <- {canon(v)}")
    # target_type mapping
    tt = stores.get("target_type", [])
    lits = {}
    for v, s in tt:
        g = guard_canon(prog, sa, s)
        lits[const_str(v)] = g
    exp_det = [g for l, g in lits.items() if l == "deterministic"]
    ok_tt = (
        "deterministic" in lits
        and "stochastic" in lits
        and any("(OS[uncertainty_handling_level] <= 0)" in g or "not (0 < OS[uncertainty_handling_level])" in g for g in exp_det)
        and any("(0 < OS[uncertainty_handling_level])" in g for g in [lits["stochastic"]])
    )
    if not ok_tt and tt:
        # another branching order / comparison spelling: decide by cases over the levels 0..2 and the noise flag
        try:
            tab = _label_by_cases(prog, sa, "target_type", bparam)
            bad = [(k, v) for k, v in tab.items() if v != ("deterministic" if k[0] == 0 else ("stochastic (specified noise)" if k[1] else "stochastic"))]
            ok_tt = not bad
            if bad:
                lits["by cases"] = [f"level {bad[0][0][0]}, specified noise {bad[0][0][1]} -> {bad[0][1]!r}"]
        except _NoTable:
            pass
    ctx.check(bool(ok_tt), sa, tt[0][1] if tt else sa.node, "target_type = deterministic iff uncertainty level is 0", "target_type no longer follows the uncertainty-handling level (deterministic iff level 0)", construct="target_type mapping " + str(sorted((k or '?') + ':' + '&'.join(v) for k, v in lits.items())))
    pt = stores.get("problem_type", [])
    plits = {const_str(v): guard_canon(prog, sa, s) for v, s in pt}
    unc = plits.get("unconstrained", [])
    ok_pt = (
        set(plits) == {"unconstrained", "bound constraints", "non-box constraints"}
        and any("np.all(np.isinf(" in x and "lower_bounds" in x for x in unc)
        and any("np.all(np.isinf(" in x and "upper_bounds" in x for x in unc)
        and any(f"({bparam}.non_box_cons is None)" == x for x in unc)
        and any(f"({bparam}.non_box_cons is None)" == x for x in plits.get("bound constraints", []))
    )
    why_pt = ""
    if not ok_pt and pt:
        try:
            tab = _label_by_cases(prog, sa, "problem_type", bparam)
            bad = [(k, v) for k, v in tab.items() if v != ("non-box constraints" if not k[4] else ("unconstrained" if k[2] == "inf" and k[3] == "inf" else "bound constraints"))]
            ok_pt = not bad
            if bad:
                k_, v_ = bad[0]
                why_pt = f": with lower bounds {_SIDE[k_[2]]}, upper bounds {_SIDE[k_[3]]} and {'no constraint' if k_[4] else 'a constraint'} the label is {v_!r}"
        except _NoTable:
            pass
    ctx.check(bool(ok_pt), sa, pt[0][1] if pt else sa.node, "problem_type follows bounds/constraint presence", "problem_type no longer follows (all bounds infinite, constraint absent) / (constraint absent) / otherwise" + why_pt, construct="problem_type mapping")
    # every stored key is allowed
    for key, lst in stores.items():
        if allowed is not None and key not in allowed:
            ctx.fail(sa, lst[0][1], f"result key '{key}' is not in OptimizeResult._keys: building the result raises", construct=f"result key {key}")
    # ------------------------------------------------------------------ R7
    ctx.rule("R7", "problem data the result reports (x0) is held as a private copy from construction on, not as a view of the caller's array", floor=1)
    _result_sources_private(ctx, prog, R, sa, bparam)

    # ------------------------------------------------------------------ R6
    ctx.rule("R6", "the result has the same field set on every path: a field stored anywhere in set_attributes is stored on all paths to its return", floor=10)
    _field_set_rule(ctx, prog, sa)

    ctx.assume("copy.deepcopy yields an independent copy of arrays, lists and GP objects")


def _result_keys(OR):
    for s in OR.node.body:
        if isinstance(s, ast.Assign) and any(isinstance(t, ast.Name) and t.id == "_keys" for t in s.targets):
            try:
                return set(ast.literal_eval(s.value))
            except Exception:
                return None
    return None


def _container_setitem(ctx, prog, cls, label):
    si = cls.find_method("__setitem__")
    if si is None or si.cls is not cls:
        ctx.missing(cls.module.relpath, f"{label}.__setitem__ (deep-copying setter)")
        return
    p = [x for x in si.params if x != "self"]
    stores = [n for n in ast.walk(si.node) if isinstance(n, ast.Call) and canon(n.func) in ("dict.__setitem__",) or (isinstance(n, ast.Call) and isinstance(n.func, ast.Attribute) and n.func.attr == "__setitem__")]
    ok = False
    for c in stores:
        if len(c.args) >= 3 and canon(c.args[1]) == p[0]:
            v = c.args[2]
            if isinstance(v, ast.Call) and call_name(v) in ("copy.deepcopy", "deepcopy") and v.args and canon(v.args[0]) == p[1]:
                ok = True
            else:
                ctx.fail(si, c, f"{label}.__setitem__ stores the caller's object without a deep copy: later use of the optimiser can change the record", construct=f"{label}.__setitem__ stores {canon(v)}")
                return
    ctx.check(ok, si, si.node, f"{label}.__setitem__ stores deepcopy(value)", f"{label}.__setitem__ no longer stores a deep copy", construct=f"{label}.__setitem__")
    raises = [n for n in ast.walk(si.node) if isinstance(n, ast.Raise)]
    tests = [n.test for n in ast.walk(si.node) if isinstance(n, ast.If)]
    has = any(("not in" in canon(t)) and p[0] in canon(t) for t in tests) and bool(raises)
    ctx.check(has, si, si.node, f"{label}.__setitem__ rejects unknown keys", f"{label}.__setitem__ no longer rejects unknown keys", construct=f"{label} unknown-key test")
    # no other method of the container writes an item past that setter (dict.__setitem__ / dict.update / dict.setdefault
    # / super().__setitem__): the value would not be copied and the key not checked.  Moving an item that is already
    # stored (``dict.__setitem__(self, k, dict.pop(self, k))``) adds nothing and is accepted.
    for m in cls.methods.values():
        if m is si:
            continue
        for n in ast.walk(m.node):
            if not (isinstance(n, ast.Call) and isinstance(n.func, ast.Attribute) and n.func.attr in ("__setitem__", "update", "setdefault")):
                continue
            recv = canon(n.func.value)
            direct = recv in ("dict", "super()", "OrderedDict", "collections.OrderedDict") or (recv == "self" and n.func.attr in ("update", "setdefault"))
            if not direct:
                continue
            if n.func.attr == "__setitem__" and len(n.args) >= 3 and isinstance(n.args[2], ast.Call) and canon(n.args[2].func) in ("dict.pop", "super().pop") and len(n.args[2].args) >= 2 and canon(n.args[2].args[1]) == canon(n.args[1]):
                continue
            if m.node.name == "__init__" and recv in ("dict", "super()") and n.func.attr == "update":
                continue  # construction
            ctx.fail(m, n, f"{label}.{m.node.name} stores an item with {recv}.{n.func.attr}(), past the checking and copying item setter: unknown keys are accepted and the caller's object is shared", construct=f"{label}.{m.node.name} bypasses __setitem__")
