"""C15 -- the GP surrogate is conditioned on real, nearby observations."""
from __future__ import annotations

import ast
from typing import Dict, List, Optional

import sympy as sp

from ..cfg import cfg_of
from ..flow import EMPTY, BasePolicy, TagFlow, path_of
from ..model import AnalysisError, FunctionInfo, bind_args
from ..roles import roles_of
from ..symb import Translator, Untranslatable, is_zero
from ..terms import call_name, canon, conjuncts, const_num, dotted, match_sqrt, match_square, norm_stmt, state_key
from .common import iter_stores, kw, reaching_assignments, store_base

EXPLANATION = (
    "R1 unit discipline: a forward must-tag dataflow with tags SD / VAR (sources: the log's S array and the second output of a "
    "logger call are SD; x**2, x*x, np.square turn SD into VAR, sqrt the reverse; callee parameters are seeded from all package "
    "call sites, callee results from their return expressions) demands VAR at every sink: stores to <gp>.s2, the s2 argument of "
    "fit, the third element of the training triple. R2 who-may-write <gp>.X/.y/.s2: only the neighbour selector's result, the "
    "incremental add (whose (x, y, sd) arguments stem from one logger call), self-filtering and the tabled non-finite patch. R3 "
    "the neighbour selector indexes U, Y, S with one selector order[0:n], order = ascending argsort of the length-scaled distance "
    "to the reference point, n clamped by n_train_max, n_train_min and finally by the number of logged rows. R4 LCB: z = mean - "
    "sqrt_beta*sqrt(var), default sqrt_beta^2 = 2*nu*log(D t^2 pi^2/(6 delta)), t = count+1 (sympy identity). R5 a fit on thinned data works on a deep copy. R6 the high-water mark that bounds the selector's slices of the log starts at a constant, advances by one per recorded row in the record routine and is clamped only by the live capacity array.shape[0]. R7 must-dataflow with 'moved implies flag' facts: every incumbent move leaves the re-centring request set at return, or hands back (through a return slot every caller rebinds) a surrogate fitted around the moved point. Decides structure "
    "and unitsDecides structure "
    "and units, not the numerical adequacy of the metric."
)

TOP = frozenset({"SD", "VAR", "NONE"})
GP_NAMES = ("gp", "tmp_gp", "new_gp")


def is_gp_expr(prog, fn, expr) -> bool:
    """receiver that denotes a gpyreg GP object (annotation or conventional name)."""
    if isinstance(expr, ast.Name):
        ann = fn.param_annotation(expr.id)
        if ann is not None:
            ext = prog.external_name(fn.module, ann)
            if ext and ext.endswith("GP"):
                return True
        return expr.id in GP_NAMES or expr.id.endswith("_gp") or expr.id == "gp"
    return False


class UnitAnalysis:
    def __init__(self, prog, R):
        self.prog = prog
        self.R = R
        self._flows: Dict[int, TagFlow] = {}
        self._param_cache: Dict = {}
        self._ret_cache: Dict = {}
        self._busy = set()

    def flow(self, fn: FunctionInfo) -> TagFlow:
        k = id(fn.node)
        if k not in self._flows:
            self._flows[k] = TagFlow(self.prog, fn, UnitPolicy(self, fn))
        return self._flows[k]

    def param_tags(self, fn: FunctionInfo, p: str):
        key = (id(fn.node), p)
        if key in self._param_cache:
            return self._param_cache[key]
        if key in self._busy:
            return EMPTY  # recursive call chain: assume nothing
        self._busy.add(key)
        acc = None
        for caller, call in self.prog.callers_of(fn):
            b = bind_args(fn, call)
            if p not in b:
                continue  # default value: a literal, no unit
            t = self.flow(caller).tags(b[p])
            if t is None:
                continue
            acc = t if acc is None else acc & t
        self._busy.discard(key)
        res = acc if acc is not None else EMPTY
        self._param_cache[key] = res
        return res

    def return_tags(self, fn: FunctionInfo, i: Optional[int], n: Optional[int]):
        key = (id(fn.node), i, n)
        if key in self._ret_cache:
            return self._ret_cache[key]
        if key in self._busy:
            return EMPTY
        self._busy.add(key)
        # independent of the callers (no cycle through memoised caller flows)
        fl = TagFlow(self.prog, fn, UnitPolicy(self, fn, seed_params=False))
        acc = None
        for node in ast.walk(fn.node):
            if isinstance(node, ast.Return) and self.prog.function_of(node) is fn and node.value is not None:
                v = node.value
                if i is not None:
                    if isinstance(v, ast.Tuple) and len(v.elts) == n:
                        v = v.elts[i]
                    else:
                        acc = EMPTY
                        continue
                t = fl.tags(v)
                if t is None:
                    continue
                acc = t if acc is None else acc & t
        self._busy.discard(key)
        res = acc if acc is not None else EMPTY
        self._ret_cache[key] = res
        return res


class UnitPolicy(BasePolicy):
    def __init__(self, ua: UnitAnalysis, fn: FunctionInfo, seed_params: bool = True):
        self.ua = ua
        self.fn = fn
        self.seed_params = seed_params

    def initial(self, flow):
        st = {}
        if not self.seed_params:
            return st
        for p in self.fn.params:
            if p == "self":
                continue
            t = self.ua.param_tags(self.fn, p)
            if t:
                st[p] = t
        return st

    def eval(self, expr, state, flow):
        if isinstance(expr, ast.Constant) and expr.value is None:
            return TOP
        sq = match_square(expr) if isinstance(expr, (ast.BinOp, ast.Call)) else None
        if sq is not None:
            t = self.eval(sq, state, flow)
            out = set()
            if "SD" in t:
                out.add("VAR")
            if "NONE" in t:
                out.add("NONE")
            return frozenset(out)
        rt = match_sqrt(expr) if isinstance(expr, (ast.BinOp, ast.Call)) else None
        if rt is not None:
            t = self.eval(rt, state, flow)
            return frozenset({"SD"}) if "VAR" in t else EMPTY
        return super().eval(expr, state, flow)

    def default_tags(self, path):
        if path == "LOG.S" or (self.fn.cls is self.ua.R.logger_cls and path == "self.S"):
            return frozenset({"SD"})
        if path.endswith(".s2") and path.count(".") == 1:
            return frozenset({"VAR"})
        return EMPTY

    def eval_unknown_path(self, expr, state, flow):
        c = canon(expr)
        if c == "LOG.S" or (self.fn.cls is self.ua.R.logger_cls and c == "self.S"):
            return frozenset({"SD"})
        if isinstance(expr, ast.Attribute) and expr.attr == "s2" and is_gp_expr(self.ua.prog, self.fn, expr.value):
            return frozenset({"VAR"})  # slot invariant, enforced at every store
        return EMPTY

    def eval_other(self, expr, state, flow):
        if isinstance(expr, ast.BinOp) and isinstance(expr.op, (ast.Mult, ast.Div)):
            # scaling by a unit-free literal keeps the unit
            if const_num(expr.right) is not None:
                return self.eval(expr.left, state, flow)
            if const_num(expr.left) is not None and isinstance(expr.op, ast.Mult):
                return self.eval(expr.right, state, flow)
        if isinstance(expr, (ast.Tuple, ast.List)) and expr.elts:
            acc = None
            for e in expr.elts:
                t = self.eval(e, state, flow)
                acc = t if acc is None else acc & t
            return acc
        return EMPTY

    def eval_call(self, expr, state, flow):
        n = call_name(expr)
        if n in ("np.concatenate", "np.vstack", "np.hstack", "np.append"):
            args = expr.args
            if n != "np.append" and args and isinstance(args[0], (ast.Tuple, ast.List)):
                args = args[0].elts
            elif n == "np.append":
                args = args[:2]
            acc = None
            for a in args:
                t = self.eval(a, state, flow)
                acc = t if acc is None else acc & t
            return acc or EMPTY
        targets = self.ua.prog.resolve_call(self.fn, expr)
        fns = [t for t in targets if isinstance(t, FunctionInfo)]
        if fns and all(f is not self.ua.R.logger_call for f in fns):
            acc = None
            for f in fns:
                t = self.ua.return_tags(f, None, None)
                acc = t if acc is None else acc & t
            return acc or EMPTY
        return EMPTY

    def eval_unpack(self, value, i, n, state, flow):
        if isinstance(value, ast.Call):
            targets = self.ua.prog.resolve_call(self.fn, value)
            fns = [t for t in targets if isinstance(t, FunctionInfo)]
            if fns and any(f is self.ua.R.logger_call for f in fns):
                return frozenset({"SD"}) if i == 1 else EMPTY
            if fns:
                acc = None
                for f in fns:
                    t = self.ua.return_tags(f, i, n)
                    acc = t if acc is None else acc & t
                return acc or EMPTY
        return super().eval_unpack(value, i, n, state, flow)


def neighbour_selector(prog, R) -> FunctionInfo:
    """role: the function returning a 3-tuple that reads the log's X and computes
    an argsort."""
    for fn in prog.functions():
        rets = [n for n in ast.walk(fn.node) if isinstance(n, ast.Return) and isinstance(n.value, ast.Tuple) and len(n.value.elts) == 3]
        if not rets:
            continue
        src = {canon(n) for n in ast.walk(fn.node) if isinstance(n, ast.Attribute)}
        has_sort = any(call_name(n) == "np.argsort" for n in ast.walk(fn.node) if isinstance(n, ast.Call))
        if "LOG.X" in src and has_sort:
            return fn
    raise AnalysisError("GP training-set selector (returns (U, Y, S) ordered by distance) not found")


def check(ctx):
    prog = ctx.prog
    R = roles_of(prog)
    ua = UnitAnalysis(prog, R)

    # ------------------------------------------------------------------ R1
    ctx.rule("R1", "supplied noise reaches every GP s2 sink as a variance (SD squared)", floor=4)
    sel = neighbour_selector(prog, R)
    for fn in prog.functions():
        fl = None
        # sink 1: stores to <gp>.s2
        for t, v, s, kind in iter_stores(fn.node):
            base = store_base(t)
            if isinstance(base, ast.Attribute) and base.attr == "s2" and is_gp_expr(prog, fn, base.value) and v is not None:
                fl = fl or ua.flow(fn)
                if kind.startswith("assign["):
                    # tuple-unpacked from a call
                    i = int(kind.split("[")[1].rstrip("]"))
                    tags = fl.policy.eval_unpack(v, i, 3, fl.state_before(s) or {}, fl)
                else:
                    tags = fl.tags(v)
                _sink(ctx, fn, s, f"{canon(base)} <- {canon(v)}", tags)
        # sink 2: the s2 argument of a fit call on a GP
        for call, _tg in prog.calls_in(fn):
            if isinstance(call.func, ast.Attribute) and call.func.attr == "fit" and is_gp_expr(prog, fn, call.func.value):
                arg = call.args[2] if len(call.args) > 2 else kw(call, "s2")
                if arg is None:
                    continue
                fl = fl or ua.flow(fn)
                _sink(ctx, fn, call, f"{canon(call.func)}(.., s2={canon(arg)})", fl.tags(arg))
    # sink 3: third element of the training triple returned by the selector and by the initial data routine
    for fn in prog.functions():
        for node in ast.walk(fn.node):
            if isinstance(node, ast.Return) and isinstance(node.value, ast.Tuple) and len(node.value.elts) >= 3 and prog.function_of(node) is fn:
                third = node.value.elts[2]
                names = {canon(e) for e in node.value.elts}
                if fn is sel or (isinstance(third, ast.Name) and third.id.lower().startswith("s2")):
                    _sink(ctx, fn, node, f"return (.., .., {canon(third)})", ua.flow(fn).tags(third))

    # ------------------------------------------------------------------ R2
    ctx.rule("R2", "GP training arrays are written only from the log-backed selector, the paired incremental add, self-filtering or the tabled patch", floor=5)
    for fn in prog.functions():
        for t, v, s, kind in iter_stores(fn.node):
            base = store_base(t)
            if not (isinstance(base, ast.Attribute) and base.attr in ("X", "y", "s2") and is_gp_expr(prog, fn, base.value)):
                continue
            what = f"{canon(t)} <- {canon(v) if v is not None else '?'}"
            recv = canon(base)
            ok, why = False, ""
            if isinstance(t, ast.Subscript):
                # in-place patch: must copy from the same array (non-finite patch)
                srcs = {canon(n) for n in ast.walk(v) if isinstance(n, ast.Attribute)} if v is not None else set()
                ok = recv in srcs
                why = "tabled non-finite patch (value copied from the same array)"
            elif isinstance(v, ast.Call) and any(f is sel for f in prog.resolve_call(fn, v) if isinstance(f, FunctionInfo)):
                ok, why = True, "neighbour selector result"
            elif isinstance(v, ast.Name):
                defs = reaching_assignments(prog, fn, v.id, s)
                ok = bool(defs) and all(
                    isinstance(d, ast.Call) and any(f is sel for f in prog.resolve_call(fn, d) if isinstance(f, FunctionInfo)) for d in defs
                )
                why = "neighbour selector result (through a local)"
            elif isinstance(v, ast.Call) and call_name(v) in ("np.concatenate", "np.vstack", "np.append"):
                elts = v.args[0].elts if v.args and isinstance(v.args[0], (ast.Tuple, ast.List)) else v.args[:2]
                srcs = [canon(e) for e in elts]
                params = set(fn.params)
                rest = [e for e in elts if canon(e) != recv]
                core = rest[0] if len(rest) == 1 else None
                if core is not None and base.attr == "s2" and match_square(core) is not None:
                    core = match_square(core)
                while isinstance(core, ast.Call) and call_name(core) in ("np.atleast_2d", "np.atleast_1d", "np.array", "np.asarray") and core.args:
                    core = core.args[0]
                if core is not None and base.attr == "s2" and match_square(core) is not None:
                    core = match_square(core)
                if isinstance(core, ast.Name) and core.id not in params:
                    # the new row (already squared for s2) parked in a local first
                    from .common import deref_expr as _dx15

                    core = _dx15(prog, fn, core)
                    if base.attr == "s2" and match_square(core) is not None:
                        core = match_square(core)
                    while isinstance(core, ast.Call) and call_name(core) in ("np.atleast_2d", "np.atleast_1d", "np.array", "np.asarray") and core.args:
                        core = core.args[0]
                ok = recv in srcs and srcs[0] == recv and isinstance(core, ast.Name) and core.id in params
                why = "incremental add: old rows first, then a parameter"
            elif isinstance(v, ast.Subscript) and canon(store_base(v)) == recv:
                ok, why = True, "row filtering of itself"
            if ok:
                ctx.ok(fn, s, f"{what}  [{why}]")
            else:
                ctx.fail(fn, s, f"GP training array {recv} is written from a source that is not the evaluation log", construct=what)
    # pairing at the incremental-add call sites
    add_fn = None
    for fn in prog.functions():
        if fn.cls is None and any(
            isinstance(store_base(t), ast.Attribute) and store_base(t).attr == "X" and isinstance(v, ast.Call) and call_name(v) == "np.concatenate"
            for t, v, s, k in iter_stores(fn.node)
        ):
            add_fn = fn
    if add_fn is None:
        ctx.missing("pybads/bads/gaussian_process_train.py", "incremental add routine (concatenates a new row to gp.X)")
    else:
        aparams = add_fn.params
        for caller, call in prog.callers_of(add_fn):
            b = bind_args(add_fn, call)
            # find x, y, sd parameters by position after (logger, gp)
            xs = [p for p in aparams if p not in ("function_logger", "gp", "options")]
            if len(xs) < 3:
                ctx.undecided("incremental add signature not recognised")
                continue
            ax, ay, asd = b.get(xs[0]), b.get(xs[1]), b.get(xs[2])
            lc = None
            for c in R.logger_calls(caller):
                st = prog.parent(c)
                if isinstance(st, ast.Assign) and isinstance(st.targets[0], ast.Tuple) and len(st.targets[0].elts) == 3:
                    outs = [canon(e) for e in st.targets[0].elts]
                    if ay is not None and canon(ay) == outs[0]:
                        lc = (c, outs)
            if lc is None:
                ctx.fail(caller, call, "value handed to the GP's incremental add is not the first output of a logger call in this step")
                continue
            c, outs = lc
            okx = ax is not None and c.args and canon(ax) == canon(c.args[0])
            oks = asd is None or canon(asd) == outs[1]
            ctx.check(okx and oks, caller, call, f"add({canon(ax)}, {outs[0]}, {outs[1]}) pairs the outputs of logger({canon(c.args[0])})",
                      "incremental add pairs a point / SD with a value that was not observed there")

    # ------------------------------------------------------------------ R5
    ctx.rule("R5", "a fit on thinned training data is performed on a deep copy, never on the live surrogate", floor=1)
    from .c20 import AliasPolicy

    n5 = 0
    for fn in prog.functions():
        thin = [(t, v, s) for t, v, s, k in iter_stores(fn.node) if isinstance(t, ast.Name) and isinstance(v, ast.Subscript) and isinstance(v.value, ast.Name) and v.value.id == t.id
                and any(isinstance(p_, (ast.For, ast.While)) for p_ in prog.ancestors(s))]
        fits = [n for n in ast.walk(fn.node) if isinstance(n, ast.Call) and isinstance(n.func, ast.Attribute) and n.func.attr == "fit" and is_gp_expr(prog, fn, n.func.value)]
        if not thin or not fits:
            continue
        thinned = {t.id for t, v, s in thin}
        gp_params = [p for p in fn.params if is_gp_expr(prog, fn, ast.Name(id=p, ctx=ast.Load()))]
        fl = TagFlow(prog, fn, AliasPolicy({p: frozenset({f"A:{p}"}) for p in gp_params}), may=True)
        for c in fits:
            if not any(isinstance(a, ast.Name) and a.id in thinned for a in c.args):
                continue
            st = fl.state_before(c)
            if st is None:
                continue
            tags = fl.policy.eval(c.func.value, st, fl)
            al = sorted(t for t in tags if t.startswith("A:"))
            n5 += 1
            ctx.check(not al, fn, c, f"{canon(c.func.value)}.fit on thinned data works on a private copy", f"the retry fits the *live* surrogate ({canon(c.func.value)} may alias parameter {al}) on thinned data: after a failed fit the GP keeps a training set that is not the nearest-neighbour set of the log",
                      construct=f"retry fit on alias of {al[0][2:] if al else ''}")
    if n5 == 0:
        ctx.rules["R5"].floor = 0

    # ------------------------------------------------------------------ R3
    ctx.rule("R3", "training set = log rows nearest to the reference point: one ascending selector, clamped size", floor=6)
    _selector_rules(ctx, prog, R, sel)

    # ------------------------------------------------------------------ R4
    ctx.rule("R4", "acquisition = GP mean - sqrt(beta_t) * GP sd with the documented schedule", floor=3, policy="degrade")
    _lcb_rules(ctx, prog, R)

    # ------------------------------------------------------------------ R6
    ctx.rule("R6", "the log's high-water mark seen by the selector advances with every recorded row, bounded only by the live capacity", floor=2)
    from .c12 import high_water_rule

    high_water_rule(ctx, prog, R)

    # ------------------------------------------------------------------ R7
    ctx.rule("R7", "every incumbent move leaves the re-centring request (reset_gp) set when the step returns", floor=2)
    _recentre_rule(ctx, prog, R)

    # ------------------------------------------------------------------ R8
    ctx.rule("R8", "the surrogate a step works with is selected around the incumbent; a temporary surrogate around the point it is evaluated at", floor=3)
    _centre_rule(ctx, prog, R)

    ctx.assume("gpyreg's s2 is a noise variance (read in the installed gpyreg sources)")
    ctx.assume("np.argsort sorts ascending")


def _sink(ctx, fn, node, what, tags):
    if tags is None:
        return
    if "VAR" in tags:
        ctx.ok(fn, node, what + "  [VAR]")
    elif "SD" in tags:
        ctx.fail(fn, node, "a standard deviation reaches a GP noise-variance (s2) sink unsquared", construct=what)
    else:
        ctx.fail(fn, node, "the unit of the value reaching a GP noise-variance (s2) sink cannot be established as 'logged SD squared'", construct=what)


class _MovePolicy(BasePolicy):
    """must-facts: NM on ``$nm`` = the incumbent has not moved in this call; MI on a boolean (local flag or
    self.reset_gp) = 'moved implies this boolean is true'."""

    row_select_preserves = False

    def __init__(self, prog, fn, upd, flag_attr, rebound=()):
        self.prog, self.fn, self.upd, self.flag_attr = prog, fn, upd, flag_attr
        self.rebound = set(rebound)  # returned locals that every caller rebinds its surrogate to

    def initial(self, flow):
        return {"$nm": frozenset({"NM"}), self.flag_attr: frozenset({"MI"})}

    def default_tags(self, path):
        return frozenset({"MI"}) if path == self.flag_attr else frozenset()

    def eval(self, expr, state, flow):
        if isinstance(expr, ast.Constant) and isinstance(expr.value, bool):
            if expr.value:
                return frozenset({"B:True", "MI"})
            return frozenset({"B:False"}) | (frozenset({"MI"}) if "NM" in state.get("$nm", frozenset()) else frozenset())
        if isinstance(expr, ast.Name) or canon(expr) == self.flag_attr:
            return state.get(canon(expr), frozenset())
        if isinstance(expr, ast.BoolOp) and isinstance(expr.op, ast.Or):
            out = frozenset()
            for v in expr.values:
                out |= self.eval(v, state, flow) & {"MI"}
            return out
        # any value computed while the incumbent has not moved satisfies 'moved implies true' vacuously
        return frozenset({"MI"}) if "NM" in state.get("$nm", frozenset()) else frozenset()

    def refine(self, test, polarity, state, flow):
        # on the true edge of ``if flag:`` the flag is true
        for c, pol in conjuncts(test, polarity):
            if isinstance(c, ast.Name) and pol:
                state[c.id] = state.get(c.id, frozenset()) | {"B:True", "MI"}
        return state

    def eval_unpack(self, value, i, n, state, flow):
        # gp, flag = local_gp_fitting(gp_copy, <reference point>, ...): a surrogate centred on the reference point
        if isinstance(value, ast.Call) and canon(value.func).split(".")[-1] == "local_gp_fitting" and i == 0 and len(value.args) >= 2:
            return frozenset({"FIT:" + canon(value.args[1])})
        return frozenset()

    def after_stmt(self, node, state, flow):
        s = node.stmt
        if node.kind == "stmt" and isinstance(s, ast.Assign) and len(s.targets) == 1 and isinstance(s.targets[0], ast.Name) and s.targets[0].id in self.rebound:
            fit = {t[4:] for t in state.get(s.targets[0].id, frozenset()) if t.startswith("FIT:")}
            moved = {t[4:] for t in state.get("$moved", frozenset()) if t.startswith("ARG:")}
            if fit & moved:
                # the surrogate handed back to the caller was re-selected around the moved incumbent
                state[self.flag_attr] = state.get(self.flag_attr, frozenset()) | {"MI"}
        exprs = [s] if node.kind == "stmt" and s is not None else ([node.expr] if node.kind == "test" and node.expr is not None else [])
        for e in exprs:
            for c in ast.walk(e):
                if isinstance(c, ast.Call) and any(t is self.upd for t in self.prog.resolve_call(self.fn, c)):
                    state["$nm"] = frozenset()
                    state["$moved"] = frozenset({"ARG:" + canon(c.args[0])}) if c.args else frozenset()
                    for k in list(state):
                        if k != "$nm" and "B:True" not in state[k]:
                            state[k] = state[k] - {"MI"}
                    if self.flag_attr not in state:
                        state[self.flag_attr] = frozenset()
        return state


def _rebound_returns(prog, R, fn):
    """names in ``fn``'s return tuple that every call site assigns back to the variable it passed for the same-named
    parameter (``..., gp = self._search_step_(gp)``)."""
    rets = [n for n in ast.walk(fn.node) if isinstance(n, ast.Return) and isinstance(n.value, ast.Tuple)]
    if not rets:
        return set()
    out = None
    for r in rets:
        names = {i: e.id for i, e in enumerate(r.value.elts) if isinstance(e, ast.Name) and e.id in fn.params}
        ok = set()
        sites = prog.callers_of(fn)
        for i, nm in names.items():
            good = bool(sites)
            for caller, call in sites:
                par = prog.parent(call)
                b = bind_args(fn, call)
                a = b.get(nm)
                tgt = par.targets[0] if isinstance(par, ast.Assign) and par.value is call and len(par.targets) == 1 else None
                if not (isinstance(tgt, ast.Tuple) and len(tgt.elts) == len(r.value.elts) and a is not None and canon(tgt.elts[i]) == canon(a)):
                    good = False
            if good:
                ok.add(nm)
        out = ok if out is None else out & ok
    return out or set()


def _centre_rule(ctx, prog, R):
    """``g, flag = local_gp_fitting(g0, centre, ...)``: when the result replaces the surrogate the step was handed (its gp
    parameter - the GP that scores the search candidates and the poll points), the centre is the incumbent slot self.u; when
    it is a temporary copy (prediction at a new point, re-estimation of a recorded iterate), the centre is the very point at
    which that temporary surrogate is then asked to predict."""
    from .common import deref_canon as _dcc

    lfit = prog.try_function("local_gp_fitting")
    if lfit is None:
        ctx.undecided("no function named local_gp_fitting")
        return
    cpar = [p for p in lfit.params][1] if len(lfit.params) > 1 else None
    for fn in R.bads.methods.values():
        for c, tg in prog.calls_in(fn):
            if lfit not in tg or prog.function_of(c) is not fn:
                continue
            b = bind_args(lfit, c)
            centre = b.get(cpar)
            st = prog.parent(c)
            tgt = st.targets[0] if isinstance(st, ast.Assign) and len(st.targets) == 1 else None
            tname = tgt.elts[0].id if isinstance(tgt, ast.Tuple) and tgt.elts and isinstance(tgt.elts[0], ast.Name) else (tgt.id if isinstance(tgt, ast.Name) else None)
            if centre is None or tname is None:
                ctx.undecided(f"call of local_gp_fitting in {fn.short} is not of the form g, flag = local_gp_fitting(g0, centre, ..)")
                continue
            cc = _dcc(prog, fn, centre)
            # names the result is copied to (an inlined helper hands it back through a temporary)
            al = {tname}
            grew = True
            while grew:
                grew = False
                for t_, v_, s_, k_ in iter_stores(fn.node):
                    if isinstance(t_, ast.Name) and isinstance(v_, ast.Name) and v_.id in al and t_.id not in al and k_ == "assign":
                        al.add(t_.id)
                        grew = True
            moved_to = False
            if al & set(fn.params) and cc != "self.u":
                # ``gp = new_gp`` after the incumbent was moved to the very point new_gp was selected around
                cfg_ = cfg_of(fn)
                for t_, v_, s_, k_ in iter_stores(fn.node):
                    if isinstance(t_, ast.Name) and t_.id in fn.params and isinstance(v_, ast.Name) and v_.id in al:
                        sn_ = cfg_.node_of(s_)
                        for c2, tg2 in prog.calls_in(fn):
                            # the point argument of the incumbent update, positional or by keyword
                            pt_ = None
                            if R.incumbent_update in tg2:
                                try:
                                    b2_ = bind_args(R.incumbent_update, c2)
                                    pn_ = [p_ for p_ in R.incumbent_update.params if p_ != "self"]
                                    pt_ = b2_.get(pn_[0]) if pn_ else None
                                except Exception:
                                    pt_ = c2.args[0] if c2.args else None
                            if pt_ is not None and canon(pt_) == canon(centre):
                                cn_ = cfg_.node_of(c2)
                                if sn_ is not None and cn_ is not None and cfg_.dominates(cn_.id, sn_.id):
                                    moved_to = True
            if moved_to:
                ctx.ok(fn, c, f"{fn.short}: surrogate selected around {canon(centre)} replaces the working one only after the incumbent moved there")
            elif al & set(fn.params):
                ctx.check(cc == "self.u", fn, c, f"{fn.short}: working surrogate re-selected around self.u",
                          f"the surrogate that {fn.short} goes on working with is selected around '{cc}', not around the incumbent self.u: the training set is no longer the points nearest to the incumbent",
                          construct=f"local fit of {tname} centred at {cc[:50]}")
            else:
                preds = [canon(p_.args[0]) for p_ in ast.walk(fn.node) if isinstance(p_, ast.Call) and isinstance(p_.func, ast.Attribute) and p_.func.attr == "predict"
                         and isinstance(p_.func.value, ast.Name) and p_.func.value.id in al and p_.args]
                okp = any(canon(centre) in x or cc in x for x in preds)
                ctx.check(okp, fn, c, f"{fn.short}: temporary surrogate {tname} centred where it predicts ({canon(centre)})",
                          f"the temporary surrogate {tname} is selected around '{cc}' but asked to predict elsewhere ({preds[:2]})", construct=f"temporary fit {tname} centre {cc[:40]}")


def _recentre_rule(ctx, prog, R):
    """After the incumbent has moved the training set must be re-selected around the new incumbent: the step that moved it
    returns with ``self.reset_gp`` true on every path through the move (a boolean local that is true on exactly the moving
    branches is accepted)."""
    upd = R.incumbent_update
    # the re-centring flag: the BADS attribute tested together with the refit decision before local_gp_fitting
    flag_attr = None
    for fn in (R.search_step, R.poll_step):
        for n in ast.walk(fn.node):
            if isinstance(n, ast.If) and any(isinstance(c, ast.Call) and canon(c.func).endswith("local_gp_fitting") for b in n.body for c in ast.walk(b)):
                for c, pol in conjuncts(n.test, False):
                    if not pol and isinstance(c, ast.Attribute) and isinstance(c.value, ast.Name) and c.value.id == "self":
                        flag_attr = canon(c)
    if flag_attr is None:
        ctx.undecided("no boolean attribute gates the local GP re-selection in the search / poll step")
        return
    callers = sorted({f for f, _c in prog.callers_of(upd) if f.cls is R.bads}, key=lambda f: f.qualname)
    for fn in callers:
        fl = TagFlow(prog, fn, _MovePolicy(prog, fn, upd, flag_attr, _rebound_returns(prog, R, fn)))
        st = fl.state_at_exit()
        if st is None:
            continue
        tags = st.get(flag_attr, frozenset({"MI"}))
        if "MI" in tags:
            ctx.ok(fn, fn.node, f"{flag_attr} is true at return on every path through an incumbent move")
        else:
            # name the offending move
            calls = [c for c, t in prog.calls_in(fn) if any(x is upd for x in t)]
            ctx.fail(fn, calls[0] if calls else fn.node, f"on some path through an incumbent move the step returns without setting {flag_attr}: the next surrogate keeps a training set selected around the previous incumbent", construct=f"{flag_attr} not set after an incumbent move")


def _selector_rules(ctx, prog, R, sel: FunctionInfo):
    rets = [n for n in ast.walk(sel.node) if isinstance(n, ast.Return) and isinstance(n.value, ast.Tuple) and len(n.value.elts) == 3]
    ret = rets[-1]
    elts = ret.value.elts

    def resolve(e):
        """follow a local name to its (single non-None) definition."""
        if isinstance(e, ast.Name):
            defs = [d for d in reaching_assignments(prog, sel, e.id, ret) if not (isinstance(d, ast.Constant) and d.value is None)]
            if len(defs) == 1:
                return defs[0]
        return e

    sels, bases = [], []
    for e in elts:
        e = resolve(e)
        sq = match_square(e)
        if sq is not None:
            e = sq
        if isinstance(e, ast.Subscript):
            sels.append(canon(e.slice))
            bases.append(e.value)
        else:
            sels.append(None)
            bases.append(None)
    if None in sels or len(set(sels)) != 1:
        ctx.fail(sel, ret, f"the three training arrays are not indexed by one selector (selectors: {sels})", construct="selector set " + "|".join(str(s) for s in sels))
        return
    ctx.ok(sel, ret, f"U, Y, S all indexed by {sels[0]}")
    sl = resolve(elts[0]).slice
    if isinstance(sl, ast.Name):
        # the selector held in a local: nearest = order[0:n]
        dd_ = reaching_assignments(prog, sel, sl.id, ret)
        if len(dd_) == 1:
            sl = dd_[0]
    if not (isinstance(sl, ast.Subscript) and isinstance(sl.slice, ast.Slice)):
        ctx.fail(sel, ret, "selector is not order[0:n]")
        return
    order, low, up = sl.value, sl.slice.lower, sl.slice.upper
    ctx.check(low is None or const_num(low) == 0, sel, ret, "selector slice starts at 0 (nearest first)", "selector slice does not start at the nearest point", construct=f"slice start {canon(low)}")
    # order = argsort(dist), ascending
    odefs = reaching_assignments(prog, sel, order.id, ret) if isinstance(order, ast.Name) else [order]
    good = len(odefs) == 1 and call_name(odefs[0]) == "np.argsort" and odefs[0].args
    dist_expr = odefs[0].args[0] if good else None
    if good and isinstance(dist_expr, ast.UnaryOp):
        good = False
    ctx.check(bool(good), sel, odefs[0] if odefs else ret, "order = np.argsort(dist) ascending", "training points are not ordered by ascending distance (argsort of the distance, no negation / reversal)",
              construct=f"order = {canon(odefs[0]) if odefs else '?'}")
    # dist = udist(U, u, len_scale ...) reduced by min over references
    if good and isinstance(dist_expr, ast.Name):
        ddefs = reaching_assignments(prog, sel, dist_expr.id, odefs[0])
        roots = []
        for d in ddefs:
            calls = [n for n in ast.walk(d) if isinstance(n, ast.Call) and any(isinstance(f, FunctionInfo) for f in prog.resolve_call(sel, n))]
            roots += calls
        ok = False
        for c in roots:
            args = [canon(a) for a in c.args]
            if len(args) >= 3:
                u_param = [p for p in sel.params if p not in ("function_logger", "gp", "options", "optim_state")]
                first_is_U = bases[0] is not None and args[0] == canon(bases[0])
                second_is_ref = bool(u_param) and args[1] == u_param[0]
                third_is_ls = "len_scale" in args[2]
                ok = first_is_U and second_is_ref and third_is_ls
                ctx.check(ok, sel, c, f"dist = {canon(c.func)}({args[0]}, {args[1]}, {args[2]}, ..)", "distance is not computed between the logged rows and the reference point in the GP's length-scaled metric",
                          construct=f"{canon(c.func)}({', '.join(args[:3])})")
        if not roots:
            ctx.missing(sel, "distance computation feeding the ordering")
        # reductions of dist must be min (nearest reference), not max
        for d in ddefs:
            for n in ast.walk(d):
                if isinstance(n, ast.Call) and call_name(n) in ("np.max", "np.amax", "np.mean"):
                    ctx.fail(sel, n, "distance to several reference points is reduced by something other than the minimum")
    # U and Y are prefixes of the log of the same length
    pref = []
    for b, arr in zip(bases[:2], ("LOG.X", "LOG.Y")):
        d = resolve(b) if b is not None else None
        inner = d
        while isinstance(inner, ast.Call) and isinstance(inner.func, ast.Attribute) and inner.func.attr == "copy":
            inner = inner.func.value
        if isinstance(inner, ast.Subscript) and canon(inner.value) == arr and isinstance(inner.slice, ast.Slice):
            pref.append((canon(inner.slice.lower) if inner.slice.lower else "0", canon(inner.slice.upper)))
        else:
            pref.append(None)
            ctx.fail(sel, ret, f"training {'inputs' if arr == 'LOG.X' else 'targets'} are not a prefix slice of the evaluation log array {arr}", construct=f"{arr} source {canon(d) if d is not None else '?'}")
    s_base = bases[2]
    if s_base is not None and canon(s_base) != "LOG.S":
        sd = resolve(s_base)
        inner = sd
        if not (isinstance(inner, ast.Subscript) and canon(inner.value) == "LOG.S") and canon(sd) != "LOG.S":
            ctx.fail(sel, ret, "training noise is not taken from the log's S array", construct=f"S source {canon(sd)}")
    if None not in pref:
        ctx.check(pref[0] == pref[1], sel, ret, f"U and Y are the same log prefix {pref[0]}", f"training inputs and targets are different slices of the log ({pref})", construct=f"prefixes {pref}")
    # size clamps
    if isinstance(up, ast.Name):
        chain = []
        for t, v, s, k in iter_stores(sel.node):
            if isinstance(t, ast.Name) and t.id == up.id:
                chain.append((s._ord if hasattr(s, "_ord") else s.lineno, v, s))
        chain.sort(key=lambda x: x[0])
        txt = [canon(v) for _l, v, _s in chain]
        has_max_clamp = any(call_name(v) in ("np.minimum", "min") and "OPT[n_train_max]" in canon(v) for _l, v, _s in chain)
        has_min_clamp = any(call_name(v) in ("np.max", "np.maximum", "max") and "OPT[n_train_min]" in canon(v) for _l, v, _s in chain)
        last = chain[-1][1] if chain else None
        from .common import deref_canon as _dc15

        # the number of logged rows may sit in a local (n_logged = X_max_idx + 1): compare the expanded spelling of the
        # other operand of the minimum
        last_txt = canon(last) if last is not None else ""
        if last is not None and call_name(last) in ("np.minimum", "min"):
            last_txt += " " + " ".join(_dc15(prog, sel, a_) for a_ in last.args if not (isinstance(a_, ast.Name) and a_.id == up.id))
        last_ok = last is not None and call_name(last) in ("np.minimum", "min") and up.id in {n.id for n in ast.walk(last) if isinstance(n, ast.Name)} and (
            "LOG.X_max_idx + 1" in last_txt or "(1 + LOG.X_max_idx)" in last_txt or "LOG.Xn" in last_txt or "len(" in last_txt or ".shape[0]" in last_txt
        )
        if not (has_max_clamp and has_min_clamp and last_ok):
            # the clamps may be written as a case distinction: the size only depends on the *order* of five integers (points
            # within the radius W, n_train_max, n_train_min, buffer_ntrain, logged rows), so it is evaluated for all of
            # {0..3}^5 with a small interpreter over min / max / comparisons and compared with
            # min(max(n_min, n_max - buffer, min(n_max, W)), logged)
            verdict = _size_by_cases(prog, sel, up.id)
            if verdict is True:
                ctx.ok(sel, chain[-1][2] if chain else ret, "training-set size equals min(max(n_min, n_max - buffer, min(n_max, W)), logged) for every ordering of its inputs")
                return
            if isinstance(verdict, tuple):
                env_, got_, want_ = verdict
                ctx.fail(sel, chain[0][2] if chain else ret, f"the training-set size is not min(max(n_train_min, n_train_max - buffer, min(n_train_max, W)), logged rows): for {env_} it is {got_}, expected {want_} "
                         + ("(the configured maximum is exceeded)" if got_ > want_ else "(fewer points than configured)"), construct="training-set size by cases")
                return
        ctx.check(has_max_clamp, sel, chain[0][2] if chain else ret, "n <= n_train_max clamp present", "training-set size is not clamped from above by n_train_max", construct="n_train_max clamp")
        ctx.check(has_min_clamp, sel, chain[0][2] if chain else ret, "n >= n_train_min clamp present", "training-set size is not clamped from below by n_train_min", construct="n_train_min clamp")
        ctx.check(bool(last_ok), sel, chain[-1][2] if chain else ret, "final clamp by the number of logged rows", "the last definition of the training-set size is not a minimum with the number of logged rows", construct=f"final n = {canon(last) if last is not None else '?'}")
        # order of clamps: max-clamp before min-clamp before final
        if has_max_clamp and has_min_clamp and last_ok:
            imax = next(i for i, (_l, v, _s) in enumerate(chain) if call_name(v) in ("np.minimum", "min") and "OPT[n_train_max]" in canon(v))
            imin = next(i for i, (_l, v, _s) in enumerate(chain) if call_name(v) in ("np.max", "np.maximum", "max") and "OPT[n_train_min]" in canon(v))
            ctx.check(imax <= imin < len(chain) - 1 or imax < imin, sel, chain[imin][2], "clamp order max -> min -> available", "size clamps are applied in an order that lets the maximum override the configured minimum")
    else:
        ctx.undecided("selector upper bound is not a local name")


def _size_by_cases(prog, sel, up_name):
    """-> True (equal to the reference for all orderings), (env, got, want) for a counterexample, None if the code uses
    something the little interpreter does not know."""
    import itertools

    class _U(Exception):
        pass

    def ev(e, env):
        if isinstance(e, ast.Constant) and isinstance(e.value, (int, float)) and not isinstance(e.value, bool):
            return e.value
        c = canon(e)
        if c == "OPT[n_train_max]":
            return env["NMAX"]
        if c == "OPT[n_train_min]":
            return env["NMIN"]
        if c == "OPT[buffer_ntrain]":
            return env["BUF"]
        if c == "LOG.X_max_idx":
            return env["NAV"] - 1
        if isinstance(e, ast.Name):
            if e.id in env:
                return env[e.id]
            raise _U(e.id)
        if isinstance(e, ast.Call) and call_name(e) in ("np.sum", "sum") and e.args and any(isinstance(n, ast.Compare) for n in ast.walk(e.args[0])):
            return env["W"]
        if isinstance(e, ast.Call) and isinstance(e.func, ast.Attribute) and e.func.attr == "sum" and any(isinstance(n, ast.Compare) for n in ast.walk(e.func.value)):
            return env["W"]
        if isinstance(e, ast.Call) and call_name(e) in ("np.minimum", "min", "np.maximum", "max", "np.max", "np.min", "np.amax", "np.amin"):
            args = e.args
            if len(args) == 1 and isinstance(args[0], (ast.List, ast.Tuple)):
                args = args[0].elts
            vals = [ev(a, env) for a in args]
            if len(vals) < 2:
                raise _U(c)
            return min(vals) if call_name(e) in ("np.minimum", "min", "np.min", "np.amin") else max(vals)
        if isinstance(e, ast.Call) and call_name(e) in ("int", "np.int64", "np.asarray") and len(e.args) == 1:
            return ev(e.args[0], env)
        if isinstance(e, ast.Call) and call_name(e) in ("np.count_nonzero",) and e.args and any(isinstance(n, ast.Compare) for n in ast.walk(e.args[0])):
            return env["W"]
        if isinstance(e, ast.Call) and call_name(e) == "np.clip" and len(e.args) == 3 and not e.keywords:
            v, lo, hi = (ev(a, env) for a in e.args)
            return min(max(v, lo), hi)  # numpy: minimum(maximum(v, lo), hi) - the upper bound wins when lo > hi
        if isinstance(e, ast.BinOp) and isinstance(e.op, (ast.Add, ast.Sub)):
            l, r = ev(e.left, env), ev(e.right, env)
            return l + r if isinstance(e.op, ast.Add) else l - r
        if isinstance(e, ast.Compare) and len(e.ops) == 1:
            l, r = ev(e.left, env), ev(e.comparators[0], env)
            op = e.ops[0]
            return {ast.Lt: l < r, ast.LtE: l <= r, ast.Gt: l > r, ast.GtE: l >= r, ast.Eq: l == r, ast.NotEq: l != r}[type(op)]
        if isinstance(e, ast.BoolOp):
            vals = [ev(v, env) for v in e.values]
            return all(vals) if isinstance(e.op, ast.And) else any(vals)
        if isinstance(e, ast.UnaryOp) and isinstance(e.op, ast.Not):
            return not ev(e.operand, env)
        raise _U(c)

    def run(stmts, env):
        for st in stmts:
            if isinstance(st, ast.Assign) and len(st.targets) == 1 and isinstance(st.targets[0], ast.Name):
                try:
                    env[st.targets[0].id] = ev(st.value, env)
                except _U:
                    env.pop(st.targets[0].id, None)
            elif isinstance(st, ast.If):
                touches = any(isinstance(n, ast.Name) and isinstance(n.ctx, ast.Store) for b in (st.body, st.orelse) for s_ in b for n in ast.walk(s_))
                try:
                    t = ev(st.test, env)
                except _U:
                    if touches and any(isinstance(n, ast.Name) and n.id == up_name and isinstance(n.ctx, ast.Store) for b in (st.body, st.orelse) for s_ in b for n in ast.walk(s_)):
                        raise
                    continue
                run(st.body if t else st.orelse, env)
            elif isinstance(st, ast.Return):
                break
        return env

    body = [b for b in sel.node.body]
    try:
        for W, NMAX, NMIN, BUF, NAV in itertools.product(range(4), range(4), range(4), range(4), range(1, 5)):
            if W > NAV:
                continue  # the points within the radius are among the logged ones
            env = {"W": W, "NMAX": NMAX, "NMIN": NMIN, "BUF": BUF, "NAV": NAV}
            run(body, env)
            if up_name not in env:
                return None
            want = min(max(NMIN, NMAX - BUF, min(NMAX, W)), NAV)
            if env[up_name] != want:
                return ({"within radius": W, "n_train_max": NMAX, "n_train_min": NMIN, "buffer_ntrain": BUF, "logged": NAV}, env[up_name], want)
    except _U:
        return None
    return True


def _lcb_rules(ctx, prog, R):
    acq = prog.try_function("acq_fcn_lcb")
    if acq is None:
        ctx.missing("pybads/acquisition_functions", "LCB acquisition function acq_fcn_lcb")
        return
    params = [p for p in acq.params]
    try:
        tr = Translator(positive=["n_vars", "func_count"])
        body = acq.node.body
        stmts = []
        default_blk = None
        for s in body:
            if isinstance(s, ast.If) and canon(s.test) in ("(sqrt_beta is None)",):
                default_blk = s.body
                stmts += s.body
            elif isinstance(s, (ast.Assign, ast.AugAssign)):
                stmts.append(s)
        # predict outputs are symbols
        run = []
        for s in stmts:
            if isinstance(s, ast.Assign) and isinstance(s.value, ast.Call) and isinstance(s.value.func, ast.Attribute) and s.value.func.attr == "predict":
                t = s.targets[0]
                if isinstance(t, ast.Tuple) and len(t.elts) == 2:
                    tr.env[canon(t.elts[0])] = tr.sym("MU")
                    tr.env[canon(t.elts[1])] = sp.Symbol("VARP", positive=True)
                    xi = canon(s.value.args[0]) if s.value.args else "?"
                    ctx.check(xi == params[0], acq, s, "GP predicts at the candidate rows", "GP prediction is not evaluated at the candidate rows handed in")
                continue
            if isinstance(s, ast.Assign) and isinstance(s.value, ast.Attribute) and s.value.attr == "shape":
                continue
            if isinstance(s, ast.Assign) and isinstance(s.value, ast.Subscript) and isinstance(s.value.value, ast.Attribute) and s.value.value.attr == "shape":
                tr.env[canon(s.targets[0])] = tr.sym("n_vars") if const_num(s.value.slice) == 1 else tr.sym("n_rows")
                continue
            run.append(s)
        tr.run(run)
        rets = [n for n in ast.walk(acq.node) if isinstance(n, ast.Return)]
        rv = rets[-1].value
        z = tr.tr(rv.elts[0]) if isinstance(rv, ast.Tuple) else tr.tr(rv)
        sb = tr.env.get("sqrt_beta")
        MU, VARP = tr.sym("MU"), sp.Symbol("VARP", positive=True)
        fc = tr.sym(params[1])
        D = tr.sym("n_vars")
        if sb is None:
            ctx.undecided("sqrt_beta default not captured")
            return
        ctx.check(is_zero(z - (MU - sb * sp.sqrt(VARP))), acq, rets[-1], "z = mean - sqrt_beta*sqrt(var)", "acquisition value is not GP mean minus sqrt(beta) times GP standard deviation", construct="LCB form")
        ref = 2 * sp.Rational(1, 5) * sp.log(D * (fc + 1) ** 2 * sp.pi**2 / (6 * sp.Rational(1, 10)))
        ctx.check(is_zero(sp.simplify(sb**2 - ref)), acq, default_blk[0] if default_blk else acq.node, "sqrt_beta^2 = 2 nu log(D t^2 pi^2/(6 delta)), t = count+1, nu=0.2, delta=0.1",
                  "default beta_t schedule differs from the documented 2*nu*log(D*t^2*pi^2/(6*delta)) with t = func_count + 1, nu = 0.2, delta = 0.1", construct="beta schedule")
    except Untranslatable as e:
        ctx.undecided(f"LCB body uses a construct the term translator does not know ({e})")
    except Exception as e:  # sympy trouble must not alarm
        ctx.undecided(f"LCB term check failed internally ({e.__class__.__name__})")
    # callers pass the logger's evaluation count
    n = 0
    for caller, call in prog.callers_of(acq):
        b = bind_args(acq, call)
        a = b.get(params[1])
        n += 1
        ctx.check(a is not None and canon(a) in ("LOG.func_count",), caller, call, "t is the logger's evaluation count", "acquisition schedule is not driven by the true evaluation count", construct=f"count argument {canon(a)}")
