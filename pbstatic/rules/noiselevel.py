"""Finite-domain evaluation of the start-up code that turns the options ``uncertainty_handling`` / ``specify_target_noise``
into the noise level (0 deterministic, 1 unknown noise, 2 user-supplied noise).

The two options range over {None, False, True}; the statements of the state initialiser that read or write them, or store
the level, are interpreted for all nine combinations (tests are built from ``is None`` / ``is not None`` / ``==`` /
truthiness / ``not`` / ``and`` / ``or`` over the two options and locals bound to them).  Required: without a request for
noise handling (both options falsy) the level is 0; ``uncertainty_handling`` true alone gives 1; ``specify_target_noise``
true gives 2 or a raised error.  No code of the repository is executed."""
from __future__ import annotations

import ast
from typing import Dict, Optional

from ..terms import canon, const_num, state_key

UH, SP, LV = "OPT[uncertainty_handling]", "OPT[specify_target_noise]", "OS[uncertainty_handling_level]"


class _Undecided(Exception):
    pass


class _Raised(Exception):
    pass


def _key(e) -> Optional[str]:
    sk = state_key(e)
    if sk:
        return f"{sk[0]}[{sk[1]}]"
    # options.get("k")
    if isinstance(e, ast.Call) and isinstance(e.func, ast.Attribute) and e.func.attr == "get" and len(e.args) == 1 and isinstance(e.args[0], ast.Constant):
        base = canon(e.func.value)
        if base in ("OPT", "self.options", "options"):
            return f"OPT[{e.args[0].value}]"
        if base in ("OS", "self.optim_state", "optim_state"):
            return f"OS[{e.args[0].value}]"
    return None


def _ev(e, env: Dict[str, object]):
    if isinstance(e, ast.Constant):
        return e.value
    k = _key(e)
    if k is not None:
        if k in env:
            return env[k]
        raise _Undecided(k)
    if isinstance(e, ast.Name):
        if e.id in env:
            return env[e.id]
        raise _Undecided(e.id)
    if isinstance(e, ast.UnaryOp) and isinstance(e.op, ast.Not):
        return not _ev(e.operand, env)
    if isinstance(e, ast.BoolOp):
        val = None
        for v in e.values:
            val = _ev(v, env)
            if isinstance(e.op, ast.And) and not val:
                return val
            if isinstance(e.op, ast.Or) and val:
                return val
        return val
    if isinstance(e, ast.Compare) and len(e.ops) == 1:
        l, r = _ev(e.left, env), _ev(e.comparators[0], env)
        op = e.ops[0]
        if isinstance(op, ast.Is):
            return l is r
        if isinstance(op, ast.IsNot):
            return l is not r
        if isinstance(op, ast.Eq):
            return l == r
        if isinstance(op, ast.NotEq):
            return l != r
    if isinstance(e, ast.IfExp):
        return _ev(e.body, env) if _ev(e.test, env) else _ev(e.orelse, env)
    if isinstance(e, ast.Call) and isinstance(e.func, ast.Name) and e.func.id == "bool" and len(e.args) == 1:
        return bool(_ev(e.args[0], env))
    raise _Undecided(canon(e)[:40])


def _mentions(node) -> bool:
    for n in ast.walk(node):
        k = _key(n) if isinstance(n, (ast.Subscript, ast.Call)) else None
        if k in (UH, SP, LV):
            return True
    return False


def _run(stmts, env, tracked):
    for st in stmts:
        relevant = _mentions(st) or any(isinstance(n, ast.Name) and n.id in tracked for n in ast.walk(st))
        if not relevant:
            continue
        if isinstance(st, ast.Assign) and len(st.targets) == 1:
            t = st.targets[0]
            k = _key(t) if isinstance(t, ast.Subscript) else None
            if k in (UH, SP, LV):
                env[k] = _ev(st.value, env)
                continue
            if isinstance(t, ast.Name):
                try:
                    env[t.id] = _ev(st.value, env)
                    tracked.add(t.id)
                except _Undecided:
                    env.pop(t.id, None)
                continue
            continue
        if isinstance(st, ast.If):
            # only the tests that decide something about the tracked quantities need to be evaluated
            inner = any(_mentions(x) or isinstance(x, ast.Raise) for b in (st.body, st.orelse) for s_ in b for x in ast.walk(s_))
            try:
                val = _ev(st.test, env)
            except _Undecided:
                if any(_mentions(s_) and any(isinstance(x, (ast.Assign,)) and (_key(x.targets[0]) in (UH, SP, LV) if isinstance(x.targets[0], ast.Subscript) else False) for x in ast.walk(s_)) for b in (st.body, st.orelse) for s_ in b):
                    raise
                continue
            if not inner:
                continue
            _run(st.body if val else st.orelse, env, tracked)
            continue
        if isinstance(st, ast.Raise):
            raise _Raised()
        if isinstance(st, (ast.With, ast.Try)):
            _run(st.body, env, tracked)
            continue
    return env


def noise_level_table_rule(ctx, prog, R, rule_id="R6"):
    fn = R.init_optim_state
    rows = []
    try:
        for sp in (None, False, True):
            for uh in (None, False, True):
                env = {UH: uh, SP: sp}
                try:
                    _run(fn.node.body, env, set())
                    rows.append((sp, uh, env.get(LV, "unset")))
                except _Raised:
                    rows.append((sp, uh, "raise"))
    except _Undecided as e:
        ctx.undecided(f"the noise-level code reads something outside the two options ({e})")
        ctx.rules[rule_id].floor = 0
        return
    bad = []
    for sp, uh, lv in rows:
        if not sp and not uh:
            want = (0,)
        elif not sp and uh:
            want = (1,)
        else:
            want = (2, "raise")
        if lv not in want:
            bad.append((sp, uh, lv, want))
    anchor = next((s for s in ast.walk(fn.node) if isinstance(s, ast.Assign) and isinstance(s.targets[0], ast.Subscript) and _key(s.targets[0]) == LV), fn.node)
    if bad:
        sp, uh, lv, want = bad[0]
        ctx.fail(fn, anchor, f"with specify_target_noise={sp} and uncertainty_handling={uh} the start-up stores noise level {lv} (expected {' or '.join(map(str, want))}): "
                 + ("a target declared noise-free is treated as stochastic (fsd is no longer 0, target_type 'stochastic', final re-sampling)" if lv != 0 and want == (0,) else "the noise mode does not follow the user's options"),
                 construct=f"noise level table ({sp}, {uh}) -> {lv}")
    else:
        ctx.ok(fn, anchor, "noise level table over {None, False, True}^2: " + ", ".join(f"({sp},{uh})->{lv}" for sp, uh, lv in rows))
