"""Coherence of the mesh-size slots with their exponents (C13-R5, C14-R6, C18-R6).

The optimizer keeps each mesh size twice (``self.mesh_size`` / ``OS[mesh_size]``,
``self.search_mesh_size`` / ``OS[search_mesh_size]``) next to the integer exponent
it is derived from (``self.mesh_size_integer`` / ``OS[search_size_integer]``).  A
slot is *coherent* at a program point when, on every path reaching the point, its
last store was ``multiplier ** exponent`` (or a copy of a coherent slot / local)
and the exponent has not been stored since.

Forward must-dataflow (``TagFlow``) over every BADS method reachable from
``optimize``; method calls are applied through gen/kill summaries (two runs of the
callee: all slots coherent / none coherent on entry); the entry state of
``optimize`` is the exit state of ``__init__``; the entry state of every other
method is the meet of the states at its call sites.  Every *read* of a slot must
be coherent, except reads that are only recorded or displayed.

Two passes: (a) the search-triggered mesh expansion branch pruned when the shipped
default ``search_mesh_expand = 0`` makes it dead (tabled by C13-R1): all reads;
(b) the branch live: only reads that enter point geometry (an argument of a
module-level package function such as the direction generator or the grid
projection, or an operand of arithmetic).
"""
from __future__ import annotations

import ast
from typing import Dict, FrozenSet, List, Optional, Tuple

from ..flow import EMPTY, BasePolicy, TagFlow, path_of
from ..ini import Ini
from ..model import FunctionInfo
from ..roles import roles_of
from ..terms import call_name, canon, conjuncts

POLL_E = "self.mesh_size_integer"
SRCH_E = "OS[search_size_integer]"
SLOTS = {
    "self.mesh_size": POLL_E,
    "OS[mesh_size]": POLL_E,
    "self.search_mesh_size": SRCH_E,
    "OS[search_mesh_size]": SRCH_E,
}
MULT = ("OPT[poll_mesh_multiplier]", "float(OPT[poll_mesh_multiplier])")
DISPLAY_ATTRS = {"record", "format", "info", "debug", "warning", "error"}


def _pow(e):
    return frozenset({f"POW:{e}", f"WAS:{e}"})


def _plain(tags):
    return frozenset(t for t in tags if not t.startswith("CIF:"))


ALL_IN = {s: _pow(e) for s, e in SLOTS.items()}
NONE_IN = {s: EMPTY for s in SLOTS}


class _Analysis:
    def __init__(self, prog, prune_expand: bool):
        self.prog = prog
        self.R = roles_of(prog)
        self.prune = prune_expand
        self._summ: Dict[FunctionInfo, Optional[tuple]] = {}
        self._busy = set()
        self._writes: Dict[FunctionInfo, frozenset] = {}

    # ----------------------------------------------------------------
    def bads_callees(self, fn, node_exprs) -> List[FunctionInfo]:
        out = []
        for e in node_exprs:
            for c in ast.walk(e):
                if isinstance(c, ast.Call):
                    for t in self.prog.resolve_call(fn, c):
                        if isinstance(t, FunctionInfo) and t.cls is not None and t.cls is self.R.bads and t is not fn:
                            out.append(t)
        return out

    def writes(self, fn) -> frozenset:
        """exponents stored by ``fn`` or a BADS method it calls."""
        if fn in self._writes:
            return self._writes[fn]
        self._writes[fn] = frozenset()
        acc = set()
        for n in ast.walk(fn.node):
            if isinstance(n, (ast.Assign, ast.AugAssign, ast.AnnAssign)):
                tg = n.targets if isinstance(n, ast.Assign) else [n.target]
                for t in tg:
                    for x in (t.elts if isinstance(t, (ast.Tuple, ast.List)) else [t]):
                        p = path_of(x)
                        if p in (POLL_E, SRCH_E):
                            acc.add(p)
        for c, targets in self.prog.calls_in(fn):
            for t in targets:
                if isinstance(t, FunctionInfo) and t.cls is self.R.bads and t is not fn:
                    acc |= self.writes(t)
        self._writes[fn] = frozenset(acc)
        return self._writes[fn]

    def summary(self, fn) -> Optional[tuple]:
        """(out_all, out_none): slot tags at exit for the two extreme entries; None = identity (recursion / no exit)."""
        if fn in self._summ:
            return self._summ[fn]
        if fn in self._busy:
            return None
        self._busy.add(fn)
        try:
            outs = []
            for entry in (ALL_IN, NONE_IN):
                fl = TagFlow(self.prog, fn, MeshPolicy(self, fn, entry))
                st = fl.state_at_exit()
                if st is None:
                    outs = None
                    break
                outs.append({s: _plain(st.get(s, entry[s])) for s in SLOTS})
            self._summ[fn] = tuple(outs) if outs else None
        finally:
            self._busy.discard(fn)
        return self._summ[fn]


def _own_exprs(node) -> List[ast.AST]:
    s = node.stmt
    if node.kind == "test" and node.expr is not None:
        return [node.expr]
    if node.kind == "stmt" and s is not None:
        return [s]
    if node.kind == "for" and s is not None:
        return [s.iter]
    if node.kind == "with" and s is not None:
        return [it.context_expr for it in s.items]
    return []


class MeshPolicy(BasePolicy):
    row_select_preserves = False

    def __init__(self, A: _Analysis, fn: FunctionInfo, entry: Dict[str, FrozenSet[str]], contexts: Optional[dict] = None):
        self.A = A
        self.fn_ = fn
        self.entry = entry
        self.contexts = contexts  # (node id, callee) -> slot state at the call
        # local boolean flags (assigned a True/False literal): coherence may be conditional on one of them
        self.flags = sorted({t.id for n in ast.walk(fn.node) if isinstance(n, ast.Assign) and isinstance(n.value, ast.Constant) and isinstance(n.value.value, bool)
                             for t in n.targets if isinstance(t, ast.Name)})

    def initial(self, flow):
        return self._norm(dict(self.entry))

    def _norm(self, state):
        """coherent implies conditionally coherent (CIF:<exponent>:<flag> = 'coherent whenever <flag> is true')."""
        for sl, e in SLOTS.items():
            t = state.get(sl, EMPTY)
            if f"POW:{e}" in t and self.flags:
                state[sl] = t | {f"CIF:{e}:{f}" for f in self.flags}
        return state

    def default_tags(self, path):
        return self.entry.get(path, EMPTY)

    def eval(self, expr, state, flow):
        if expr is None:
            return EMPTY
        p = path_of(expr)
        if p is not None and p in state:
            return state[p] - {"MULT"} if p in SLOTS else state[p]
        if isinstance(expr, ast.BinOp) and isinstance(expr.op, ast.Pow):
            base_ok = canon(expr.left) in MULT or "MULT" in self.eval(expr.left, state, flow)
            e = path_of(expr.right)
            if base_ok and e in (POLL_E, SRCH_E):
                return _pow(e)
            if base_ok and isinstance(expr.right, ast.Name):
                # multiplier ** n with n a local: coherent with an exponent once n is known to equal it
                n_ = expr.right.id
                out = {f"POWN:{n_}"}
                for ex in (POLL_E, SRCH_E):
                    if f"EQ:{ex}" in state.get(n_, EMPTY):
                        out |= _pow(ex)
                return frozenset(out)
            return EMPTY
        if canon(expr) in MULT:
            return frozenset({"MULT"})
        if isinstance(expr, ast.Call) and call_name(expr) in ("float",) and expr.args and canon(expr.args[0]) in MULT:
            return frozenset({"MULT"})
        if isinstance(expr, ast.Constant) and isinstance(expr.value, bool):
            return frozenset({f"B:{expr.value}"})
        if isinstance(expr, ast.Call) and call_name(expr) in ("float", "np.float64") and len(expr.args) == 1:
            return self.eval(expr.args[0], state, flow)
        if isinstance(expr, ast.Call):
            # a BADS helper whose only statement-level result is ``return multiplier ** exponent``
            ts = [t for t in self.A.prog.resolve_call(self.fn_, expr) if isinstance(t, FunctionInfo) and t.cls is self.A.R.bads]
            if len(ts) == 1:
                rets = [n for n in ast.walk(ts[0].node) if isinstance(n, ast.Return) and n.value is not None]
                if len(rets) == 1 and not self.A.writes(ts[0]):
                    v = rets[0].value
                    if isinstance(v, ast.BinOp) and isinstance(v.op, ast.Pow) and canon(v.left) in MULT and path_of(v.right) in (POLL_E, SRCH_E):
                        return _pow(path_of(v.right))
        return EMPTY

    def eval_unpack(self, value, i, n, state, flow):
        if isinstance(value, (ast.Tuple, ast.List)) and len(value.elts) == n:
            return self.eval(value.elts[i], state, flow)
        return EMPTY

    def refine(self, test, polarity, state, flow):
        for c, pol in conjuncts(test, polarity):
            if self.A.prune and pol and canon(c) == "(0 < OPT[search_mesh_expand])":
                return None
            # a local boolean flag whose value is known on every path here
            if isinstance(c, ast.Name) and f"B:{not pol}" in state.get(c.id, EMPTY):
                return None
            if isinstance(c, ast.Name) and pol:
                for sl, e in SLOTS.items():
                    if f"CIF:{e}:{c.id}" in state.get(sl, EMPTY):
                        state[sl] = state[sl] | _pow(e)
        return state

    def after_stmt(self, node, state, flow):
        s = node.stmt
        if node.kind == "stmt" and isinstance(s, (ast.Assign, ast.AugAssign, ast.AnnAssign)):
            tg = s.targets if isinstance(s, ast.Assign) else [s.target]
            for t in tg:
                for x in (t.elts if isinstance(t, (ast.Tuple, ast.List)) else [t]):
                    p = path_of(x)
                    if p in (POLL_E, SRCH_E):
                        self._kill(state, p)
                        v_ = getattr(s, "value", None)
                        if isinstance(s, ast.Assign) and isinstance(v_, ast.Name):
                            # E = n: from here on n equals E, and every power of n computed before is the power of E
                            n_ = v_.id
                            state[n_] = state.get(n_, EMPTY) | {f"EQ:{p}"}
                            for k_ in list(state):
                                if f"POWN:{n_}" in state[k_]:
                                    state[k_] = state[k_] | _pow(p)
                    if isinstance(x, ast.Name) and not isinstance(x, ast.Attribute):
                        # a re-bound local no longer equals what was computed from it
                        for k_ in list(state):
                            if f"POWN:{x.id}" in state[k_] and k_ != x.id:
                                state[k_] = state[k_] - {f"POWN:{x.id}"}
                    if isinstance(x, ast.Name) and x.id in self.flags:
                        for sl in SLOTS:
                            state[sl] = frozenset(t for t in state.get(sl, EMPTY) if not (t.startswith("CIF:") and t.endswith(":" + x.id)))
        for callee in self.A.bads_callees(self.fn_, _own_exprs(node)):
            if self.contexts is not None:
                self.contexts[(node.id, callee)] = {sl: _plain(state.get(sl, self.entry[sl])) for sl in SLOTS}
            sm = self.A.summary(callee)
            if sm is not None:
                out_all, out_none = sm
                wr = self.A.writes(callee)
                for sl, ex in SLOTS.items():
                    old = state.get(sl, self.entry[sl])
                    cif = frozenset(t for t in old if t.startswith("CIF:")) if ex not in wr else EMPTY
                    state[sl] = (_plain(old) & out_all[sl]) | out_none[sl] | cif
            for e in self.A.writes(callee):
                # locals holding a power of the old exponent are stale now
                for k in list(state):
                    if k not in SLOTS and f"POW:{e}" in state[k]:
                        state[k] = state[k] - {f"POW:{e}"}
        return self._norm(state)

    def _kill(self, state, e):
        for k_ in list(state):
            if f"EQ:{e}" in state[k_]:
                state[k_] = state[k_] - {f"EQ:{e}"}
        tag = f"POW:{e}"
        # conditional coherence survives for a flag that is known to be false here
        dead = {f"CIF:{e}:{f}" for f in self.flags if "B:False" not in state.get(f, EMPTY)}
        for k in list(state):
            if tag in state[k] or (k in SLOTS and dead & state[k]):
                state[k] = state[k] - {tag} - dead
        for sl, ex in SLOTS.items():
            if ex == e and sl not in state:
                state[sl] = EMPTY


def _classify_read(prog, fn, node) -> str:
    """'display' (recorded / printed only), 'geometry' (enters points), 'other'."""
    par = prog.parent(node)
    if isinstance(par, ast.Assign) and par.value is node and all(path_of(t) is not None for t in par.targets):
        return "display"  # a plain copy: the target inherits the (in)coherence and is judged where it is read
    if isinstance(par, ast.Call) and node in par.args or isinstance(par, ast.keyword):
        call = par if isinstance(par, ast.Call) else prog.parent(par)
        if isinstance(call.func, ast.Attribute) and call.func.attr in DISPLAY_ATTRS:
            return "display"
        if call_name(call) == "print":
            return "display"
        targets = prog.resolve_call(fn, call)
        if targets and all(isinstance(t, FunctionInfo) and t.cls is None for t in targets):
            return "geometry"
        return "other"
    cur = node
    for a in prog.ancestors(node):
        if isinstance(a, ast.stmt):
            break
        if isinstance(a, ast.BinOp):
            return "geometry"
        if isinstance(a, ast.Compare):
            return "other"
        cur = a
    return "other"


def _run(prog, prune: bool):
    A = _Analysis(prog, prune)
    R = A.R
    init = R.bads.find_method("__init__")
    entry: Dict[FunctionInfo, Dict[str, FrozenSet[str]]] = {}
    if init is not None:
        fl = TagFlow(prog, init, MeshPolicy(A, init, NONE_IN))
        st = fl.state_at_exit() or {}
        entry[R.optimize] = {s: _plain(st.get(s, EMPTY)) for s in SLOTS}
    else:
        entry[R.optimize] = dict(NONE_IN)
    flows: Dict[FunctionInfo, TagFlow] = {}
    work = [R.optimize]
    rounds = 0
    while work:
        rounds += 1
        if rounds > 200:
            break
        fn = work.pop(0)
        ctxs: dict = {}
        flows[fn] = TagFlow(prog, fn, MeshPolicy(A, fn, entry[fn], ctxs))
        per_callee: Dict[FunctionInfo, dict] = {}
        for (nid, callee), st in ctxs.items():
            if flows[fn].inn.get(nid) is None:
                continue
            cur = per_callee.get(callee)
            per_callee[callee] = st if cur is None else {s: cur[s] & st[s] for s in SLOTS}
        for callee, st in per_callee.items():
            old = entry.get(callee)
            new = st if old is None else {s: old[s] & st[s] for s in SLOTS}
            if new != old:
                entry[callee] = new
                if callee not in work:
                    work.append(callee)
    stale = []
    reads = 0
    for fn, fl in flows.items():
        for n in ast.walk(fn.node):
            if not isinstance(n, (ast.Attribute, ast.Subscript, ast.Name)) or not isinstance(getattr(n, "ctx", None), ast.Load):
                continue
            if prog.function_of(n) is not fn:
                continue
            p = path_of(n)
            if p is None:
                continue
            if p in SLOTS:
                e = SLOTS[p]
                t = fl.tags(n)
                if t is None:
                    continue
                reads += 1
                if f"POW:{e}" not in t:
                    stale.append((fn, n, p, e, _classify_read(prog, fn, n)))
            elif isinstance(n, ast.Name):
                t = fl.tags(n)
                if not t:
                    continue
                for e in (POLL_E, SRCH_E):
                    if f"WAS:{e}" in t:
                        reads += 1
                        if f"POW:{e}" not in t:
                            stale.append((fn, n, p, e, _classify_read(prog, fn, n)))
    return stale, reads, sorted(f.qualname for f in flows)


def mesh_coherence(prog):
    """-> (findings, reads analysed, methods analysed); finding = (fn, node, slot, exponent, message)"""
    cached = getattr(prog, "_mesh_coherence", None)
    if cached is not None:
        return cached
    ini = Ini(prog.root)
    dead = ini.number("search_mesh_expand") == 0
    found: Dict[Tuple[int, str], tuple] = {}
    stale_a, reads, methods = _run(prog, prune=dead)
    for fn, n, p, e, kind in stale_a:
        if kind != "display":
            found[(id(n), p)] = (fn, n, p, e, f"'{p}' is read here but on some path it was not recomputed as multiplier ** {e} after the last store to {e} (stale mesh size)")
    if dead:
        stale_b, _, _ = _run(prog, prune=False)
        for fn, n, p, e, kind in stale_b:
            if kind == "geometry" and (id(n), p) not in found:
                found[(id(n), p)] = (fn, n, p, e, f"'{p}' enters point geometry here but is stale after the search-triggered mesh expansion (search_mesh_expand > 0) changed {e}")
    res = (list(found.values()), reads, methods)
    prog._mesh_coherence = res
    return res


def report(ctx, rule_id: str, select, floor: int = 2):
    findings, reads, methods = mesh_coherence(ctx.prog)
    ctx.rule(rule_id, "every read of a mesh-size slot is coherent with its exponent on all paths (must-dataflow with method summaries)", floor=floor)
    R = roles_of(ctx.prog)
    n = 0
    for fn, node, p, e, msg in findings:
        if select(fn, e, R):
            n += 1
            ctx.fail(fn, node, msg, construct=f"stale read of {p}")
    if not n:
        ctx.ok(R.optimize, R.optimize.node, f"{reads} reads of mesh-size slots in {len(methods)} methods are coherent")
        for m in methods[1:]:
            ctx.ok(R.optimize, R.optimize.node, f"method analysed: {m}")
