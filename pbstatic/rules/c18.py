"""C18 -- the search step evaluates the acquisition-optimal candidate, once."""
from __future__ import annotations

import ast
from typing import Optional

import sympy as sp

from ..cfg import cfg_of
from ..ini import Ini
from ..model import AnalysisError, FunctionInfo, bind_args
from ..roles import roles_of
from ..symb import Translator, Untranslatable, is_zero
from ..terms import call_name, canon, conjuncts, const_num, guard_canon, guard_of, norm_stmt
from .common import iter_stores, kw, reaching_assignments, self_attr_of, pos
from .points import FilterSummary, PointAnalysis

EXPLANATION = (
    "R1 min selection: inside the strategy candidates are ordered by np.argsort of their acquisition values (no negation, no reversal), the kept "
    "slice starts at 0 and row 0 is returned; the search step uses np.argmin over the acquisition values of the very array it then indexes. R2 "
    "lock-step accumulation: the candidate rows and their acquisition values are initialised / appended / selected in the same blocks with the "
    "same selector, and the values are the acquisition of the rows appended. R3 acquisition arguments inside the strategy and in the search step "
    "are rows returned by the candidate filter (search bounds, user's constraint bound) with nothing in between. R4 one evaluation: the search "
    "step contains exactly one logger call site, outside any loop, and none of its other callees can reach the target. R5 hedge distribution: the "
    "probabilities are a*p + b with p = e/sum(e) (same e), a + n*b = 1 and b = gamma as term identities, a >= 0 for the shipped gamma and "
    "portfolio size; the strategy is chosen by inverse CDF on cumsum(prob). R6 search-mesh slots are coherent with the search exponent where read (rules/meshflow.py). R7 every definition of the hedge reward that uses a GP-predicted quantity (def-use closure from .predict) sits under np.isfinite(q) or q == const; the zero-SD branch is tabled. The rank-selection mask combinatorics for all (mu, lambda) would need "
    "execution and are not decided."
    " R8 = C01-R6 (helpers leave their array arguments untouched). R9 the ranked values carry the acquisition function's provenance through copies / reshapes / concatenations only. R10 no early exit from a generation before the survivor selection unless guarded to later generations."
)


# name of a portfolio entry -> the class that implements it.  Confirmed by reading pybads/search/es_search.py (ESSearchWM:
# weighted covariance matrix, ESSearchELL: GP length-scale ellipsoid) and the option text of ``search_method``.
STRATEGY_CLASS = {"ES-wcm": "ESSearchWM", "ES-ell": "ESSearchELL"}


def _strategy_dispatch_rule(ctx, prog, hcall, es):
    """R11: the strategy object that generates the candidates is built from the class that the *name* of the drawn portfolio
    entry stands for.  Decided forms: a construction under ``name == "<lit>"`` guards; a table ``CLASSES[NAMES.index(name)]``
    / ``{"<lit>": Class}[name]``.  Selecting the class by the portfolio position of the draw, or under the wrong name, fails;
    any other form is undecided."""
    import copy

    from .common import deref_expr

    fnode = hcall.node
    attr_defs = {}
    for t, v, s_, k in iter_stores(fnode):
        a = self_attr_of(t)
        if a is not None and v is not None and k == "assign":
            attr_defs.setdefault(a, []).append((v, s_))

    def expand(e, at, depth=0):
        """locals and once-stored self attributes replaced by their definitions"""
        d = deref_expr(prog, hcall, e)

        class A(ast.NodeTransformer):
            def visit_Attribute(self, node):
                self.generic_visit(node)
                a = self_attr_of(node)
                if a is not None and isinstance(node.ctx, ast.Load) and len(attr_defs.get(a, [])) == 1 and depth < 3:
                    v, s_ = attr_defs[a][0]
                    if pos(s_) < pos(at) and a != "chosen_hedge" and a != "search_fcns":
                        return expand(copy.deepcopy(v), s_, depth + 1)
                return node

        return A().visit(d)

    def strip_idx(t: str) -> str:
        for _ in range(3):
            if t.endswith(".item()"):
                t = t[: -len(".item()")]
            elif t.startswith("int(") and t.endswith(")"):
                t = t[4:-1]
            elif t.endswith("[0]") and t.startswith("self.chosen_hedge"):
                t = t[:-3]
        return t

    def is_draw(e, at) -> bool:
        return strip_idx(canon(expand(e, at))) == "self.chosen_hedge"

    def is_name(e, at) -> bool:
        x = expand(e, at)
        if isinstance(x, ast.Subscript) and const_num(x.slice) == 0 and isinstance(x.value, ast.Subscript) and canon(x.value.value) == "self.search_fcns":
            return strip_idx(canon(x.value.slice)) == "self.chosen_hedge"
        return False

    def str_table(e):
        """a literal tuple / list of strings reachable like a class table -> list of str"""
        fake = ast.Subscript(value=e, slice=ast.Constant(value=0), ctx=ast.Load())
        # reuse the table lookup by resolving the literal by hand
        lit = None
        if isinstance(e, (ast.Tuple, ast.List)):
            lit = e
        elif isinstance(e, ast.Name):
            defs = [n.value for n in ast.walk(fnode) if isinstance(n, ast.Assign) and len(n.targets) == 1 and isinstance(n.targets[0], ast.Name) and n.targets[0].id == e.id]
            if len(defs) == 1:
                lit = defs[0]
            elif not defs:
                for st in hcall.module.tree.body:
                    if isinstance(st, ast.Assign) and len(st.targets) == 1 and isinstance(st.targets[0], ast.Name) and st.targets[0].id == e.id:
                        lit = st.value
        elif isinstance(e, ast.Attribute) and isinstance(e.value, ast.Name) and hcall.cls is not None:
            owner = hcall.cls if e.value.id in ("self", "cls") or e.value.id == hcall.cls.name else None
            if owner is not None:
                for c in owner.mro():
                    hit = [st.value for st in c.node.body if isinstance(st, ast.Assign) and len(st.targets) == 1 and isinstance(st.targets[0], ast.Name) and st.targets[0].id == e.attr]
                    if hit:
                        lit = hit[-1]
                        break
        if isinstance(lit, (ast.Tuple, ast.List)) and lit.elts and all(isinstance(x, ast.Constant) and isinstance(x.value, str) for x in lit.elts):
            return [x.value for x in lit.elts]
        return None

    def name_guards(st):
        """{literal: polarity} for the conjuncts ``name == lit`` / ``name != lit`` / ``name in (lits)`` that guard st"""
        out = []
        for t, pol in guard_of(prog, hcall, st):
            for c, p in conjuncts(t, pol):
                if isinstance(c, ast.Compare) and len(c.ops) == 1:
                    l, r = c.left, c.comparators[0]
                    if isinstance(l, ast.Constant) and isinstance(l.value, str):
                        l, r = r, l
                    if isinstance(r, ast.Constant) and isinstance(r.value, str) and isinstance(c.ops[0], (ast.Eq, ast.NotEq)) and is_name(l, st):
                        out.append((r.value, p == isinstance(c.ops[0], ast.Eq)))
        return out

    def classes_of(k, at, depth=0):
        """the class expression k of a construction ``k(...)`` -> list of (verdict, text); verdict True / False / None"""
        r = prog.resolve_name_expr(hcall.module, k) if isinstance(k, (ast.Name, ast.Attribute)) else None
        st = at
        if r is not None and not isinstance(r, (FunctionInfo, tuple)) and hasattr(r, "mro"):
            if es.cls not in r.mro():
                return [(None, f"{canon(k)} is not a search strategy class")]
            g = name_guards(st)
            pos_l = [l for l, p in g if p]
            neg_l = [l for l, p in g if not p]
            want = [n for n, c in STRATEGY_CLASS.items() if c == r.name]
            if pos_l:
                ok = all(STRATEGY_CLASS.get(l) == r.name for l in pos_l)
                return [(ok, f"{r.name} built under name == {pos_l[0]!r}")]
            if neg_l and want and set(neg_l) >= set(STRATEGY_CLASS) - set(want):
                return [(True, f"{r.name} built when the name is none of {sorted(neg_l)}")]
            if neg_l and want and set(want) & set(neg_l):
                return [(False, f"{r.name} built under name != {want[0]!r}")]
            return [(None, f"{r.name} built without a test of the drawn entry's name")]
        ct = prog.class_table(hcall, k)
        if ct is not None:
            cls_l, keys, lit = ct
            sel = k.slice if isinstance(k, ast.Subscript) else k.args[0]
            if keys is not None:
                if not all(isinstance(x, ast.Constant) and isinstance(x.value, str) for x in keys):
                    return [(None, "class table keyed by non-literals")]
                bad = [(x.value, c.name) for x, c in zip(keys, cls_l) if STRATEGY_CLASS.get(x.value, c.name) != c.name]
                if bad:
                    return [(False, f"the class table maps {bad[0][0]!r} to {bad[0][1]}")]
                if is_name(sel, at):
                    return [(True, "class table keyed by the drawn entry's name")]
                if is_draw(sel, at):
                    return [(False, "class table indexed by the portfolio position of the draw, not by the entry's name")]
                return [(None, f"class table indexed by {canon(sel)}")]
            if is_draw(sel, at):
                return [(False, "the strategy class is selected by the portfolio position of the draw, not by the drawn entry's name")]
            sx = expand(sel, at)
            if isinstance(sx, ast.Call) and isinstance(sx.func, ast.Attribute) and sx.func.attr == "index" and len(sx.args) == 1 and is_name(sx.args[0], at):
                names = str_table(sx.func.value)
                if names is not None and len(names) == len(cls_l):
                    bad = [(n, c.name) for n, c in zip(names, cls_l) if STRATEGY_CLASS.get(n, c.name) != c.name]
                    if bad:
                        return [(False, f"the class table pairs {bad[0][0]!r} with {bad[0][1]}")]
                    return [(True, "class table indexed by the position of the drawn entry's name in the aligned name table")]
                return [(None, "name table not a literal aligned with the class table")]
            return [(None, f"class table indexed by {canon(sel)}")]
        if isinstance(k, ast.Name) and depth < 2:
            out = []
            for t, v, s_, kind in iter_stores(fnode):
                if isinstance(t, ast.Name) and t.id == k.id and v is not None and kind == "assign":
                    out.extend(classes_of(v, s_, depth + 1))
            if out:
                return out
        return [(None, f"strategy class expression {canon(k)} not recognised")]

    calls = [c for c in ast.walk(fnode) if isinstance(c, ast.Call) and es in [x for x in prog.resolve_call(hcall, c) if isinstance(x, FunctionInfo)]]
    if not calls:
        ctx.undecided("no call of a strategy's __call__ resolved inside the hedge")
        return
    seen = set()
    for c in calls:
        f = c.func
        cons = []
        if isinstance(f, ast.Name):
            for t, v, s_, kind in iter_stores(fnode):
                if isinstance(t, ast.Name) and t.id == f.id and isinstance(v, ast.Call) and kind == "assign":
                    cons.append((v, s_))
        elif isinstance(f, ast.Call):
            cons.append((f, c))
        if not cons:
            ctx.undecided(f"the strategy object {canon(f)} is not constructed inside the hedge call")
            continue
        for v, s_ in cons:
            if id(v) in seen:
                continue
            seen.add(id(v))
            for verdict, text in classes_of(v.func, s_):
                if verdict is True:
                    ctx.ok(hcall, s_, text)
                elif verdict is False:
                    ctx.fail(hcall, s_, f"the strategy that generates the candidates is not the one the hedge drew: {text}", construct=f"strategy dispatch: {text[:70]}")
                else:
                    ctx.undecided(f"strategy dispatch at line {getattr(s_, 'lineno', '?')}: {text}")


def _hedge_reward_rule(ctx, prog, hcls):
    """prob = f(exp(beta * (g - max g))): one non-finite score makes every probability NaN.  The scores are only ever
    updated by ``g[i] = decay * g[i] + er / phat[i] / mesh``; each definition of the reward ``er`` that depends on a quantity
    which may come from a GP prediction must sit under ``np.isfinite(q)`` (or ``q == <constant>``) for that quantity."""
    from .common import deref_expr

    upd = None
    for m in hcls.methods.values() if isinstance(hcls.methods, dict) else hcls.methods:
        for t, v, st, k in iter_stores(m.node):
            if isinstance(t, ast.Subscript) and self_attr_of(t) == "g" and m.name != "__init__":
                upd = (m, st, v)
    if upd is None:
        ctx.undecided("no update of the hedge scores self.g[...] found")
        return
    fn, gstore, gval = upd
    # predicted quantities: locals with a definition derived from a .predict(...) call
    predicted = set()
    changed = True
    defs = {}
    for t, v, st, k in iter_stores(fn.node):
        if isinstance(t, ast.Name):
            defs.setdefault(t.id, []).append(v)
        elif isinstance(t, (ast.Tuple, ast.List)):
            pass
    for n in ast.walk(fn.node):
        if isinstance(n, ast.Assign) and isinstance(n.targets[0], (ast.Tuple, ast.List)) and isinstance(n.value, ast.Call) and isinstance(n.value.func, ast.Attribute) and n.value.func.attr == "predict":
            for e in n.targets[0].elts:
                if isinstance(e, ast.Name):
                    predicted.add(e.id)
    while changed:
        changed = False
        for nm, vs in defs.items():
            if nm in predicted:
                continue
            for v in vs:
                if v is not None and any(isinstance(x, ast.Name) and x.id in predicted for x in ast.walk(v)) and call_name(v) in ("np.sqrt", "np.abs", "float", "np.squeeze"):
                    predicted.add(nm)
                    changed = True
    if not predicted:
        ctx.undecided("no GP-predicted quantity reaches the hedge update")
        return
    # the reward variable(s) in the score update
    rnames = [x.id for x in ast.walk(gval) if isinstance(x, ast.Name) and x.id in defs and x.id not in predicted and x.id not in fn.params]
    seen = 0
    for rn in sorted(set(rnames)):
        for t, v, st, k in iter_stores(fn.node):
            if not (isinstance(t, ast.Name) and t.id == rn) or v is None:
                continue
            seen += 1
            full = deref_expr(prog, fn, v)
            used = sorted({x.id for x in ast.walk(full) if isinstance(x, ast.Name) and x.id in predicted})
            g = guard_canon(prog, fn, st)
            finite, equal = set(), set()
            for t_, pol_ in guard_of(prog, fn, st):
                for c_, p_ in conjuncts(t_, pol_):
                    if not p_:
                        continue
                    # np.isfinite(q) / math.isfinite(q) / np.all(np.isfinite([q, r])) / np.isfinite(q + r) ...
                    for call in [x for x in ast.walk(c_) if isinstance(x, ast.Call) and call_name(x) in ("np.isfinite", "math.isfinite", "isfinite")]:
                        finite |= {x.id for a_ in call.args for x in ast.walk(a_) if isinstance(x, ast.Name)}
                    if isinstance(c_, ast.Compare) and len(c_.ops) == 1 and isinstance(c_.ops[0], ast.Eq):
                        for a_, b_ in ((c_.left, c_.comparators[0]), (c_.comparators[0], c_.left)):
                            if isinstance(a_, ast.Name) and const_num(b_) is not None:
                                equal.add(a_.id)
            missing = [q for q in used if q not in finite and q not in equal]
            # tabled: deterministic estimate (sd == 0): f is then an observed value, finite by the target-value checks (C10)
            if missing and call_name(full) in ("np.maximum", "max") and any(const_num(a) == 0 for a in full.args) and any(c.endswith(" == 0)") or c.startswith("(0 == ") for c in g) and len(missing) == 1:
                ctx.ok(fn, st, f"tabled: {rn} = max(0, .) on the zero-SD branch uses the observed value ({missing[0]})")
                continue
            ctx.check(not missing, fn, st, f"{rn} := {canon(v)[:50]} guarded for {used or 'no predicted quantity'}", f"the reward '{rn}' uses the GP-predicted {missing} without an np.isfinite guard: a non-finite prediction makes the score, and then every hedge probability, NaN", construct=f"reward {rn} unguarded {missing}")
    if not seen:
        ctx.undecided("the score update does not use a named reward")


def _ranking_rules(ctx, prog, es, acq):
    """R9: the values that are ranked are the acquisition function's own output (copies / reshapes / concatenations only): a
    value-altering step in between (nan_to_num, abs, clipping, rounding) changes which candidate ranks first - NaN sorts
    last under argsort, 0 sorts before every positive value.  R10: within one generation the selection of the
    survivors lies on every path through the loop body: an early ``break`` / ``continue`` before it leaves the result
    buffers as they were allocated (uninitialised) when it happens in the first generation."""
    from ..flow import BasePolicy, TagFlow

    # tabled: the documented fallback 'the acquisition returned nothing -> random ranking': a random draw stored under a
    # guard that asks whether the acquisition output is None / empty
    acq_names = set()
    for n_ in ast.walk(es.node):
        if isinstance(n_, ast.Assign) and isinstance(n_.value, ast.Call) and any(t is acq for t in prog.resolve_call(es, n_.value)):
            t0 = n_.targets[0]
            acq_names |= {t0.elts[0].id} if isinstance(t0, ast.Tuple) and isinstance(t0.elts[0], ast.Name) else ({t0.id} if isinstance(t0, ast.Name) else set())
    grew = True
    while grew:
        grew = False
        for t, v, s_, k in iter_stores(es.node):
            if isinstance(t, ast.Name) and t.id not in acq_names and k == "assign":
                inner = v
                while isinstance(inner, ast.Call) and isinstance(inner.func, ast.Attribute) and inner.func.attr in ("flatten", "ravel", "copy", "squeeze") and not inner.args:
                    inner = inner.func.value
                if inner is not v and isinstance(inner, ast.Name) and inner.id in acq_names:
                    acq_names.add(t.id)  # z_new = z_raw.flatten()
                    grew = True
    local_names = {t.id for t, v, s_, k in iter_stores(es.node) if isinstance(t, ast.Name)} - set(es.params)
    fallback = set()
    for n_ in ast.walk(es.node):
        if isinstance(n_, ast.Call) and call_name(n_) in ("np.random.rand", "np.random.random", "np.random.uniform"):
            for t_, pol_ in guard_of(prog, es, n_):
                if pol_ and any(isinstance(x, ast.Name) and x.id in acq_names for x in ast.walk(t_)) and any(isinstance(x, ast.Compare) for x in ast.walk(t_)):
                    fallback.add(id(n_))

    class P(BasePolicy):
        row_select_preserves = True

        def eval_unpack(self, value, i, n, state, flow):
            if isinstance(value, ast.Call) and any(t is acq for t in prog.resolve_call(es, value)) and i == 0:
                return frozenset({"ACQ"})
            return super().eval_unpack(value, i, n, state, flow)

        def eval_unknown_path(self, expr, state, flow):
            # a local that is not bound yet on this path (reading it would raise NameError): vacuous origin
            if isinstance(expr, ast.Name) and expr.id in local_names and expr.id not in state:
                return frozenset({"ACQ"})
            return frozenset()

        def eval_call(self, expr, state, flow):
            if any(t is acq for t in prog.resolve_call(es, expr)):
                return frozenset({"ACQ"})
            n = call_name(expr)
            if id(expr) in fallback:
                return frozenset({"ACQ"})
            if n in ("np.append", "np.concatenate", "np.vstack", "np.hstack") and expr.args:
                parts = expr.args[0].elts if isinstance(expr.args[0], (ast.Tuple, ast.List)) else expr.args[:2]
                out = None
                for a in parts:
                    t = self.eval(a, state, flow)
                    out = t if out is None else out & t
                return out or frozenset()
            return frozenset()

    ctx.rule("R9", "the ranked values are the acquisition function's output unchanged (copies, reshapes and concatenations only)", floor=1)
    fl = TagFlow(prog, es, P())
    n9 = 0
    for c in ast.walk(es.node):
        if isinstance(c, ast.Call) and call_name(c) in ("np.argsort", "np.argmin") and c.args:
            tg = fl.tags(c.args[0])
            if tg is None:
                continue
            n9 += 1
            ctx.check("ACQ" in tg, es, c, f"{call_name(c)}({canon(c.args[0])}) ranks acquisition values", f"'{canon(c.args[0])}' is ranked after a value-altering step (not only copies / reshapes / concatenations of the acquisition output): e.g. nan_to_num turns a NaN acquisition value into 0, which outranks every positive value", construct=f"ranking of altered values {canon(c.args[0])}")
    if n9 == 0:
        ctx.rules["R9"].floor = 0
    ctx.rule("R10", "the survivor selection lies on every path through a generation (no early exit before it)", floor=1)
    cfg = cfg_of(es)
    rets = [n for n in ast.walk(es.node) if isinstance(n, ast.Return) and isinstance(n.value, ast.Tuple)]
    names = {x.value.id for r in rets for x in r.value.elts if isinstance(x, ast.Subscript) and isinstance(x.value, ast.Name)}
    loops = [n for n in ast.walk(es.node) if isinstance(n, (ast.For, ast.While)) and prog.function_of(n) is es]
    done = 0
    for lp in loops:
        sel = [s_ for t, v, s_, k in iter_stores(lp) if isinstance(t, ast.Name) and t.id in names and isinstance(v, ast.Subscript)]
        if not sel:
            continue
        done += 1
        head = cfg.head_of(lp)
        avoid = {cfg.node_of(s_).id for s_ in sel if cfg.node_of(s_) is not None}
        body_entry = cfg.succ(head.id, "T")
        exits = [x for x in cfg.succ(head.id, "F")]
        ivar = canon(lp.target) if isinstance(lp, ast.For) else None
        early = []
        accepted = set()
        for be in body_entry:
            if be in avoid:
                continue
            reach = cfg.reachable(be, avoiding=avoid, skip_exc=True) | {be}
            for x in ast.walk(lp):
                if isinstance(x, (ast.Break, ast.Continue, ast.Return)) and prog.function_of(x) is es:
                    nx = cfg.node_of(x)
                    if nx is not None and nx.id in reach:
                        g = guard_canon(prog, es, x)
                        later_only = ivar is not None and any(c in (f"(0 < {ivar})", f"({ivar} != 0)", f"(0 != {ivar})", f"(1 <= {ivar})", f"not ({ivar} == 0)", f"not (0 == {ivar})") for c in g)
                        if not later_only:
                            early.append(x)
                        else:
                            accepted.add(nx.id)
            if not early:
                reach2 = cfg.reachable(be, avoiding=avoid | accepted, skip_exc=True) | {be}
                if head.id in reach2 or any(x in reach2 for x in exits):
                    early.append(lp)  # fall-through path without the selection
        ctx.check(not early, es, early[0] if early else lp, f"selection of {sorted(names)} on every path through the generation loop", f"a path through the generation loop skips the selection of {sorted(names)} ({type(early[0]).__name__.lower() if early else ''} before it, possible in the first generation): the strategy then returns the buffers as allocated (uninitialised memory) as its proposal", construct="generation loop can skip the selection")
    if done == 0:
        ctx.rules["R10"].floor = 0


def check(ctx):
    prog = ctx.prog
    R = roles_of(prog)
    ini = Ini(prog.root)
    ss = R.search_step
    fs = FilterSummary(prog, R)
    pa = PointAnalysis(prog, R, fs)
    es_cls = prog.find_class("ESSearch")
    es = es_cls.find_method("__call__")
    hedge = prog.find_class("ESSearchHedge")
    hcall = hedge.find_method("__call__")
    acq = prog.try_function("acq_fcn_lcb")
    if es is None or hcall is None or acq is None:
        raise AnalysisError("ESSearch.__call__ / ESSearchHedge.__call__ / acq_fcn_lcb not found")

    # ------------------------------------------------------------------ R1
    ctx.rule("R1", "the candidate with the lowest acquisition value is selected (ascending argsort, index 0; argmin on the indexed array)", floor=4)
    ret = [n for n in ast.walk(es.node) if isinstance(n, ast.Return) and isinstance(n.value, ast.Tuple) and len(n.value.elts) == 2]
    if not ret:
        ctx.fail(es, es.node, "the strategy does not return (point, acquisition value)", construct="<strategy return>")
    else:
        r = ret[-1]
        a, b = r.value.elts
        ok0 = all(isinstance(e, ast.Subscript) and const_num(e.slice) == 0 for e in (a, b))
        ctx.check(ok0, es, r, "returns row 0 of the ordered survivors", f"the strategy returns {canon(r.value)}, not the first (best) row of the ordered candidates", construct=f"strategy returns {canon(r.value)}")
        if ok0:
            us, zz = a.value.id, b.value.id
            sel = {}
            for t, v, s, k in iter_stores(es.node):
                if isinstance(t, ast.Name) and t.id in (us, zz) and isinstance(v, ast.Subscript) and any(isinstance(p, ast.For) for p in prog.ancestors(s)):
                    sel[t.id] = (v, s)
            if us not in sel or zz not in sel:
                ctx.fail(es, r, "the survivors are not selected from the accumulated candidates by an ordering index", construct="survivor selection")
            else:
                su, sz = sel[us][0], sel[zz][0]
                same = canon(su.slice) == canon(sz.slice)
                ctx.check(same, es, sel[us][1], f"points and values selected by the same selector {canon(su.slice)}", f"points are selected by {canon(su.slice)} but values by {canon(sz.slice)}", construct="survivor selectors differ")
                sl = su.slice
                if isinstance(sl, ast.Name):
                    # the kept indices held in a local: best = order[0:N]
                    dd_ = reaching_assignments(prog, es, sl.id, sel[us][1])
                    if len(dd_) == 1:
                        sl = dd_[0]
                ok_slice = isinstance(sl, ast.Subscript) and isinstance(sl.slice, ast.Slice) and (sl.slice.lower is None or const_num(sl.slice.lower) == 0) and sl.slice.step is None
                ctx.check(ok_slice, es, sel[us][1], "kept slice order[0:N] starts at the best", "the kept slice of the ordering does not start at index 0 (or is stepped / reversed)", construct=f"kept slice {canon(sl)}")
                if ok_slice and isinstance(sl.value, ast.Name):
                    od = reaching_assignments(prog, es, sl.value.id, sel[us][1])
                    zc = canon(sz.value)
                    okso = len(od) == 1 and call_name(od[0]) == "np.argsort" and od[0].args and canon(od[0].args[0]) == zc and not od[0].keywords
                    ctx.check(bool(okso), es, sel[us][1], f"order = np.argsort({zc}) ascending", f"the ordering index is {canon(od[0]) if od else '?'}, not an ascending argsort of the acquisition values of the accumulated candidates", construct=f"order = {canon(od[0])[:50] if od else '?'}")
    # outer step
    am = [n for n in ast.walk(ss.node) if isinstance(n, ast.Call) and call_name(n) in ("np.argmin", "np.argmax", "np.nanargmin")]
    lcs = R.logger_calls(ss)
    if lcs:
        arg = lcs[0].args[0]
        adef = reaching_assignments(prog, ss, arg.id, lcs[0]) if isinstance(arg, ast.Name) else [arg]
        d = adef[0] if adef else None
        ok = False
        if isinstance(d, ast.Subscript) and isinstance(d.slice, ast.Name):
            rows = canon(d.value)
            idefs = reaching_assignments(prog, ss, d.slice.id, d)
            mins = [x for x in idefs if call_name(x) == "np.argmin"]
            if mins and mins[0].args and isinstance(mins[0].args[0], ast.Name):
                zname = mins[0].args[0].id
                zdefs = [(t, v, s, k) for t, v, s, k in iter_stores(ss.node) if isinstance(t, ast.Name) and t.id == zname and isinstance(v, ast.Call) and acq in [x for x in prog.resolve_call(ss, v) if isinstance(x, FunctionInfo)]]
                # the acquisition that defines z inside the non-empty branch
                ok = any(k == "assign[0]" and canon(v.args[0]) == rows and pos(s) < pos(mins[0]) for t, v, s, k in zdefs)
            others = [x for x in idefs if call_name(x) != "np.argmin" and not (isinstance(x, ast.Constant) and x.value is None)]
            fallback_ok = all("np.random.randint" in canon(x) for x in others)
            ok = ok and fallback_ok
        ctx.check(ok, ss, lcs[0], "evaluated point = candidates[argmin(acquisition(candidates))]", "the point evaluated by the search step is not the argmin of the acquisition over the filtered candidate set it is taken from", construct=f"search point {canon(d)[:50] if d is not None else '?'}")

    # ------------------------------------------------------------------ R2
    ctx.rule("R2", "candidate rows and acquisition values are accumulated in lock-step", floor=2)
    blocks = {}
    for t, v, s, k in iter_stores(es.node):
        if isinstance(t, ast.Name) and t.id.endswith("_candidates"):
            blk = id(prog.parent(s)), tuple(x is s for x in getattr(prog.parent(s), "body", []))
            par = prog.parent(s)
            key = (id(par), "body" if s in getattr(par, "body", []) else "orelse")
            blocks.setdefault(key, {})[t.id] = (v, s)
    acq_pairs = []
    for t, v, s, k in iter_stores(es.node):
        if isinstance(v, ast.Call) and acq in [x for x in prog.resolve_call(es, v) if isinstance(x, FunctionInfo)] and k == "assign[0]":
            acq_pairs.append((canon(t), canon(v.args[0]), s))
    zsrc = {}
    for zn, un, s in acq_pairs:
        zsrc[zn] = un
    # the values keep their rows through a reshaping copy kept under another name (z_new = z_raw.flatten())
    grew = True
    while grew:
        grew = False
        for t, v, s, k in iter_stores(es.node):
            if isinstance(t, ast.Name) and t.id not in zsrc and k == "assign":
                inner = v
                while isinstance(inner, ast.Call) and ((isinstance(inner.func, ast.Attribute) and inner.func.attr in ("flatten", "ravel", "copy", "squeeze") and not inner.args)
                                                       or (call_name(inner) in ("np.ravel", "np.asarray", "np.squeeze", "np.copy") and len(inner.args) == 1)):
                    inner = inner.func.value if isinstance(inner.func, ast.Attribute) and not inner.args else inner.args[0]
                if inner is not v and isinstance(inner, ast.Name) and inner.id in zsrc:
                    zsrc[t.id] = zsrc[inner.id]
                    grew = True
    lock = 0
    for key, d in blocks.items():
        names = sorted(d)
        if len(names) != 2:
            st = list(d.values())[0][1]
            g = guard_canon(prog, es, st)
            if any(any(f"({zn} is None)" in x or f"{zn}.size" in x for zn in zsrc) for x in g):
                ctx.note(f"fallback block at line {st.lineno} (acquisition returned nothing) is overwritten by the lock-step update that follows")
                continue
            ctx.fail(es, st, f"only {names} is updated in this block: candidate rows and their acquisition values get out of step", construct=f"lock-step: {names}")
            continue
        un = [n for n in names if n.startswith("us") or n.startswith("u_")][0] if any(n.startswith("us") or n.startswith("u_") for n in names) else names[0]
        zn = [n for n in names if n != un][0]
        vu, su = d[un]
        vz, sz = d[zn]
        def src(v):
            if isinstance(v, ast.Call) and isinstance(v.func, ast.Attribute) and v.func.attr == "copy":
                return ("init", canon(v.func.value))
            if call_name(v) == "np.append" and len(v.args) >= 2:
                return ("append", canon(v.args[0]), canon(v.args[1]))
            return ("other", canon(v))
        a_, b_ = src(vu), src(vz)
        okk = a_[0] == b_[0] and a_[0] in ("init", "append")
        new_u, new_z = a_[-1], b_[-1]
        paired = zsrc.get(new_z) == new_u
        if a_[0] == "append":
            okk = okk and a_[1] == un and b_[1] == zn
        lock += 1
        ctx.check(okk and paired, es, su, f"{un}, {zn} {a_[0]} with ({new_u}, acquisition({new_u}))", f"candidate rows are updated with '{new_u}' but the values with '{new_z}' (acquisition of '{zsrc.get(new_z)}'): rows and values no longer correspond", construct=f"lock-step {a_} vs {b_}")
    if lock == 0:
        ctx.missing(es, "accumulation of candidates and their acquisition values")

    # ------------------------------------------------------------------ R3
    ctx.rule("R3", "the acquisition is evaluated on rows returned by the candidate filter", floor=2)
    for fn in (es, ss):
        fl = pa.flow(fn)
        for c, tg in prog.calls_in(fn):
            if acq in tg and c.args:
                tags = fl.tags(c.args[0])
                if tags is None:
                    continue
                ctx.check({"BOX", "FEAS", "FILT"} <= tags, fn, c, f"acquisition({canon(c.args[0])}) on filtered rows", f"the acquisition is evaluated on '{canon(c.args[0])}', which is not the output of the candidate filter on every path (tags {sorted(tags)}): infeasible or out-of-box candidates can win the selection",
                          construct=f"acquisition on unfiltered {canon(c.args[0])} in {fn.short}")
    # the strategies receive the user's constraint from the hedge
    for c, tg in prog.calls_in(hcall):
        if es in tg:
            b = bind_args(es, c)
            ctx.check(canon(b.get("non_box_cons")) == "self.non_box_cons", hcall, c, "strategy called with the hedge's constraint callable", "a search strategy is run without the user's constraint callable", construct=f"strategy constraint argument {canon(b.get('non_box_cons'))}")

    # ------------------------------------------------------------------ R9 / R10
    _ranking_rules(ctx, prog, es, acq)

    # ------------------------------------------------------------------ R4
    ctx.rule("R4", "a search step costs at most one target evaluation", floor=2)
    if len(lcs) != 1:
        ctx.fail(ss, ss.node, f"the search step contains {len(lcs)} logger call sites (expected exactly one)", construct=f"search step logger calls {len(lcs)}")
    else:
        in_loop = any(isinstance(p, (ast.For, ast.While)) for p in prog.ancestors(lcs[0]))
        ctx.check(not in_loop, ss, lcs[0], "single logger call outside loops", "the search step's evaluation sits in a loop", construct="search evaluation in loop")
    bad = []
    for c, tg in prog.calls_in(ss):
        if c in lcs:
            continue
        for t in tg:
            if isinstance(t, FunctionInfo) and R.can_reach_target(t):
                bad.append((c, t))
    if bad:
        c, t = bad[0]
        path = prog.call_path(t, R.logger_call)
        ctx.fail(ss, c, f"besides its own evaluation the search step calls {t.short}, which can reach the target", construct=f"search callee {t.short} reaches target", witness=[f.short for f in path] if path else [])
    else:
        ctx.ok(ss, ss.node, "no other callee of the search step can reach the target")

    # ------------------------------------------------------------------ R5
    ctx.rule("R5", "hedge probabilities: a*p + b with p normalised, a + n*b = 1, b = gamma, a >= 0; inverse-CDF choice", floor=3, policy="degrade")
    try:
        pstmts = [s for s in hcall.node.body if isinstance(s, ast.Assign) and canon(s.targets[0]) == "self.prob"]
        # the straight-line prefix that computes the probabilities: the weights may first sit in a local
        stmts = []
        for s in hcall.node.body:
            if isinstance(s, ast.Assign) and len(s.targets) == 1 and (isinstance(s.targets[0], ast.Name) or canon(s.targets[0]) == "self.prob"):
                stmts.append(s)
            if pstmts and s is pstmts[-1]:
                break
        tr = Translator(positive=["self.gamma", "self.n_funs"])
        try:
            tr.run(stmts)
        except Untranslatable:
            tr = Translator(positive=["self.gamma", "self.n_funs"])
            stmts = pstmts
            tr.run(stmts)
        prob = tr.env.get("self.prob")
        if prob is None or len(stmts) < 2:
            ctx.undecided("self.prob assignments not found as straight-line statements")
        else:
            gamma, n = tr.sym("self.gamma"), tr.sym("self.n_funs")
            # e and its normalisation: every sum in the final expression is over one vector e, and e occurs only as e/sum(e)
            sums = [a for a in sp.preorder_traversal(prob) if isinstance(a, sp.Function) and a.func.__name__ == "sum"]
            e = sums[0].args[0] if sums else None
            P = sp.Symbol("P", positive=True)
            ok_norm = bool(sums) and all(is_zero(s_.args[0] - e) for s_ in sums)
            if ok_norm:
                rest = sp.expand(prob.subs(e / sums[0], P))
                ok_norm = not rest.has(sums[0]) and not rest.has(e)
            ctx.check(ok_norm, hcall, pstmts[min(1, len(pstmts) - 1)], "p = e / sum(e) with the same e", "the hedge weights are normalised by the sum of a different vector: the probabilities do not sum to 1", construct="hedge normalisation")
            stmts = pstmts
            if sums:
                p = e / sums[0]
                affine = sp.expand(prob.subs(p, P))
                if not affine.has(P):
                    affine = sp.expand(sp.simplify(prob / p) * P) if False else affine
                a_c = sp.simplify(affine.coeff(P, 1))
                b_c = sp.simplify(affine.coeff(P, 0))
                ctx.check(is_zero(a_c + n * b_c - 1), hcall, stmts[-1], "a + n*b = 1 (probabilities sum to 1)", f"hedge probabilities a*p + b with a = {a_c}, b = {b_c} do not sum to 1", construct=f"hedge affine a={a_c} b={b_c}")
                ctx.check(is_zero(b_c - gamma), hcall, stmts[-1], "b = gamma (exploration floor)", f"the exploration floor is {b_c}, not gamma", construct=f"hedge floor {b_c}")
                g0 = ini.number("hedge_gamma")
                sm = ini.literal("search_method")
                n0 = len(sm) if isinstance(sm, (list, tuple)) else None
                if g0 is not None and n0:
                    a_val = a_c.subs({gamma: sp.nsimplify(g0), n: n0})
                    ctx.check(bool(a_val >= 0), hcall, stmts[-1], f"a = {a_val} >= 0 for gamma = {g0}, n = {n0}", f"with the shipped gamma = {g0} and {n0} strategies the weight a = {a_val} is negative: probabilities can be negative", construct=f"hedge a={a_val}")
    except Untranslatable as e:
        ctx.undecided(f"hedge probability code uses a construct the term translator does not know ({e})")
    except Exception as e:
        ctx.undecided(f"hedge term check failed internally ({e.__class__.__name__}: {e})")
    # inverse-CDF choice
    ch = [s for t, v, s, k in iter_stores(hcall.node) if self_attr_of(t) == "chosen_hedge"]
    okc = False
    for s in ch:
        cv = canon(s.value)
        if "np.argwhere(" in cv and "np.cumsum(self.prob)" in cv and cv.endswith("[0]"):
            cmpn = [n for n in ast.walk(s.value) if isinstance(n, ast.Compare)]
            if cmpn:
                c0 = canon(cmpn[0])
                rv = [x for x in (canon(cmpn[0].left), canon(cmpn[0].comparators[0])) if "cumsum" not in x][0]
                rdefs = reaching_assignments(prog, hcall, rv, s) if rv.isidentifier() else []
                okc = c0 in (f"({rv} < np.cumsum(self.prob))", f"({rv} <= np.cumsum(self.prob))") and any("np.random.rand" in canon(d) for d in rdefs)
    ctx.check(okc, hcall, ch[0] if ch else hcall.node, "strategy chosen by inverse CDF: first index with u < cumsum(prob), u ~ U(0,1)", "the strategy is not drawn by inverse CDF on cumsum(prob) with a uniform draw", construct="hedge choice")
    # ------------------------------------------------------------------ R7
    ctx.rule("R7", "every reward added to the hedge scores is finite: GP-predicted quantities are used only under finiteness guards", floor=2)
    _hedge_reward_rule(ctx, prog, hcall.cls)

    # ------------------------------------------------------------------ R11
    ctx.rule("R11", "the strategy that generates the candidates is the class the drawn portfolio entry's name stands for", floor=2)
    _strategy_dispatch_rule(ctx, prog, hcall, es)

    from .common import helper_purity

    helper_purity(ctx, prog, "R8")
    from . import meshflow

    meshflow.report(ctx, "R6", lambda fn, e, R: e == meshflow.SRCH_E)
    ctx.assume("np.argsort sorts ascending; np.argmin returns the first minimiser")
    ctx.assume("ini constants hedge_gamma and the length of search_method are the shipped portfolio")
