"""C09 -- every valid problem runs to completion (named crash classes only)."""
from __future__ import annotations

import ast
from typing import Dict, FrozenSet, List, Optional, Set, Tuple

from ..cfg import cfg_of
from ..flow import EMPTY, BasePolicy, TagFlow, path_of
from ..model import AnalysisError, FunctionInfo, bind_args
from ..roles import roles_of
from ..terms import call_name, canon, cmp_normal, conjuncts, const_num, const_str, guard_canon, guard_of, norm_stmt, state_key
from .c12 import per_row_arrays, record_routine
from .common import iter_stores, reaching_assignments, self_attr_of, store_base

EXPLANATION = (
    "Named crash classes whose trigger is visible in the shape of the code. R1 maybe-empty index: rows returned by the candidate filter (and "
    "arrays derived from them by copy/selection/append/acquisition) may be empty; a constant-index subscript or argmin/argmax/min/max on them "
    "needs a dominating emptiness guard (must-tag NONEMPTY established by size/len tests and early exits, killed by deletion/filtering). R2 "
    "state-key must-definition: interprocedural must-definition analysis of optim_state keys along the fixed call order constructor -> optimize; "
    "a subscript read is safe if the key is must-defined there, or the read's guard contains the guard of a write / an explicit presence test. "
    "R3 return-rank agreement of the log record routine (all return paths yield a rank-0 value). R4 every key stored by the result builder is "
    "in the allowed-key list. R5 a finiteness test with fallback assignment stands between the GP prediction at the incumbent and its use as "
    "target. R6 shape consistency of the GP refit retry: rows dropped from X and Y are dropped from the noise vector through the same mask, exactly once (shared with C16-R2). Numeric crashes (division by zero, NaN rounding, singular matrices outside fit) are out of static reach and not claimed."
    " R7 every operand of the retry's thinning mask is computed inside the loop from the current arrays. R8 the size of the high-density subset handed to the GP's bound initialisation is >= 1 for one logged point (constant folding with the ini fraction; the size is monotone in N)."
)

# keys whose subscript reads are safe for a reason the must-definition analysis cannot see; each entry carries a
# structural side condition that is re-checked on every run
TABLED = {
    "ntrain": ("guard", "(0 <= iteration)", "read only when optim_state['iter'] >= 0, i.e. after the main loop started; the first local GP fit (which writes it) precedes every such call"),
    "termination_msg": ("loop-body", "written on every path through one iteration of the main loop; the loop body runs at least once unless the experimental output_fcn option ends the run at initialisation"),
    "search_sufficient_improvement": ("loop-body", "written on every path through one iteration of the main loop before the search step reads it"),
}


class KeyPolicy(BasePolicy):
    """pseudo-variable $K holds the set of optim_state keys defined on every path."""

    def __init__(self, ka, fn, entry: FrozenSet[str]):
        self.ka = ka
        self.fn = fn
        self.entry = entry

    def initial(self, flow):
        return {"$K": self.entry} if self.entry else {}

    def refine(self, test, polarity, state, flow):
        if not polarity and id(test) in self.ka.exhaustive_last(self.fn):
            key = self.ka.exhaustive_last(self.fn)[id(test)]
            if key in state.get("$K", EMPTY):
                return None  # the if/elif chain covers every value the key can hold
        return state

    def after_stmt(self, node, state, flow):
        gen = set()
        s = node.stmt
        exprs = []
        if node.kind == "stmt":
            exprs = [s]
            if isinstance(s, (ast.Assign, ast.AugAssign, ast.AnnAssign)):
                tg = s.targets if isinstance(s, ast.Assign) else [s.target]
                stack = list(tg)
                while stack:
                    t = stack.pop()
                    if isinstance(t, (ast.Tuple, ast.List)):
                        stack.extend(t.elts)
                        continue
                    sk = state_key(t)
                    if sk and sk[0] == "OS" and isinstance(s, (ast.Assign, ast.AnnAssign)):
                        gen.add(sk[1])
        elif node.kind in ("test", "for"):
            exprs = [node.expr]
        elif node.kind == "with":
            exprs = [it.context_expr for it in s.items]
        for e in exprs:
            if e is None:
                continue
            for c in ast.walk(e):
                if isinstance(c, ast.Call):
                    for t in self.ka.prog.resolve_call(self.fn, c):
                        if isinstance(t, FunctionInfo):
                            gen |= self.ka.summary(t)
        if gen:
            state = dict(state)
            state["$K"] = frozenset(state.get("$K", EMPTY) | gen)
        return state


class KeyAnalysis:
    def __init__(self, prog, R):
        self.prog = prog
        self.R = R
        self._sum: Dict[int, FrozenSet[str]] = {}
        self._abs: Dict[int, TagFlow] = {}
        self._entry: Dict[int, FrozenSet[str]] = {}
        self._busy: Set[int] = set()

    def exhaustive_last(self, fn: FunctionInfo) -> Dict[int, str]:
        """id(test of the last elif) -> key, for if/elif chains ``OS[k] == c_i``
        without else that cover every literal ever stored to OS[k]."""
        k = id(fn.node)
        if not hasattr(self, "_exh"):
            self._exh = {}
            self._key_values = {}
            for f in self.prog.functions():
                for t, v, s, kind in iter_stores(f.node):
                    sk = state_key(t)
                    if sk and sk[0] == "OS":
                        c = const_num(v) if v is not None else None
                        self._key_values.setdefault(sk[1], set()).add(c if (c is not None and kind == "assign") else "?")
        if k not in self._exh:
            out = {}
            for node in ast.walk(fn.node):
                if not isinstance(node, ast.If):
                    continue
                par = self.prog.parent(node)
                if isinstance(par, ast.If) and par.orelse == [node]:
                    continue  # not the head of a chain
                chain, cur = [], node
                while True:
                    chain.append(cur)
                    if len(cur.orelse) == 1 and isinstance(cur.orelse[0], ast.If):
                        cur = cur.orelse[0]
                    else:
                        break
                if cur.orelse:
                    continue
                keys, consts = set(), set()
                for c in chain:
                    t = c.test
                    if isinstance(t, ast.Compare) and len(t.ops) == 1 and isinstance(t.ops[0], ast.Eq):
                        sk = state_key(t.left)
                        cv = const_num(t.comparators[0])
                        if sk and sk[0] == "OS" and cv is not None:
                            keys.add(sk[1])
                            consts.add(cv)
                            continue
                    keys.add(None)
                if len(keys) == 1 and None not in keys:
                    key = next(iter(keys))
                    vals = self._key_values.get(key, {"?"})
                    if "?" not in vals and vals <= consts:
                        out[id(chain[-1].test)] = key
            self._exh[k] = out
        return self._exh[k]

    def summary(self, fn: FunctionInfo) -> FrozenSet[str]:
        k = id(fn.node)
        if k in self._sum:
            return self._sum[k]
        if k in self._busy:
            return EMPTY
        self._busy.add(k)
        fl = TagFlow(self.prog, fn, KeyPolicy(self, fn, EMPTY))
        st = fl.state_at_exit()
        res = (st or {}).get("$K", EMPTY)
        self._busy.discard(k)
        self._sum[k] = res
        return res

    def entry(self, fn: FunctionInfo) -> FrozenSet[str]:
        k = id(fn.node)
        if k in self._entry:
            return self._entry[k]
        if ("e", k) in self._busy:
            return EMPTY
        self._busy.add(("e", k))
        R = self.R
        if fn is R.bads_init:
            res = EMPTY
        elif fn is R.optimize:
            res = self.summary(R.bads_init)
        else:
            acc = None
            for caller, call in self.prog.callers_of(fn):
                if not self.on_run_path(caller):
                    continue
                st = self.abs_flow(caller).state_before(call)
                if st is None:
                    continue
                ks = st.get("$K", EMPTY)
                acc = ks if acc is None else (acc & ks)
            res = acc if acc is not None else EMPTY
        self._busy.discard(("e", k))
        self._entry[k] = res
        return res

    def on_run_path(self, fn) -> bool:
        if not hasattr(self, "_run_fns"):
            self._run_fns = self.prog.reachable_from(self.R.bads_init) | self.prog.reachable_from(self.R.optimize)
        return fn in self._run_fns

    def abs_flow(self, fn: FunctionInfo) -> TagFlow:
        k = id(fn.node)
        if k not in self._abs:
            self._abs[k] = TagFlow(self.prog, fn, KeyPolicy(self, fn, self.entry(fn)))
        return self._abs[k]

    def defined_at(self, fn: FunctionInfo, node: ast.AST) -> Optional[FrozenSet[str]]:
        st = self.abs_flow(fn).state_before(node)
        if st is None:
            return None
        return st.get("$K", EMPTY)


# ------------------------------------------------------------------ R1 helpers
DERIVING_NP = {"np.append", "np.vstack", "np.concatenate", "np.copy", "np.atleast_2d", "np.sort", "np.unique", "np.delete"}
REDUCERS = {"np.argmin", "np.argmax", "np.min", "np.max", "np.amin", "np.amax", "np.nanargmin", "np.nanmin"}


class EmptyPolicy(BasePolicy):
    """NE = known non-empty (must)."""

    row_select_preserves = False

    def __init__(self, derived: Set[str], acq_names: Set[str]):
        self.derived = derived
        self.acq = acq_names

    def eval_call(self, expr, state, flow):
        n = call_name(expr)
        if isinstance(expr.func, ast.Name) and expr.func.id in self.acq and expr.args:
            return self.eval(expr.args[0], state, flow)
        return EMPTY

    def eval_unpack(self, value, i, n, state, flow):
        if isinstance(value, ast.Call) and isinstance(value.func, ast.Name) and value.func.id in self.acq and value.args:
            return self.eval(value.args[0], state, flow)
        return super().eval_unpack(value, i, n, state, flow)

    def refine(self, test, polarity, state, flow):
        for c, pol in _facts(test, polarity):
            name = _nonempty_fact(c, pol)
            if name:
                state[name] = frozenset({"NE"})
        return state


def _facts(test, polarity):
    """atomic (expr, polarity) facts implied by test == polarity."""
    if isinstance(test, ast.UnaryOp) and isinstance(test.op, ast.Not):
        return _facts(test.operand, not polarity)
    if isinstance(test, ast.BoolOp):
        if (isinstance(test.op, ast.And) and polarity) or (isinstance(test.op, ast.Or) and not polarity):
            out = []
            for v in test.values:
                out += _facts(v, polarity)
            return out
        return []
    return [(test, polarity)]


def _size_expr(e) -> Optional[str]:
    """x.size / len(x) / x.shape[0] -> path of x."""
    if isinstance(e, ast.Attribute) and e.attr == "size":
        return path_of(e.value)
    if isinstance(e, ast.Call) and call_name(e) in ("len", "np.size") and e.args:
        return path_of(e.args[0])
    if isinstance(e, ast.Subscript) and isinstance(e.value, ast.Attribute) and e.value.attr == "shape" and const_num(e.slice) == 0:
        return path_of(e.value.value)
    return None


def _nonempty_fact(c, pol) -> Optional[str]:
    if isinstance(c, ast.Compare) and len(c.ops) == 1:
        l, r = c.left, c.comparators[0]
        op = type(c.ops[0])
        for a, b, flip in ((l, r, False), (r, l, True)):
            nm = _size_expr(a)
            k = const_num(b)
            if nm is None or k is None:
                continue
            o = op
            if flip:
                o = {ast.Lt: ast.Gt, ast.Gt: ast.Lt, ast.LtE: ast.GtE, ast.GtE: ast.LtE}.get(o, o)
            # size > 0, size >= 1, size != 0 (true) ; size == 0, size <= 0, size < 1 (false)
            if pol and ((o is ast.Gt and k >= 0) or (o is ast.GtE and k >= 1) or (o is ast.NotEq and k == 0)):
                return nm
            if not pol and ((o is ast.Eq and k == 0) or (o is ast.LtE and k == 0) or (o is ast.Lt and k <= 1)):
                return nm
    return None


def derived_names(prog, fn: FunctionInfo, R, acq_names) -> Set[str]:
    """flow-insensitive may-provenance: locals that may hold (rows derived from) a
    candidate-filter result."""
    filt = R.filter_fn
    derived: Set[str] = set()
    changed = True

    def is_derived(e) -> bool:
        if isinstance(e, ast.Name):
            return e.id in derived
        if isinstance(e, ast.Call):
            if any(t is filt for t in prog.resolve_call(fn, e) if isinstance(t, FunctionInfo)):
                return True
            n = call_name(e)
            if n in DERIVING_NP:
                args = list(e.args)
                if args and isinstance(args[0], (ast.Tuple, ast.List)):
                    args = list(args[0].elts)
                return any(is_derived(a) for a in args[:2])
            if isinstance(e.func, ast.Attribute) and e.func.attr in ("copy", "flatten") and not e.args:
                return is_derived(e.func.value)
            if isinstance(e.func, ast.Name) and e.func.id in acq_names and e.args:
                return is_derived(e.args[0])
            return False
        if isinstance(e, ast.Subscript):
            # row selection by a vector / slice keeps the (possibly empty) row set
            if const_num(e.slice) is not None:
                return False
            return is_derived(e.value)
        return False

    while changed:
        changed = False
        for t, v, s, k in iter_stores(fn.node):
            if v is None or isinstance(s, (ast.For, ast.AsyncFor)):
                continue
            names = [t.id] if isinstance(t, ast.Name) else []
            if not names:
                continue
            d = is_derived(v)
            if k.startswith("assign[") and isinstance(v, ast.Call):
                d = is_derived(v)
            if d and names[0] not in derived:
                derived.add(names[0])
                changed = True
    return derived


def check(ctx):
    prog = ctx.prog
    R = roles_of(prog)

    # ------------------------------------------------------------------ R1
    ctx.rule("R1", "possibly-empty candidate sets are not indexed / reduced without an emptiness guard", floor=3)
    acq = prog.try_function("acq_fcn_lcb")
    acq_names = {"acq_fcn_lcb"} if acq else set()
    users = sorted({f for f, _c in R.filter_calls()}, key=lambda f: f.qualname)
    for fn in users:
        derived = derived_names(prog, fn, R, acq_names)
        if not derived:
            continue
        fl = TagFlow(prog, fn, EmptyPolicy(derived, acq_names))
        flagged = set()
        for node in ast.walk(fn.node):
            sink, what = None, None
            if isinstance(node, ast.Subscript) and isinstance(node.ctx, ast.Load) and isinstance(node.value, ast.Name) and node.value.id in derived:
                k = const_num(node.slice)
                if k is not None and isinstance(k, int):
                    sink, what = node.value, f"{node.value.id}[{k}]"
            elif isinstance(node, ast.Call) and call_name(node) in REDUCERS and node.args and isinstance(node.args[0], ast.Name) and node.args[0].id in derived:
                sink, what = node.args[0], f"{call_name(node)}({node.args[0].id})"
            elif isinstance(node, ast.Call) and isinstance(node.func, ast.Attribute) and node.func.attr in ("min", "max", "argmin", "argmax") and isinstance(node.func.value, ast.Name) and node.func.value.id in derived:
                sink, what = node.func.value, f"{node.func.value.id}.{node.func.attr}()"
            if sink is None:
                continue
            tags = fl.tags(sink)
            if tags is None:
                continue
            stmt = node
            while not isinstance(stmt, ast.stmt):
                stmt = prog.parent(stmt)
            if "NE" in tags:
                ctx.ok(fn, node, f"{what} under an emptiness guard")
            elif id(stmt) in flagged:
                continue
            else:
                flagged.add(id(stmt))
                ctx.fail(fn, stmt, f"{what}: '{sink.id}' derives from the candidate filter, which can return no rows (every candidate infeasible / already visited), and is indexed with no emptiness guard on this path",
                         construct=f"unguarded {what} in {norm_stmt(stmt)[:70]}")

    # ------------------------------------------------------------------ R2
    ctx.rule("R2", "optim_state keys are defined before every subscript read (must-definition + guard agreement)", floor=40)
    ka = KeyAnalysis(prog, R)
    writes: Dict[str, List[Tuple[FunctionInfo, ast.AST]]] = {}
    for fn in prog.functions():
        for t, v, s, k in iter_stores(fn.node):
            sk = state_key(t)
            if sk and sk[0] == "OS" and isinstance(t, ast.Subscript):
                writes.setdefault(sk[1], []).append((fn, s))
    run_fns = prog.reachable_from(R.bads_init) | prog.reachable_from(R.optimize)
    cfg_opt = cfg_of(R.optimize)
    main_loop = None
    for n in cfg_opt.nodes:
        if n.kind == "test" and isinstance(n.stmt, ast.While) and main_loop is None:
            main_loop = n
    checked = set()
    for fn in sorted(run_fns, key=lambda f: f.qualname):
        for node in ast.walk(fn.node):
            if not (isinstance(node, ast.Subscript) and isinstance(node.ctx, ast.Load)):
                continue
            sk = state_key(node)
            if not sk or sk[0] != "OS":
                continue
            key = sk[1]
            par = prog.parent(node)
            if isinstance(par, ast.AugAssign) and par.target is node:
                pass
            defined = ka.defined_at(fn, node)
            if defined is None:
                continue
            site = (fn.qualname, key)
            if key in defined:
                if site not in checked:
                    ctx.ok(fn, node, f"OS[{key}] must-defined")
                    checked.add(site)
                continue
            g = set(guard_canon(prog, fn, node))
            # explicit presence test
            if f"(OS[{key}] is not None)" in g or f"('{key}' in OS)" in g or f"not ('{key}' not in OS)" in g:
                ctx.ok(fn, node, f"OS[{key}] read under a presence test")
                continue
            # writer/reader guard agreement
            agree = False
            for wfn, ws in writes.get(key, []):
                wg = set(guard_canon(prog, wfn, ws))
                wg = {x for x in wg if "is_finished" not in x}
                if wg and wg <= g:
                    agree = True
            if agree:
                ctx.ok(fn, node, f"OS[{key}] read under the guard of its write")
                continue
            if key in TABLED and TABLED[key][0] == "loop-body" and main_loop is not None:
                # side condition: must-defined at every back edge of the main loop
                fl = ka.abs_flow(R.optimize)
                ok = True
                for p in cfg_opt.g.predecessors(main_loop.id):
                    if p in cfg_opt.loops.get(main_loop.id, set()):
                        st = fl.out.get(p) or {}
                        if key not in st.get("$K", EMPTY):
                            ok = False
                if ok:
                    ctx.ok(fn, node, f"OS[{key}] tabled: {TABLED[key][1]}")
                    continue
            if key in TABLED and TABLED[key][0] == "guard" and TABLED[key][1] in g:
                ctx.ok(fn, node, f"OS[{key}] tabled: {TABLED[key][2]}")
                continue
            if not writes.get(key):
                ctx.fail(fn, node, f"optim_state['{key}'] is read but never written anywhere in the package: KeyError", construct=f"read of never-written OS[{key}]")
                continue
            wdesc = "; ".join(f"{wf.short}: {' & '.join(guard_canon(prog, wf, ws)[-3:]) or 'unconditional'}" for wf, ws in writes[key][:3])
            ctx.fail(fn, node, f"optim_state['{key}'] is read by subscript but is not defined on every path reaching this read, and the read's guard {sorted(g)[-3:] or '(none)'} does not imply the guard of any write ({wdesc}): KeyError on that path",
                     construct=f"subscript read of OS[{key}]")

    # ------------------------------------------------------------------ R3
    ctx.rule("R3", "all return paths of the log record routine return a rank-0 value", floor=3)
    rec, _ = record_routine(prog, R)
    arrays = per_row_arrays(prog, R)
    for node in ast.walk(rec.node):
        if isinstance(node, ast.Return) and isinstance(node.value, ast.Tuple) and node.value.elts:
            r = _rank(prog, rec, node.value.elts[0], node, arrays, 0)
            if r == 0:
                ctx.ok(rec, node, f"returns rank-0 {canon(node.value.elts[0])}")
            elif r is None:
                ctx.undecided(f"rank of {canon(node.value.elts[0])} at line {node.lineno} not inferred")
            else:
                ctx.fail(rec, node, f"this path returns a rank-{r} array as the observed value while the other paths return a scalar: it flows into the GP statistics and breaks astype(float)", construct=f"return rank-{r} {canon(node.value.elts[0])}")

    # ------------------------------------------------------------------ R4
    ctx.rule("R4", "every key stored by the result builder is an allowed result key", floor=10)
    OR = R.result_cls
    allowed = None
    for s in OR.node.body:
        if isinstance(s, ast.Assign) and any(isinstance(t, ast.Name) and t.id == "_keys" for t in s.targets):
            try:
                allowed = set(ast.literal_eval(s.value))
            except Exception:
                allowed = None
    if allowed is None:
        ctx.undecided("OptimizeResult._keys is not a literal list")
    else:
        for m in OR.methods.values():
            for t, v, s, k in iter_stores(m.node):
                if isinstance(t, ast.Subscript) and canon(t.value) == "self":
                    key = const_str(t.slice)
                    if key is None:
                        continue
                    ctx.check(key in allowed, m, s, f"result key '{key}' allowed", f"result key '{key}' is not in OptimizeResult._keys: building the result raises ValueError at the end of every run", construct=f"result key {key}")

    # ------------------------------------------------------------------ R5
    ctx.rule("R5", "non-finite GP prediction at the incumbent has a fallback before it is used as target", floor=1)
    found = False
    for fn in R.bads.methods.values():
        preds = [n for n in ast.walk(fn.node) if isinstance(n, ast.Assign) and isinstance(n.value, ast.Call) and isinstance(n.value.func, ast.Attribute) and n.value.func.attr == "predict"
                 and isinstance(n.targets[0], ast.Tuple)]
        rets3 = [n for n in ast.walk(fn.node) if isinstance(n, ast.Return) and isinstance(n.value, ast.Tuple) and len(n.value.elts) == 3]
        if not preds or not rets3 or fn in (R.search_step, R.poll_step):
            continue
        if not any(canon(preds[0].targets[0].elts[0]) == canon(e) for r in rets3 for e in r.value.elts):
            continue
        found = True
        mu = canon(preds[0].targets[0].elts[0])
        ok = False
        for node in ast.walk(fn.node):
            if isinstance(node, ast.If) and "np.isfinite(" + mu + ")" in canon(node.test):
                assigns = [canon(t) for s in node.body if isinstance(s, ast.Assign) for t in s.targets]
                if mu in assigns:
                    ok = True
                    ctx.ok(fn, node, f"non-finite {mu} replaced by the stored incumbent estimate")
        if not ok:
            ctx.fail(fn, preds[0], f"the GP prediction {mu} at the incumbent is used as optimisation target with no finiteness test / fallback", construct="<missing non-finite fallback>")
    if not found:
        ctx.missing("pybads/bads/bads.py", "target-from-GP routine (predict at the incumbent, returns mean / sd / target)")
    # ------------------------------------------------------------------ R6
    from .c16 import fit_calls, retry_consistency

    fit_fns = [f for f in prog.functions() if fit_calls(prog, f)]
    retry_consistency(ctx, prog, fit_fns, rule_id="R6")
    from .c16 import retry_mask_freshness

    retry_mask_freshness(ctx, prog, fit_fns, rule_id="R7")
    # ------------------------------------------------------------------ R8
    ctx.rule("R8", "the high-density subset used to initialise the GP hyperparameter bounds is non-empty whenever one point is logged", floor=1)
    _hpd_nonempty(ctx, prog)
    ctx.rule("R9", "a non-finite GP prediction cannot poison the hedge scores (NaN probabilities make the next strategy draw fail)", floor=1)
    from .c18 import _hedge_reward_rule

    hcls = prog.find_class("ESSearchHedge") if any(c.name == "ESSearchHedge" for c in prog.classes()) else None
    if hcls is None:
        ctx.undecided("no search hedge class")
        ctx.rules["R9"].floor = 0
    else:
        _hedge_reward_rule(ctx, prog, hcls)
    ctx.assume("numeric crash classes (division by zero, round(nan), singular matrices outside fit) are not decided")
    ctx.assume("dict.get reads and reads through local aliases of sub-dicts are not subscript reads of optim_state")


def _fold(e, env):
    """constant folding of a size expression over {+,-,*,/,//, round, int, ceil, floor, max, min}; None if not foldable."""
    import math

    if isinstance(e, ast.Constant) and isinstance(e.value, (int, float)) and not isinstance(e.value, bool):
        return e.value
    if isinstance(e, ast.Name):
        return env.get(e.id)
    if isinstance(e, ast.BinOp):
        l, r = _fold(e.left, env), _fold(e.right, env)
        if l is None or r is None:
            return None
        try:
            return {ast.Add: lambda: l + r, ast.Sub: lambda: l - r, ast.Mult: lambda: l * r, ast.Div: lambda: l / r, ast.FloorDiv: lambda: l // r}[type(e.op)]()
        except Exception:
            return None
    if isinstance(e, ast.Call) and len(e.args) >= 1:
        n = call_name(e) or ""
        a = [_fold(x, env) for x in e.args]
        if any(x is None for x in a):
            return None
        if n in ("round", "np.round", "np.rint") and len(a) == 1:
            return round(a[0])
        if n in ("int", "math.floor", "np.floor", "math.trunc"):
            return math.floor(a[0]) if n != "int" else int(a[0])
        if n in ("math.ceil", "np.ceil"):
            return math.ceil(a[0])
        if n in ("max", "np.maximum") and len(a) == 2:
            return max(a)
        if n in ("min", "np.minimum") and len(a) == 2:
            return min(a)
    return None


def _hpd_nonempty(ctx, prog):
    """gpyreg's bound initialisation reduces over the subset (max/min): an empty subset raises.  The subset is
    ``order[0:k]`` with k a rounding of frac * N; k is monotone in N, so k >= 1 for every N >= 1 iff it is >= 1 at N = 1
    with the shipped fraction (constant folding of the size expression, not an execution of pybads)."""
    from ..ini import Ini

    fn = prog.try_function("get_hpd")
    if fn is None:
        ctx.undecided("no get_hpd helper")
        ctx.rules["R8"].floor = 0
        return
    ini = Ini(prog.root)
    frac = ini.number("hpd_frac")
    params = [p for p in fn.params]
    fparam = params[2] if len(params) > 2 else None
    # N: first element of the unpacked shape of the first parameter
    nname = None
    for t, v, s, k in iter_stores(fn.node):
        if isinstance(t, ast.Name) and k == "assign[0]" and isinstance(v, ast.Attribute) and v.attr == "shape":
            nname = t.id
    sizes = []
    for node in ast.walk(fn.node):
        if isinstance(node, ast.Subscript) and isinstance(node.slice, ast.Slice) and node.slice.upper is not None and isinstance(node.slice.upper, ast.Name) and node.slice.lower is not None and const_num(node.slice.lower) == 0:
            sizes.append((node, node.slice.upper.id))
        elif isinstance(node, ast.Subscript) and isinstance(node.slice, ast.Slice) and isinstance(node.slice.upper, ast.Name) and node.slice.lower is None:
            sizes.append((node, node.slice.upper.id))
    if not sizes or nname is None or frac is None:
        ctx.undecided("size expression of the high-density subset not recognised")
        ctx.rules["R8"].floor = 0
        return
    for node, kname in sizes:
        defs = [v for t, v, s, k in iter_stores(fn.node) if isinstance(t, ast.Name) and t.id == kname and v is not None]
        for d in defs:
            k1 = _fold(d, {nname: 1, fparam: float(frac)} if fparam else {nname: 1})
            if k1 is None:
                ctx.undecided(f"size expression '{canon(d)}' is not foldable")
                continue
            ctx.check(k1 >= 1, fn, node, f"subset size {canon(d)} = {k1} at N = 1 (fraction {frac})", f"the subset size '{canon(d)}' is {k1} when a single point is logged (fraction {frac}): the empty subset makes the GP's bound initialisation raise and optimize() aborts", construct=f"hpd size {canon(d)} = {k1} at N=1")


def _rank(prog, fn, e, at, arrays, depth) -> Optional[int]:
    if depth > 6:
        return None
    if isinstance(e, ast.Constant):
        return 0
    if isinstance(e, ast.Call) and isinstance(e.func, ast.Attribute) and e.func.attr == "item":
        return 0
    if isinstance(e, ast.Call) and call_name(e) in ("float", "int"):
        return 0
    if isinstance(e, ast.Name):
        if e.id in fn.params:
            return 0  # validated scalar parameters of the record routine
        defs = reaching_assignments(prog, fn, e.id, at)
        ranks = {_rank(prog, fn, d, at, arrays, depth + 1) for d in defs}
        if len(ranks) == 1:
            return next(iter(ranks))
        if None in ranks or not ranks:
            return None
        return max(ranks)
    if isinstance(e, ast.Subscript):
        a = self_attr_of(e.value) if isinstance(e.value, ast.Attribute) else None
        if a in arrays:
            sl = e.slice
            if isinstance(sl, ast.Tuple):
                return max(arrays[a]["rank"] - len(sl.elts), 0)
            if isinstance(sl, ast.Slice):
                return arrays[a]["rank"]
            return arrays[a]["rank"] - 1
        return None
    if isinstance(e, ast.BinOp):
        l, r = _rank(prog, fn, e.left, at, arrays, depth + 1), _rank(prog, fn, e.right, at, arrays, depth + 1)
        if l is None or r is None:
            return None
        return max(l, r)
    return None


def check_thorough(ctx):
    """generic definite-assignment lint over all functions (diagnostic D1)."""
    from ..thorough import possibly_unbound

    ctx.extra["diagnostic_possibly_unbound_locals"] = possibly_unbound(ctx.prog)
    ctx.note("D1 (diagnostic only, not armed): locals possibly unbound at a use are listed in coverage.diagnostic_possibly_unbound_locals; flag correlations make most of them infeasible")
