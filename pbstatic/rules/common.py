"""Helpers shared by several rule packs."""
from __future__ import annotations

import ast
from fractions import Fraction
from typing import Dict, Iterator, List, Optional, Tuple

from ..cfg import cfg_of
from ..model import AnalysisError, ClassInfo, FunctionInfo, Program, bind_args
from ..terms import call_name, canon, cmp_normal, const_num, dotted, state_key


def iter_stores(fn_node: ast.AST) -> Iterator[Tuple[ast.AST, Optional[ast.AST], ast.AST, str]]:
    """(target, value or None, statement, kind) for every assignment target in
    a function, tuple targets flattened (value is the matching element when the
    right-hand side is a literal tuple, else the whole right-hand side)."""

    def flat(t, v, s, kind):
        if isinstance(t, (ast.Tuple, ast.List)):
            for i, e in enumerate(t.elts):
                if isinstance(v, (ast.Tuple, ast.List)) and len(v.elts) == len(t.elts):
                    yield from flat(e, v.elts[i], s, kind)
                else:
                    yield from flat(e, v, s, kind + f"[{i}]")
        else:
            yield t, v, s, kind

    for node in ast.walk(fn_node):
        if isinstance(node, ast.Assign):
            for t in node.targets:
                yield from flat(t, node.value, node, "assign")
        elif isinstance(node, ast.AnnAssign) and node.value is not None:
            yield node.target, node.value, node, "assign"
        elif isinstance(node, ast.AugAssign):
            yield node.target, node.value, node, "aug"
        elif isinstance(node, (ast.For, ast.AsyncFor)):
            yield from flat(node.target, node.iter, node, "for")


def store_base(target: ast.AST) -> ast.AST:
    """``self.A[i][j]`` -> ``self.A``."""
    while isinstance(target, ast.Subscript):
        target = target.value
    return target


def self_attr_of(target: ast.AST) -> Optional[str]:
    b = store_base(target)
    if isinstance(b, ast.Attribute) and isinstance(b.value, ast.Name) and b.value.id == "self":
        return b.attr
    return None


def attr_stores(prog: Program, cls: ClassInfo, attr: str) -> List[Tuple[FunctionInfo, ast.AST, Optional[ast.AST], ast.AST, str]]:
    """All stores to ``self.<attr>`` (whole or subscripted) in the methods of
    ``cls`` (and of its package subclasses)."""
    out = []
    classes = [cls] + cls.subclasses(prog)
    for c in classes:
        for m in c.methods.values():
            for t, v, s, kind in iter_stores(m.node):
                if self_attr_of(t) == attr:
                    out.append((m, t, v, s, kind))
    return out


def key_stores(prog: Program, space: str, key: str):
    """All stores to ``optim_state["key"]`` / ``options["key"]`` in the package
    (space = "OS" | "OPT")."""
    out = []
    for fn in prog.functions():
        for t, v, s, kind in iter_stores(fn.node):
            sk = state_key(t)
            if sk == (space, key):
                out.append((fn, t, v, s, kind))
    return out


def key_reads(prog: Program, space: str, key: str):
    out = []
    for fn in prog.functions():
        for node in ast.walk(fn.node):
            if isinstance(node, (ast.Subscript, ast.Call)) and state_key(node) == (space, key):
                if isinstance(node, ast.Subscript) and isinstance(node.ctx, (ast.Store, ast.Del)):
                    continue
                out.append((fn, node))
    return out


def int_le_form(test: ast.AST, neg: bool = False):
    """Integer-valued comparison -> canonical ``form <= 0`` (``a < b`` is
    ``a - b + 1 <= 0``); None when not a single ordering comparison."""
    cn = cmp_normal(test, neg)
    if cn is None:
        return None
    rel, (form, const) = cn
    if rel == "<":
        return ("<=", (form, const + 1))
    if rel == "<=":
        return ("<=", (form, const))
    return (rel, (form, const))


def form_dict(nf) -> Tuple[Dict[str, Fraction], Fraction]:
    return dict(nf[1][0]), nf[1][1]


def find_calls(node: ast.AST, *names: str) -> List[ast.Call]:
    out = []
    for n in ast.walk(node):
        if isinstance(n, ast.Call) and call_name(n) in names:
            out.append(n)
    return out


def enclosing_stmt(prog: Program, node: ast.AST) -> ast.AST:
    cur = node
    while cur is not None and not isinstance(cur, ast.stmt):
        cur = prog.parent(cur)
    return cur


def reaching_assignments(prog: Program, fn: FunctionInfo, name: str, at: ast.AST) -> List[ast.AST]:
    """Value expressions of the assignments to local ``name`` that may reach
    ``at`` (CFG reachability without passing another assignment to ``name``)."""
    cfg = cfg_of(fn)
    target = cfg.node_of(at)
    defs = []
    for t, v, s, kind in iter_stores(fn.node):
        if isinstance(t, ast.Name) and t.id == name and prog.function_of(s) is fn:
            n = cfg.node_of(s) if not isinstance(s, (ast.For, ast.AsyncFor)) else cfg.head_of(s)
            if n is not None:
                defs.append((n.id, v, s))
    out = []
    if target is None:
        return [v for _n, v, _s in defs]
    avoid = {d[0] for d in defs} - {target.id}
    for nid, v, s in defs:
        ok = False
        for sx in cfg.g.successors(nid):
            if sx == target.id or (sx not in avoid and target.id in cfg.reachable(sx, avoiding=avoid)):
                ok = True
                break
        if ok:
            out.append(v)
    return out


def literal_shape_first_dim(call: ast.Call) -> Optional[ast.AST]:
    """First dimension expression of np.full/zeros/ones/empty(shape, ...)."""
    if call_name(call) not in ("np.full", "np.zeros", "np.ones", "np.empty"):
        return None
    if not call.args:
        return None
    sh = call.args[0]
    if isinstance(sh, (ast.Tuple, ast.List)) and sh.elts:
        return sh.elts[0]
    return sh


def shape_rank(call: ast.Call) -> Optional[int]:
    if call_name(call) not in ("np.full", "np.zeros", "np.ones", "np.empty"):
        return None
    if not call.args:
        return None
    sh = call.args[0]
    if isinstance(sh, (ast.Tuple, ast.List)):
        return len(sh.elts)
    return 1


def kw(call: ast.Call, name: str) -> Optional[ast.AST]:
    for k in call.keywords:
        if k.arg == name:
            return k.value
    return None


def deref_expr(prog, fn, expr):
    """canonical text of ``expr`` with local names replaced by their unique defining expression."""
    import copy

    # locals that are stored into in place are not equal to their defining expression any more
    mutated = set()
    for t_, v_, s_, k_ in iter_stores(fn.node):
        b_ = t_
        while isinstance(b_, ast.Subscript):
            b_ = b_.value
        if isinstance(b_, ast.Name) and (b_ is not t_ or k_ == "aug"):
            mutated.add(b_.id)

    # values bound by tuple unpacking (``a, b = f()``) are not definitions of the single names
    unpacked_values = {id(v_) for t_, v_, s_, k_ in iter_stores(fn.node) if (k_.startswith("assign[") or k_.startswith("for")) and v_ is not None and not isinstance(v_, (ast.Tuple, ast.List))}

    local_stores = {}
    for t_, v_, s_, k_ in iter_stores(fn.node):
        if isinstance(t_, ast.Name):
            local_stores[t_.id] = local_stores.get(t_.id, 0) + 1

    def _stale(d) -> bool:
        """the defining expression d reads a local that is re-bound between the definition and the use: the local that
        holds d's value is a snapshot (``given = plb is not None`` ... ``plb = default`` ... ``if given:``), not d"""
        st = d
        while st is not None and not isinstance(st, ast.stmt):
            st = prog.parent(st)
        if st is None:
            return False
        for n_ in ast.walk(d):
            if isinstance(n_, ast.Name) and isinstance(n_.ctx, ast.Load) and local_stores.get(n_.id, 0) > 1:
                r_def = {id(x) for x in reaching_assignments(prog, fn, n_.id, st)}
                r_use = {id(x) for x in reaching_assignments(prog, fn, n_.id, expr)}
                if r_def != r_use:
                    return True
            elif isinstance(n_, ast.Name) and isinstance(n_.ctx, ast.Load) and local_stores.get(n_.id, 0) == 1 and n_.id in getattr(fn, "params", []):
                # a parameter with one later store: the value at the definition may be the argument, at the use the store
                r_def = {id(x) for x in reaching_assignments(prog, fn, n_.id, st)}
                r_use = {id(x) for x in reaching_assignments(prog, fn, n_.id, expr)}
                if r_def != r_use:
                    return True
        return False

    class D(ast.NodeTransformer):
        def __init__(self):
            self.depth = 0

        def visit_Subscript(self, node):
            if not isinstance(node.value, ast.Name):
                node.value = self.visit(node.value)
            node.slice = self.visit(node.slice)
            return node

        def visit_Attribute(self, node):
            if not isinstance(node.value, ast.Name):
                node.value = self.visit(node.value)
            return node

        def visit_Call(self, node):
            # a one-line package helper ``def h(self): return <expr over self.*>`` called without arguments
            self.generic_visit(node)
            if not node.args and not node.keywords and self.depth < 4:
                ts = [t for t in prog.resolve_call(fn, node) if isinstance(t, FunctionInfo)]
                if len(ts) == 1 and [p for p in ts[0].params if p != "self"] == []:
                    body = [b for b in ts[0].node.body if not (isinstance(b, ast.Expr) and isinstance(b.value, ast.Constant))]
                    if len(body) == 1 and isinstance(body[0], ast.Return) and body[0].value is not None:
                        return copy.deepcopy(body[0].value)
            return node

        def visit_Name(self, node):
            if isinstance(node.ctx, ast.Load) and self.depth < 4 and node.id not in mutated:
                defs = reaching_assignments(prog, fn, node.id, expr)
                if len(defs) == 1 and defs[0] is not None and not isinstance(defs[0], ast.Name) and id(defs[0]) not in unpacked_values and not _stale(defs[0]):
                    self.depth += 1
                    try:
                        return self.visit(copy.deepcopy(defs[0]))
                    finally:
                        self.depth -= 1
            return node

    return D().visit(copy.deepcopy(expr))


def deref_canon(prog, fn, expr) -> str:
    return canon(deref_expr(prog, fn, expr))


ALIAS_CALLS = {"np.asarray", "np.asanyarray", "np.atleast_1d", "np.atleast_2d", "np.ravel", "np.squeeze", "np.reshape"}
ALIAS_METHODS = {"reshape", "ravel", "squeeze", "view"}


def helper_purity(ctx, prog, rule_id: str):
    """Effect rule: a module-level package function does not write into an array it was handed (subscript / augmented
    store through the parameter or a view of it - np.asarray, reshape ... do not copy - or a ufunc ``out=`` aimed at it).
    The callers keep using their arrays afterwards: the bounds they compare a rounded copy with, the incumbent, the
    candidate matrix.  State dictionaries (stores with a string-literal key) are the intended output channel and exempt."""
    ctx.rule(rule_id, "package helpers do not modify the arrays they are handed (no in-place store or ufunc out= through a parameter or a view of it)", floor=5)
    for fn in prog.functions():
        if fn.cls is not None:
            continue
        params = {p for p in fn.params}
        if not params:
            continue
        alias = set(params)

        def is_alias(e):
            if isinstance(e, ast.Name):
                return e.id in alias
            if isinstance(e, ast.Call) and call_name(e) in ALIAS_CALLS and e.args:
                return is_alias(e.args[0])
            if isinstance(e, ast.Call) and isinstance(e.func, ast.Attribute) and e.func.attr in ALIAS_METHODS:
                return is_alias(e.func.value)
            if isinstance(e, ast.Attribute) and e.attr == "T":
                return is_alias(e.value)
            return False

        # flow-sensitive enough for helpers: walk the statements in order; a name re-bound to a fresh value stops aliasing
        bad = []
        for st in ast.walk(fn.node):
            pass
        order = sorted((n for n in ast.walk(fn.node) if isinstance(n, (ast.Assign, ast.AugAssign, ast.Expr, ast.Return)) and prog.function_of(n) is fn), key=lambda n: getattr(n, "_ord", n.lineno * 1000 + n.col_offset))
        for st in order:
            for c in ast.walk(st):
                if isinstance(c, ast.Call):
                    for kw_ in c.keywords:
                        if kw_.arg == "out" and is_alias(kw_.value):
                            bad.append((st, f"{call_name(c) or canon(c.func)}(..., out={canon(kw_.value)})"))
            if isinstance(st, ast.Assign):
                for t in st.targets:
                    b = t
                    while isinstance(b, ast.Subscript):
                        b = b.value
                    if isinstance(t, ast.Subscript) and isinstance(b, ast.Name) and b.id in alias:
                        key = t.slice
                        if not (isinstance(key, ast.Constant) and isinstance(key.value, str)):
                            bad.append((st, f"{canon(t)[:40]} = ..."))
                    elif isinstance(t, ast.Name):
                        if is_alias(st.value):
                            alias.add(t.id)
                        else:
                            alias.discard(t.id)
            elif isinstance(st, ast.AugAssign):
                b = st.target
                while isinstance(b, ast.Subscript):
                    b = b.value
                if isinstance(b, ast.Name) and b.id in alias and not (isinstance(st.target, ast.Subscript) and isinstance(st.target.slice, ast.Constant) and isinstance(st.target.slice.value, str)):
                    bad.append((st, f"{canon(st.target)[:40]} op= ..."))
        if bad:
            for st, what in bad[:3]:
                ctx.fail(fn, st, f"{fn.short}() writes into an array it received ({what}): its callers keep using that array (bounds, incumbent, candidate matrix) and now see it modified", construct=f"in-place write through a parameter: {what[:50]}")
        else:
            ctx.ok(fn, fn.node, f"{fn.short} leaves its array arguments untouched")


def leaf_definitions(prog, fn, name: str, at, depth: int = 0) -> List[ast.AST]:
    """definitions of the local ``name`` that may reach ``at``, followed through plain name-to-name copies
    (``a = b`` with several definitions of ``b``): the expressions that actually compute the value."""
    out = []
    for d in reaching_assignments(prog, fn, name, at):
        if isinstance(d, ast.Name) and depth < 4 and d.id != name and d.id not in fn.params:
            sub = leaf_definitions(prog, fn, d.id, d, depth + 1)
            out += sub if sub else [d]
        else:
            out.append(d)
    return out


def pos(node) -> int:
    """Textual position of a node in the analysed (normalised) tree; use this,
    not lineno, to decide which of two statements comes first."""
    o = getattr(node, "_ord", None)
    if o is None:
        return getattr(node, "lineno", 0) * 1000 + getattr(node, "col_offset", 0)
    return o


def attr_stable_between(prog, fn, attr: str, def_stmt, use_node) -> bool:
    """``self.<attr>`` is not (re)assigned between the statement that read it into a local and the use of that local:
    no direct store and no call that can reach a method storing it, among the nodes positioned between the two and - when
    the use sits in a loop that does not contain the definition - anywhere in that loop."""
    from ..model import FunctionInfo

    if fn.cls is None:
        return False
    writers = {m for m, t, v, s, k in attr_stores(prog, fn.cls, attr)}
    lo, hi = pos(def_stmt), pos(use_node)
    region = []
    for n in ast.walk(fn.node):
        p_ = getattr(n, "_ord", None)
        if p_ is not None and lo < p_ < hi:
            region.append(n)
    anc = use_node
    def_anc = {id(a) for a in prog.ancestors(def_stmt)}
    for a in prog.ancestors(use_node):
        if isinstance(a, (ast.For, ast.While)) and id(a) not in def_anc:
            region.extend(ast.walk(a))
    for n in region:
        if isinstance(n, ast.Attribute) and n.attr == attr and isinstance(n.value, ast.Name) and n.value.id == "self" and not isinstance(n.ctx, ast.Load):
            return False
        if isinstance(n, ast.Call):
            for tgt in prog.resolve_call(fn, n):
                if isinstance(tgt, FunctionInfo) and (tgt in writers or writers & prog.reachable_from(tgt)):
                    return False
    return True
