"""C10 -- target failures and invalid target values surface immediately and
unchanged."""
from __future__ import annotations

import ast
from typing import Dict, List, Optional, Tuple

from ..cfg import cfg_of
from ..flow import BasePolicy
from ..model import AnalysisError, FunctionInfo, bind_args
from ..roles import roles_of
from ..terms import call_name, canon, cmp_normal, conjuncts, disjuncts, dotted, guard_canon, norm_stmt
from .c12 import record_routine
from .common import iter_stores, self_attr_of

EXPLANATION = (
    "R1: the handler of the try that encloses the target call ends in a bare raise on every path, never raises a new exception object and "
    "cannot fall through (CFG reachability from the handler head avoiding bare-raise nodes). R2: the value and SD validation tests (each an "
    "if whose body raises ValueError) dominate the record call and the func_count increment, and the increment is dominated by the record "
    "call. R3: for every other try statement in the package, no call in its body can reach the target sink through the resolved call graph, "
    "so no handler in GP/search/poll code can swallow a target failure. R4 checklist + siblings: the value test is a disjunction containing "
    "not-isscalar (first), not-isfinite, not-isreal; the SD test contains not-isscalar (first), not-isfinite, not-isreal and sd <= 0; with "
    "specified noise a non-(value, SD) pair raises ValueError; __call__ and add agree. R5 the value/SD recorded are the target's own outputs (unwrapping only, also through a validation helper). R6 a first-element extraction from the target's value needs a size-1 guard (or a value already known not to be an array). Decides the shape of the wrapper on all paths."
    " The value / SD arguments of the record call are located by the roles of the record routine's parameters (read off its stores), not by position."
)


def unwrap_any(t):
    while isinstance(t, ast.Call) and call_name(t) in ("np.any", "any", "bool") and t.args:
        t = t.args[0]
    return t


def pred_kind(e: ast.AST, pol: bool, var: Optional[str] = None) -> Optional[Tuple[str, str]]:
    """classify one disjunct of a validation test -> (kind, variable)."""
    if isinstance(e, ast.UnaryOp) and isinstance(e.op, ast.Not):
        return pred_kind(e.operand, not pol, var)
    if isinstance(e, ast.UnaryOp) and isinstance(e.op, ast.Invert):
        return pred_kind(e.operand, not pol, var)
    if isinstance(e, ast.Call) and call_name(e) in ("np.isscalar", "np.isfinite", "np.isreal", "np.isnan", "np.isinf") and e.args:
        k = call_name(e).split(".")[1]
        v = canon(e.args[0])
        if k in ("isscalar", "isfinite", "isreal") and not pol:
            return ("not-" + k, v)
        if k in ("isnan", "isinf") and pol:
            return (k, v)
        return None
    if isinstance(e, ast.Compare) and len(e.ops) == 1:
        nf = cmp_normal(e, neg=not pol)
        if nf:
            rel, (form, const) = nf
            form = dict(form)
            if len(form) == 1 and const == 0:
                (v, c), = form.items()
                if rel == "<=" and c == 1:
                    return ("<=0", v)
                if rel == "<" and c == 1:
                    return ("<0", v)
        if isinstance(e.ops[0], (ast.Is, ast.IsNot)) and isinstance(e.comparators[0], ast.Constant) and e.comparators[0].value is None:
            isnone = isinstance(e.ops[0], ast.Is) == pol
            if isnone:
                return ("is-none", canon(e.left))
    return None


def _strip_bool(e):
    class S(ast.NodeTransformer):
        def visit_Call(self, node):
            self.generic_visit(node)
            if isinstance(node.func, ast.Name) and node.func.id == "bool" and len(node.args) == 1 and not node.keywords:
                return node.args[0]
            return node

    import copy as _copy

    return S().visit(_copy.deepcopy(e))


def validation_tests(prog, fn: FunctionInfo):
    """[(If node, [(kind, var)...] in source order)] for ifs whose body raises
    ValueError."""
    out = []
    for node in ast.walk(fn.node):
        if not isinstance(node, ast.If) or prog.function_of(node) is not fn:
            continue
        body_raises = [s for s in node.body if isinstance(s, ast.Raise)]
        if not body_raises:
            continue
        exc = body_raises[-1].exc
        name = canon(exc.func) if isinstance(exc, ast.Call) else canon(exc) if exc is not None else None
        kinds = []
        from .common import deref_expr

        # the test may sit in a temporary (a predicate helper inlined by A9): ``ok = bool(a and b and c); if not ok: raise``
        t = unwrap_any(_strip_bool(deref_expr(prog, fn, node.test)))
        # split:  flag and (a or b or c)   /   a or b or c
        parts = []
        for c, p in conjuncts(t, True):
            c = unwrap_any(c)
            ds = disjuncts(c, p)
            if len(ds) > 1 or pred_kind(ds[0][0], ds[0][1]):
                parts = ds
        for d, p in parts:
            pk = pred_kind(unwrap_any(d), p)
            kinds.append(pk)
        if any(k for k in kinds):
            out.append((node, kinds, name))
    return out


class _TargetPolicy(BasePolicy):
    """T = the target's own return value, through unwrapping only;
    NA = known not to be an ndarray (scalar), established by isinstance tests / .item()."""

    row_select_preserves = True

    def __init__(self, sink, prog=None, fn=None, seeds=None):
        self.sink = sink
        self.prog, self.fn = prog, fn
        self.seeds = seeds or {}

    def initial(self, flow):
        return dict(self.seeds)

    def eval(self, expr, state, flow):
        if expr is self.sink:
            return frozenset({"T"})
        if isinstance(expr, ast.Constant) and expr.value is None:
            return frozenset({"T", "NONE", "NA"})
        if isinstance(expr, ast.Attribute) and expr.attr == "flat":
            return self.eval(expr.value, state, flow)
        if isinstance(expr, ast.Call) and isinstance(expr.func, ast.Attribute) and expr.func.attr == "item" and not expr.args:
            return (self.eval(expr.func.value, state, flow) - {"NONE"}) | {"NA"}
        if isinstance(expr, ast.Subscript) and isinstance(expr.value, ast.Attribute) and expr.value.attr == "flat":
            return self.eval(expr.value.value, state, flow) | {"NA"}
        return super().eval(expr, state, flow)

    def eval_call(self, expr, state, flow):
        # a helper of the same class that hands its (validated / unwrapped) argument back
        if self.prog is not None and self.fn is not None:
            from ..flow import TagFlow
            from ..model import bind_args as _b

            tg = [t for t in self.prog.resolve_call(self.fn, expr) if isinstance(t, FunctionInfo) and t.cls is self.fn.cls]
            if len(tg) == 1:
                b = _b(tg[0], expr)
                seeds = {p: self.eval(a, state, flow) for p, a in b.items()}
                sub = TagFlow(self.prog, tg[0], _TargetPolicy(None, None, None, seeds))
                acc = None
                for n in ast.walk(tg[0].node):
                    if isinstance(n, ast.Return) and n.value is not None:
                        t = sub.tags(n.value)
                        if t is None:
                            continue
                        acc = t if acc is None else acc & t
                return acc or frozenset()
        return frozenset()

    def eval_unpack(self, value, i, n, state, flow):
        t = self.eval(value, state, flow)
        if "T" in t:
            return frozenset({"T"})
        return super().eval_unpack(value, i, n, state, flow)

    def refine(self, test, polarity, state, flow):
        # isinstance(v, np.ndarray): on the false edge v is not an array
        if not polarity and isinstance(test, ast.Call) and isinstance(test.func, ast.Name) and test.func.id == "isinstance" and len(test.args) == 2 and "ndarray" in canon(test.args[1]):
            from ..flow import path_of

            p = path_of(test.args[0])
            if p is not None:
                state[p] = state.get(p, frozenset()) | {"NA"}
        return state


def _first_element_extractions(fn_node):
    """expressions that reduce an array to its first element without checking its size."""
    out = []
    for n in ast.walk(fn_node):
        if isinstance(n, ast.Subscript) and isinstance(n.ctx, ast.Load) and isinstance(n.slice, ast.Constant) and n.slice.value == 0:
            base = n.value
            src = None
            if isinstance(base, ast.Attribute) and base.attr == "flat":
                src = base.value
            elif isinstance(base, ast.Call) and isinstance(base.func, ast.Attribute) and base.func.attr in ("ravel", "flatten"):
                src = base.func.value
            if src is not None:
                while isinstance(src, ast.Call) and call_name(src) in ("np.array", "np.asarray", "np.atleast_1d") and src.args:
                    src = src.args[0]
                out.append((n, src))
    return out


def _record_value_args(prog, R, rec, call):
    """(value argument, SD argument) of a call of the record routine, by the roles of its parameters (positional fallback)."""
    from .c12 import record_param_roles

    role = record_param_roles(prog, R)
    b = bind_args(rec, call)
    v = b.get(role.get("Y_orig")) if role.get("Y_orig") else (call.args[2] if len(call.args) > 2 else None)
    s_ = b.get(role.get("S")) if role.get("S") else (call.args[3] if len(call.args) > 3 else None)
    return v, s_


def check(ctx):
    prog = ctx.prog
    R = roles_of(prog)
    lc = R.logger_call
    cfg = cfg_of(lc)
    sinks = [c for f, c in R.target_sinks if f is lc]
    if not sinks:
        raise AnalysisError("FunctionLogger.__call__ no longer calls the target")
    sink = sinks[0]

    # ------------------------------------------------------------------ R1
    ctx.rule("R1", "the handler around the target call re-raises the same exception on every path", floor=1)
    tr = None
    for p in prog.ancestors(sink):
        if isinstance(p, ast.Try):
            cur_in_body = any(sink in list(ast.walk(s)) for s in p.body)
            if cur_in_body:
                tr = p
                break
    if tr is None:
        ctx.ok(lc, sink, "target call is not wrapped in a try: exceptions propagate unchanged")
    else:
        for h in tr.handlers:
            hn = cfg.head_of(h)
            bare = set()
            bad_raise = None
            for n in cfg.nodes:
                if n.kind == "stmt" and isinstance(n.stmt, ast.Raise) and any(n.stmt is x for x in ast.walk(h)):
                    if n.stmt.exc is None:
                        bare.add(n.id)
                    else:
                        bad_raise = n.stmt
            if bad_raise is not None:
                ctx.fail(lc, bad_raise, "the handler around the target call raises a different exception object: the target's exception type is not preserved", construct=f"handler raises {canon(bad_raise.exc)}")
                continue
            reach = cfg.reachable(hn.id, avoiding=bare)
            hbody = {cfg.node_of(x).id for s in h.body for x in ast.walk(s) if cfg.node_of(x) is not None} | {hn.id}
            leak = [x for x in reach if x not in hbody and x not in bare]
            if leak or not bare:
                path = cfg.find_path(hn.id, leak[0], avoiding=bare) if leak else None
                ctx.fail(lc, h, "a path through the handler around the target call does not end in a bare raise: a target failure can be swallowed and the run continues",
                         construct="target handler falls through", witness=cfg.describe_path(path) if path else [])
            else:
                ctx.ok(lc, h, f"except {canon(h.type)}: every path ends in bare raise ({len(bare)} raise node(s))")
        # the same exception must not be caught-and-replaced by an inner finally/else
        if tr.finalbody:
            for s in tr.finalbody:
                for n in ast.walk(s):
                    if isinstance(n, (ast.Return, ast.Break, ast.Continue)):
                        ctx.fail(lc, n, "a finally clause around the target call can discard the in-flight exception", construct="finally discards exception")

    # ------------------------------------------------------------------ R4
    ctx.rule("R4", "validation checklist (isscalar first, isfinite, isreal; SD additionally <= 0) and sibling agreement", floor=4)
    summaries = {}
    for entry in (lc, R.logger_add):
        if entry is None:
            continue
        vts = validation_tests(prog, entry)
        rec, _ = record_routine(prog, R)
        rcalls = [c for c, tg in prog.calls_in(entry) if rec in tg]
        if not rcalls:
            ctx.missing(entry, "call of the record routine")
            continue
        rc = rcalls[0]
        val_arg, sd_arg = _record_value_args(prog, R, rec, rc)
        val_var = canon(val_arg) if val_arg is not None else None
        sd_var = canon(sd_arg) if sd_arg is not None else None
        found = {"value": None, "sd": None}
        # names connected to the recorded variable by plain copies (x = y): a helper inlined by A9 validates its renamed
        # parameter and copies it back
        def copies_of(name):
            out, work = {name}, [name]
            while work:
                n_ = work.pop()
                for t_, v_, s_, k_ in iter_stores(entry.node):
                    if isinstance(t_, ast.Name) and isinstance(v_, ast.Name) and k_ == "assign":
                        for a_, b_ in ((t_.id, v_.id), (v_.id, t_.id)):
                            if a_ == n_ and b_ not in out:
                                out.add(b_)
                                work.append(b_)
            return out

        val_names = copies_of(val_var) if val_var and val_var.isidentifier() else {val_var}
        sd_names = copies_of(sd_var) if sd_var and sd_var.isidentifier() else {sd_var}
        for node, kinds, exc in vts:
            vars_ = {k[1] for k in kinds if k}
            if val_names & vars_:
                found["value"] = (node, kinds, exc)
            elif sd_names & vars_:
                found["sd"] = (node, kinds, exc)
        # validation factored out into a helper: look one level into package callees that receive the variable
        if found["value"] is None or found["sd"] is None:
            from ..model import bind_args as _bind

            for c, tg in prog.calls_in(entry):
                for t in tg:
                    if not isinstance(t, FunctionInfo) or t is rec:
                        continue
                    b = _bind(t, c)
                    for which, var in (("value", val_var), ("sd", sd_var)):
                        if found[which] is not None or var is None:
                            continue
                        ps = [p_ for p_, e in b.items() if canon(e) == var]
                        if not ps:
                            continue
                        for node, kinds, exc in validation_tests(prog, t):
                            if ps[0] in {k[1] for k in kinds if k}:
                                found[which] = (node, [(k[0], var) if k and k[1] == ps[0] else k for k in kinds], exc)
        summaries[entry.name] = {}
        for which, var, need in (("value", val_var, ["not-isscalar", "not-isfinite", "not-isreal"]), ("sd", sd_var, ["not-isscalar", "not-isfinite", "not-isreal", "<=0"])):
            if found[which] is None:
                ctx.fail(entry, entry.node, f"no ValueError-raising validation of the returned {which} ({var}) before it is recorded", construct=f"<missing {which} validation in {entry.name}>")
                continue
            node, kinds, exc = found[which]
            names_ = val_names if which == "value" else sd_names
            have = [k[0] for k in kinds if k and (k[1] == var or k[1] in names_)]
            summaries[entry.name][which] = have
            okexc = exc == "ValueError"
            miss = [n for n in need if n not in have]
            if not okexc:
                ctx.fail(entry, node, f"invalid {which} raises {exc}, not ValueError", construct=f"{which} validation raises {exc}")
            elif miss:
                ctx.fail(entry, node, f"{which} validation in {entry.name} lacks the check(s) {miss}: such a return value is not rejected with ValueError (TypeError / silent acceptance instead)",
                         construct=f"{entry.name} {which} checks {have}")
            elif have and have[0] != "not-isscalar":
                ctx.fail(entry, node, f"{which} validation evaluates {have[0]} before the scalar-ness test: None / sequences raise TypeError inside numpy before the ValueError is reached",
                         construct=f"{entry.name} {which} check order {have}")
            else:
                ctx.ok(entry, node, f"{entry.name} {which}: {have} -> ValueError")
    if lc.name in summaries and R.logger_add is not None and R.logger_add.name in summaries:
        a, b = summaries[lc.name], summaries[R.logger_add.name]
        for which in ("value", "sd"):
            if which in a and which in b and set(a[which]) != set(b[which]):
                ctx.fail(lc, lc.node, f"sibling entry points disagree on the {which} checklist: __call__ {a[which]} vs add {b[which]}", construct=f"sibling {which} checklist mismatch")
    # pair format under specified noise
    pair_ok = False
    from .common import deref_canon as _dc, deref_expr as _dx10e

    for node in ast.walk(lc.node):
        if isinstance(node, ast.If):
            c = canon(node.test)
            if not ("tuple" in c and "len(" in c):
                c = _dc(prog, lc, node.test)  # the format test kept in a flag
            if "tuple" in c and "len(" in c and "2" in c:
                # the branch taken for a malformed result must raise ValueError (else branch of the positive test, or
                # the body of the negated one)
                for s in list(node.orelse) + list(node.body):
                    for n in ast.walk(s):
                        if isinstance(n, ast.Raise) and n.exc is not None and canon(n.exc).startswith("ValueError"):
                            pair_ok = True
                        # the malformed branch only sets a boolean flag; the raise sits under a later test of that flag
                        if isinstance(n, ast.Assign) and len(n.targets) == 1 and isinstance(n.targets[0], ast.Name) and isinstance(n.value, ast.Constant) and isinstance(n.value.value, bool):
                            flag, val = n.targets[0].id, n.value.value
                            others = [v_ for t_, v_, s_, k_ in iter_stores(lc.node) if isinstance(t_, ast.Name) and t_.id == flag and s_ is not n]
                            if not all(isinstance(v_, ast.Constant) and v_.value is (not val) for v_ in others):
                                continue
                            cfg_l = cfg_of(lc)
                            an = cfg_l.node_of(n)
                            for t2 in ast.walk(lc.node):
                                if not isinstance(t2, ast.If):
                                    continue
                                tt, pol = t2.test, True
                                while isinstance(tt, ast.UnaryOp) and isinstance(tt.op, ast.Not):
                                    tt, pol = tt.operand, not pol
                                if not (isinstance(tt, ast.Name) and tt.id == flag):
                                    continue
                                taken = t2.body if pol == val else t2.orelse
                                hn = cfg_l.head_of(t2)
                                if an is not None and hn is not None and hn.id in cfg_l.reachable(an.id, skip_exc=True) and any(
                                        isinstance(r_, ast.Raise) and r_.exc is not None and canon(r_.exc).startswith("ValueError") for b_ in taken for r_ in ast.walk(b_)):
                                    pair_ok = True
    # the test itself, as a truth table over A = 'is a tuple' and B = 'has length 2' (other atoms, i.e. the noise flag, true):
    # the rejecting branch must be taken exactly when not (A and B)
    def _atoms_eval(e, A, B):
        if isinstance(e, ast.UnaryOp) and isinstance(e.op, ast.Not):
            return not _atoms_eval(e.operand, A, B)
        if isinstance(e, ast.BoolOp):
            vals = [_atoms_eval(v, A, B) for v in e.values]
            return all(vals) if isinstance(e.op, ast.And) else any(vals)
        if isinstance(e, ast.Call) and isinstance(e.func, ast.Name) and e.func.id == "bool" and len(e.args) == 1:
            return _atoms_eval(e.args[0], A, B)
        c_ = canon(e)
        if isinstance(e, ast.Compare) and len(e.ops) == 1:
            l_, r_ = canon(e.left), canon(e.comparators[0])
            if "type(" in l_ + r_ and "tuple" in l_ + r_:
                return A if isinstance(e.ops[0], (ast.Is, ast.Eq)) else (not A)
            if "len(" in l_ + r_ and ("2" in (l_, r_)):
                if isinstance(e.ops[0], ast.Eq):
                    return B
                if isinstance(e.ops[0], ast.NotEq):
                    return not B
                raise ValueError("len compared otherwise")
        if isinstance(e, ast.Call) and call_name(e) == "isinstance" and len(e.args) == 2 and canon(e.args[1]) == "tuple":
            return A
        if "tuple" in c_ or "len(" in c_:
            raise ValueError("unmodelled atom")
        return True  # the noise flag and the like

    def _rejects(stmts):
        for b_ in stmts:
            for r_ in ast.walk(b_):
                if isinstance(r_, ast.Raise) and r_.exc is not None and canon(r_.exc).startswith("ValueError"):
                    return True
                if isinstance(r_, ast.Assign) and len(r_.targets) == 1 and isinstance(r_.targets[0], ast.Name) and isinstance(r_.value, ast.Constant) and isinstance(r_.value.value, bool):
                    return True  # flag-mediated (its raise was located above)
        return False

    table_failed = False
    if pair_ok:
        for node in ast.walk(lc.node):
            if not isinstance(node, ast.If):
                continue
            t_ = node.test
            c_ = canon(t_)
            if not ("tuple" in c_ and "len(" in c_):
                t_ = _dx10e(prog, lc, node.test)
                c_ = canon(t_)
            if not ("tuple" in c_ and "len(" in c_ and "2" in c_):
                continue
            try:
                wrong = []
                for A in (True, False):
                    for B in (True, False):
                        taken = node.body if _atoms_eval(t_, A, B) else node.orelse
                        if _rejects(taken) != (not (A and B)):
                            wrong.append((A, B, _rejects(taken)))
                if wrong:
                    A, B, rj = wrong[0]
                    pair_ok = False
                    table_failed = True
                    ctx.fail(lc, node, f"the (value, SD) format test takes the {'rejecting' if rj else 'accepting'} branch for a result that is {'a' if A else 'not a'} tuple of length {'2' if B else '!= 2'}: "
                             "with specified noise a malformed result (e.g. a 2-element list or array, or a tuple of another length) must raise ValueError and a proper pair must not",
                             construct=f"pair test table tuple={A} len2={B} -> {'reject' if rj else 'accept'}")
                    break
            except ValueError:
                pass
    if not (not pair_ok and table_failed):
        ctx.check(pair_ok, lc, lc.node, "with specified noise, a result that is not a 2-tuple raises ValueError", "with specified noise a target result that is not a (value, SD) pair is no longer rejected with ValueError", construct="pair-format check")

    # ------------------------------------------------------------------ R2
    ctx.rule("R2", "validation raises dominate the record call and the counter increment", floor=3)
    rec, rec_call = record_routine(prog, R)
    rn = cfg.node_of(rec_call)
    incs = [s for t, v, s, k in iter_stores(lc.node) if self_attr_of(t) == "func_count"]
    vts = validation_tests(prog, lc)
    for node, kinds, exc in vts:
        tn = cfg.head_of(node)
        # ``if flag: if bad(sd): raise`` is ``if flag and bad(sd): raise``: dominance is asked of the outermost enclosing
        # if whose test is a plain flag (attribute / name), as long as the validation stays in its body
        cur = node
        for par in prog.ancestors(node):
            if isinstance(par, ast.If) and any(x is cur for x in par.body) and isinstance(par.test, (ast.Attribute, ast.Name)):
                tn = cfg.head_of(par)
                cur = par
            elif isinstance(par, (ast.If,)) and any(x is cur for x in par.body + par.orelse):
                break
            elif isinstance(par, ast.stmt):
                break
        ctx.check(cfg.dominates(tn.id, rn.id), lc, node, "validation dominates the record call", "an observation can be recorded without passing this validation test", construct=f"record not dominated by {norm_stmt(node.test)[:80]}")
        for inc in incs:
            ctx.check(cfg.dominates(tn.id, cfg.node_of(inc).id), lc, node, "validation dominates func_count += 1", "func_count can advance without passing this validation test", construct=f"count not dominated by {norm_stmt(node.test)[:80]}")
    for c, tg in prog.calls_in(lc):
        for t in tg:
            if isinstance(t, FunctionInfo) and t.cls is lc.cls and t is not rec and validation_tests(prog, t):
                hn = cfg.node_of(c)
                ctx.check(cfg.dominates(hn.id, rn.id), lc, c, f"validation helper {t.short} dominates the record call", "an observation can be recorded without passing the validation helper", construct=f"record not dominated by {t.short}")
                for inc in incs:
                    ctx.check(cfg.dominates(hn.id, cfg.node_of(inc).id), lc, c, f"validation helper {t.short} dominates func_count += 1", "func_count can advance without passing the validation helper", construct=f"count not dominated by {t.short}")
    sk = cfg.node_of(sink)
    ctx.check(cfg.dominates(sk.id, rn.id), lc, rec_call, "target call dominates the record call", "the record call is reachable without the target having been called")
    # the value recorded is the value validated (no re-computation in between)
    # (parameter provenance of the record routine is C12-R3)

    # ------------------------------------------------------------------ R5
    ctx.rule("R5", "the value and SD that are validated and recorded are the target's own outputs (unwrapping only)", floor=2)
    from ..flow import TagFlow

    tf = TagFlow(prog, lc, _TargetPolicy(sink, prog, lc))
    from .c12 import record_routine as _rr

    for i, what, arg in zip((2, 3), ("value", "SD"), _record_value_args(prog, R, _rr(prog, R)[0], rec_call)):
        if arg is not None:
            tg = tf.tags(arg)
            if tg is None:
                continue
            okv = "T" in tg or (i == 3 and "NONE" in tg)
            ctx.check(okv, lc, rec_call, f"recorded {what} {canon(arg)} stems from the target's return value",
                      f"the {what} handed to the record routine is not the target's own return value (it was replaced or transformed after the call): invalid values can be masked",
                      construct=f"recorded {what} <- {canon(arg)} without target provenance")

    # ------------------------------------------------------------------ R6
    ctx.rule("R6", "the target's value is reduced to its first element only when its size is known to be 1", floor=1)
    scopes = [(lc, tf)]
    for c, tg in prog.calls_in(lc):
        for t in tg:
            if isinstance(t, FunctionInfo) and t.cls is lc.cls and t is not rec and t is not lc:
                b = bind_args(t, c)
                st = tf.state_before(c) or {}
                seeds = {p_: tf.policy.eval(a, st, tf) for p_, a in b.items()}
                if any("T" in v for v in seeds.values()):
                    scopes.append((t, TagFlow(prog, t, _TargetPolicy(None, prog, t, seeds))))
    n6 = 0
    for f_, fl_ in scopes:
        for node, src in _first_element_extractions(f_.node):
            tg = fl_.tags(src)
            if tg is None or "T" not in tg:
                continue
            n6 += 1
            g = guard_canon(prog, f_, node)
            sized = any(x in (f"(1 == np.size({canon(src)}))", f"(1 == {canon(src)}.size)", f"(1 == len({canon(src)}))") for x in g)
            if sized or "NA" in tg:
                ctx.ok(f_, node, f"{canon(node)[:40]} under a size-1 guard" if sized else f"{canon(node)[:40]}: value already known not to be an array")
            else:
                ctx.fail(f_, node, f"'{canon(node)[:50]}' takes the first element of the target's return value without establishing that it has exactly one element: a vector-valued return is silently accepted instead of raising ValueError",
                         construct=f"unguarded first-element extraction {canon(node)[:50]}")
    if n6 == 0:
        ctx.rules["R6"].floor = 0
    # the handler must not be able to fail itself before the bare raise
    if tr is not None:
        for h in tr.handlers:
            if h.name:
                for n in ast.walk(h):
                    if isinstance(n, ast.Subscript) and isinstance(n.ctx, ast.Load) and canon(n.value) == f"{h.name}.args" and isinstance(n.slice, ast.Constant):
                        ctx.fail(lc, n, f"the handler indexes {h.name}.args[{n.slice.value}]: for an exception raised without arguments (bare assert, custom exceptions) or with a non-string first argument the handler itself fails and a different exception leaves optimize()",
                                 construct=f"handler indexes {h.name}.args", rule="R1")

    # ------------------------------------------------------------------ R3
    ctx.rule("R3", "no other try body in the package can reach the target", floor=5)
    sink_fns = {f for f, _ in R.target_sinks}
    n_try = 0
    for fn in prog.functions():
        for node in ast.walk(fn.node):
            if not isinstance(node, ast.Try) or prog.function_of(node) is not fn:
                continue
            if node is tr:
                continue
            n_try += 1
            offenders = []
            for s in node.body:
                for c in ast.walk(s):
                    if isinstance(c, ast.Call):
                        for t in prog.resolve_call(fn, c):
                            if isinstance(t, FunctionInfo) and (t in sink_fns or any(x in sink_fns for x in prog.reachable_from(t))):
                                offenders.append((c, t))
                        # direct call of the user callable through an alias
                        if isinstance(c.func, ast.Attribute) and c.func.attr in R.target_attrs:
                            offenders.append((c, None))
            reraises = bool(node.handlers) and not node.finalbody and all(
                h.body and isinstance(h.body[-1], ast.Raise) and h.body[-1].exc is None
                and not any(isinstance(n, (ast.Return, ast.Continue, ast.Break)) or (isinstance(n, ast.Raise) and n is not h.body[-1]) for b in h.body for n in ast.walk(b))
                and not any(isinstance(b, (ast.If, ast.For, ast.While, ast.Try, ast.With)) for b in h.body)
                for h in node.handlers)
            if offenders and reraises:
                # every handler is a straight line that ends in a bare ``raise``: the very exception object goes on (its
                # args may have been extended, its type cannot change)
                ctx.ok(fn, node, "handlers around a target-reaching call re-raise the same exception (bare raise on a straight line)")
                continue
            if offenders and node.handlers:
                c, t = offenders[0]
                path = prog.call_path(t, R.logger_call) if t is not None else None
                ctx.fail(fn, node, f"a try block with handler(s) {[canon(h.type) for h in node.handlers]} encloses a call that can reach the target: a target failure can be intercepted here",
                         construct=f"try around {canon(c.func)}", witness=[f.short for f in path] if path else [])
            else:
                ctx.ok(fn, node, "try body cannot reach the target")
    ctx.extra["try_blocks_examined"] = n_try + (1 if tr is not None else 0)
    ctx.assume("a bare raise re-raises the active exception object unchanged (adding to err.args keeps the type)")
    ctx.assume("call resolution: unresolved calls are calls on external objects (numpy/scipy/gpyreg) that cannot call back into the logger")
