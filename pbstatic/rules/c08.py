"""C08 -- problem definitions validated exactly."""
from __future__ import annotations

import ast
import re
from typing import Dict, List, Optional, Set, Tuple

from ..cfg import cfg_of
from ..flow import EMPTY, BasePolicy, TagFlow
from ..model import AnalysisError, FunctionInfo, bind_args
from ..quant import absorb_nan_guard, Normaliser, show, top_conjuncts, top_disjuncts
from ..roles import roles_of
from ..terms import call_name, canon, const_num, dotted, guard_of, norm_stmt
from .common import attr_stores, iter_stores, kw, reaching_assignments, self_attr_of, store_base, pos

EXPLANATION = (
    "R1 guard checklist: the raise conditions of the validator (every `if c: raise ValueError` reachable only through the complements of "
    "earlier raising tests) are normalised to disjunctions of ANY[element-wise atom] (comparison orientation and strictness normalised, mask "
    "locals expanded, De Morgan, any/or and all/and distribution); every documented invalid class must appear as such an atom, the ordering "
    "check must post-dominate the last adjustment of the plausible bounds, and no raise condition outside the documented table may exist "
    "(the property says 'exactly when'). R2 per-coordinate predicates: a conjunction of two ANY[..] atoms over different coordinates-wise "
    "predicates is a cross-coordinate condition and is rejected. R3 dtype inheritance: an in-place subscript store of a float-valued "
    "expression (log/exp/sqrt/true division/non-integral literal) into an array whose dtype is inherited from a caller-supplied array "
    "(copy/atleast_2d/indexing only, no float cast) truncates integer spellings. R4 inputs pass np.atleast_2d before the validating "
    "comparisons. R5 the constructor cannot reach the target (call graph), with the positive control that optimize() can. R6 omitted "
    "plausible bounds default to copies of the hard bounds. Decides the structure of the validator; rounding-distance cells are numeric."
    " The dtype dataflow follows numpy's type promotion through array helpers (broadcast_to, take, ...)."
)

ROLES5 = ["x0", "lb", "ub", "plb", "pub"]


def make_rename(mapping: Dict[str, str]):
    pats = [(re.compile(r"(?<![\w.])" + re.escape(k) + r"(?![\w])"), v) for k, v in sorted(mapping.items(), key=lambda kv: -len(kv[0]))]

    def rename(s: str) -> str:
        for p, v in pats:
            s = p.sub(v, s)
        return s

    return rename


def raise_ifs(prog, fn: FunctionInfo):
    """[(If, exception name)] for ifs whose body ends in a raise, anywhere in fn."""
    out = []
    for node in ast.walk(fn.node):
        if isinstance(node, ast.If) and prog.function_of(node) is fn and node.body and isinstance(node.body[-1], ast.Raise):
            exc = node.body[-1].exc
            name = canon(exc.func) if isinstance(exc, ast.Call) else (canon(exc) if exc is not None else None)
            out.append((node, name))
    return out


def mask_resolver(prog, fn, params, at):
    """expand mask-valued locals (comparisons / logical combinations) through
    their unique reaching definition at ``at``."""

    def resolve(name: ast.Name):
        if name.id in params:
            return None
        defs = reaching_assignments(prog, fn, name.id, at)
        if len(defs) == 1 and isinstance(defs[0], (ast.BinOp, ast.Compare, ast.Call, ast.UnaryOp, ast.BoolOp)):
            d = defs[0]
            if isinstance(d, ast.BinOp) and not isinstance(d.op, (ast.BitAnd, ast.BitOr)):
                return None
            if isinstance(d, ast.Call) and call_name(d) not in ("np.logical_and", "np.logical_or", "np.invert", "np.logical_not", "np.isfinite", "np.isinf",
                                                                  "bool", "np.bool_", "np.all", "np.any", "all", "any"):
                return None
            return d
        return None

    return resolve


def inline_mask_helper(prog, fn):
    """inline calls of package helpers whose body is a single ``return <mask expression>``."""
    from .growth import subst

    def inline(call: ast.Call):
        tg = [t for t in prog.resolve_call(fn, call) if isinstance(t, FunctionInfo)]
        if len(tg) != 1:
            return None
        h = tg[0]
        body = [st for st in h.node.body if not (isinstance(st, ast.Expr) and isinstance(st.value, ast.Constant))]
        if len(body) != 1 or not isinstance(body[0], ast.Return) or body[0].value is None:
            return None
        b = bind_args(h, call)
        return subst(body[0].value, b)

    return inline


def NS(rel, l, r):
    """NaN-strict negated ordering atom: ANY[not(l rel r)]."""
    from ..quant import _cmp

    return ("any", ("not", _cmp(rel, l, r)))


def A(rel, l, r):
    from ..quant import _cmp

    return ("any", _cmp(rel, l, r))


def _noneness_cases(init, tracked):
    """finite-domain evaluation of the constructor's opening (up to the statement that reads the dimension into self.D)
    over which of the problem arguments are None: -> {assignment: (outcome, env)} with outcome 'continue' / 'raise <Exc>' /
    'crash' (attribute of None) or None when a statement that involves a tracked value is outside the language."""
    import itertools

    N, U = "<None>", "<unknown>"

    class Stop(Exception):
        pass

    class Done(Exception):
        def __init__(self, what):
            self.what = what

    def reads(e):
        return {n.id for n in ast.walk(e) if isinstance(n, ast.Name) and isinstance(n.ctx, ast.Load)}

    def ev(e, env):
        if isinstance(e, ast.Constant):
            return N if e.value is None else (e.value if isinstance(e.value, bool) else ("val", frozenset()))
        if isinstance(e, ast.Name):
            return env.get(e.id, U)
        if isinstance(e, ast.UnaryOp) and isinstance(e.op, ast.Not):
            v = ev(e.operand, env)
            return (not v) if isinstance(v, bool) else (False if isinstance(v, tuple) and v[0] == "arg" and False else U)
        if isinstance(e, ast.BoolOp):
            vals = [ev(v, env) for v in e.values]
            is_and = isinstance(e.op, ast.And)
            for v in vals:
                if isinstance(v, bool):
                    if v != is_and:
                        return v
                else:
                    return U
            return is_and
        if isinstance(e, ast.Compare) and len(e.ops) == 1 and isinstance(e.ops[0], (ast.Is, ast.IsNot)):
            l, r = ev(e.left, env), ev(e.comparators[0], env)
            if r == N and l != U:
                return (l == N) == isinstance(e.ops[0], ast.Is)
            if l == N and r != U:
                return (r == N) == isinstance(e.ops[0], ast.Is)
            return U
        # anything else: a value computed from what it reads; reading an attribute / item of None crashes
        for n in ast.walk(e):
            if isinstance(n, (ast.Attribute, ast.Subscript)) and isinstance(n.value, ast.Name) and env.get(n.value.id) == N:
                raise Done("crash")
        rs = reads(e) & set(env)
        if not rs:
            return U
        src = set()
        for r_ in rs:
            v = env[r_]
            if isinstance(v, tuple):
                src |= set(v[1])
        return ("val", frozenset(src))

    def involved(st, env):
        return bool(reads(st) & set(env)) or any(isinstance(n, ast.Name) and not isinstance(n.ctx, ast.Load) and n.id in env for n in ast.walk(st))

    def run(stmts, env):
        for st in stmts:
            if isinstance(st, ast.Assign) and len(st.targets) == 1 and isinstance(st.targets[0], ast.Attribute) and st.targets[0].attr == "D" and isinstance(st.targets[0].value, ast.Name) and st.targets[0].value.id == "self":
                raise Done("continue")
            if isinstance(st, ast.Assign) and len(st.targets) == 1 and isinstance(st.targets[0], ast.Name):
                v = ev(st.value, env)
                if v is U and st.targets[0].id in env:
                    raise Stop()
                if v is not U:
                    env[st.targets[0].id] = v
                continue
            if isinstance(st, ast.If):
                t = ev(st.test, env)
                if isinstance(t, bool):
                    run(st.body if t else st.orelse, env)
                    continue
                if involved(st, env) or any(isinstance(n, ast.Raise) for n in ast.walk(st)):
                    raise Stop()
                continue
            if isinstance(st, ast.Raise):
                raise Done("raise " + (canon(st.exc.func) if isinstance(st.exc, ast.Call) else canon(st.exc) if st.exc is not None else ""))
            if isinstance(st, (ast.Expr, ast.Assign, ast.AugAssign, ast.AnnAssign, ast.Pass)):
                if any(isinstance(n, ast.Name) and not isinstance(n.ctx, ast.Load) and n.id in env for n in ast.walk(st)):
                    raise Stop()
                for n in ast.walk(st):
                    if isinstance(n, (ast.Attribute, ast.Subscript)) and isinstance(n.value, ast.Name) and env.get(n.value.id) == N:
                        raise Done("crash")
                continue
            if involved(st, env) or any(isinstance(n, (ast.Raise, ast.Return)) for n in ast.walk(st)):
                raise Stop()
        return

    out = {}
    for bits in itertools.product((False, True), repeat=len(tracked)):
        env = {p: (("arg", frozenset([p])) if b else N) for p, b in zip(tracked, bits)}
        try:
            run(init.node.body, env)
            out[bits] = (None, env)
        except Done as d:
            out[bits] = (d.what, env)
        except Stop:
            out[bits] = (None, env)
    return out


def check(ctx):
    prog = ctx.prog
    R = roles_of(prog)
    val = R.bounds_check
    vcall = R.bounds_check_call
    vparams = [p for p in val.params if p != "self"]
    if len(vparams) < 5:
        raise AnalysisError("bounds validator signature not recognised")
    mapping = dict(zip(vparams[:5], ROLES5))
    # effective-bound locals
    for t, v, s, k in iter_stores(val.node):
        if isinstance(t, ast.Name) and isinstance(v, ast.BinOp) and t.id not in mapping:
            if isinstance(v.op, ast.Add) and canon(v.left) == vparams[1]:
                mapping.setdefault(t.id, "LBEFF")
            if isinstance(v.op, ast.Sub) and canon(v.left) == vparams[2]:
                mapping.setdefault(t.id, "UBEFF")
    rename = make_rename(mapping)

    def resolver(at):
        return mask_resolver(prog, val, vparams, at)

    # ------------------------------------------------------------------ R1
    ctx.rule("R1", "every documented invalid class has a raising guard (strictness included); no undocumented rejection", floor=14)
    conds = []  # (If, formula, disjunct list)
    for node, exc in raise_ifs(prog, val):
        nz = Normaliser(resolver(node), rename, inline=inline_mask_helper(prog, val), nan_strict=True)
        f = absorb_nan_guard(nz.quant(node.test, True))
        conds.append((node, exc, f, top_disjuncts(f)))
    all_disj = {}
    for node, exc, f, ds in conds:
        # unconditional reachability: guard consists only of complements of earlier tests
        g = guard_of(prog, val, node)
        toplevel = all(not pol for _t, pol in g)
        for d in ds:
            all_disj.setdefault(d, []).append((node, exc, toplevel))
    required = {
        "non-finite plausible lower bound": ("any", ("pred", "isfinite", "plb", False)),
        "non-finite plausible upper bound": ("any", ("pred", "isfinite", "pub", False)),
        "equal plausible bounds": A("==", "plb", "pub"),
        "x0 below the lower bound": A("<", "x0", "lb"),
        "x0 above the upper bound": A("<", "ub", "x0"),
        "hard bounds numerically too close": A("<=", "UBEFF", "LBEFF"),
    }
    ordering = {
        "ordering lb <= plb": (NS("<=", "lb", "plb"), A("<", "plb", "lb")),
        "ordering plb < pub": (NS("<", "plb", "pub"), A("<=", "pub", "plb")),
        "ordering pub <= ub": (NS("<=", "pub", "ub"), A("<", "ub", "pub")),
    }
    for what, atom in required.items():
        hits = all_disj.get(atom, [])
        good = [h for h in hits if h[1] == "ValueError" and h[2]]
        if good:
            ctx.ok(val, good[0][0], f"{what}: {show(atom)} -> ValueError")
        elif hits:
            ctx.fail(val, hits[0][0], f"invalid class '{what}' is tested but does not unconditionally raise ValueError (raises {hits[0][1]}, top-level={hits[0][2]})", construct=f"{what}: {show(atom)}")
        else:
            near = [show(d) for d in all_disj if _same_vars(d, atom)]
            ctx.fail(val, val.node, f"no raising guard equivalent to '{show(atom)}' ({what}); nearest conditions on the same operands: {near or 'none'}", construct=f"<missing guard: {what}>")
    # ordering: either spelling rejects mis-ordered finite bounds; only the negated-comparison
    # spelling also rejects NaN bounds - that one must exist in the validator or in the transformer
    T_ = R.transformer
    trename0 = make_rename({"self.lb": "lb", "self.ub": "ub", "self.plb": "plb", "self.pub": "pub"})
    t_strict = set()
    for m_ in T_.methods.values():
        for node_, exc_ in raise_ifs(prog, m_):
            f_ = Normaliser(None, trename0, nan_strict=True).quant(node_.test, True)
            if exc_ == "ValueError":
                t_strict |= set(top_disjuncts(f_))
    order_atoms = set()
    for what, (strict, lenient) in ordering.items():
        hits = [h for a_ in (strict, lenient) for h in all_disj.get(a_, []) if h[1] == "ValueError" and h[2]]
        if hits:
            ctx.ok(val, hits[0][0], f"{what}: mis-ordered bounds -> ValueError")
            order_atoms |= {strict, lenient}
        else:
            near = [show(d) for d in all_disj if _same_vars(d, lenient)]
            ctx.fail(val, val.node, f"no raising guard rejects a violation of '{what}'; nearest conditions on the same operands: {near or 'none'}", construct=f"<missing guard: {what}>")
        nan_ok = any(h[1] == "ValueError" and h[2] for h in all_disj.get(strict, [])) or strict in t_strict
        ctx.check(nan_ok, val, (all_disj.get(lenient) or [(val.node,)])[0][0], f"{what}: a NaN bound is rejected ({show(strict)} in the validator or the transformer)",
                  f"'{what}' is only tested as '{show(lenient)}', which is False for NaN: a NaN bound passes both the validator and the transformer and the definition is accepted", construct=f"NaN passes {what}")
    # half-bounded: xor form, or both one-sided conjunctions
    fl, fu = ("pred", "isfinite", "lb", True), ("pred", "isfinite", "ub", True)
    nl, nu = ("pred", "isfinite", "lb", False), ("pred", "isfinite", "ub", False)
    xor = ("any", ("xor", frozenset([fl, fu])))
    one = ("any", ("and", frozenset([fl, nu])))
    two = ("any", ("and", frozenset([nl, fu])))
    if xor in all_disj or (one in all_disj and two in all_disj):
        node = (all_disj.get(xor) or all_disj.get(one))[0][0]
        ctx.ok(val, node, "half-bounded variable: per-coordinate finite(lb) xor finite(ub) -> ValueError")
        hb_atoms = {xor, one, two}
    else:
        hb_atoms = set()
        hb_nodes = [n for n, e, f, ds in conds if "isfinite(lb)" in show(f) and "isfinite(ub)" in show(f)]
        if hb_nodes:
            ctx.fail(val, hb_nodes[0], "the half-bounded test is not the per-coordinate predicate finite(lb) != finite(ub)", construct="half-bounded test " + show([f for n, e, f, ds in conds if n is hb_nodes[0]][0]))
        else:
            ctx.fail(val, val.node, "no guard rejects variables bounded on one side only", construct="<missing guard: half-bounded>")
    # shapes
    shape_hits = 0
    for d in all_disj:
        s = show(d)
        for r in ("lb", "ub", "plb", "pub"):
            if s == f"{r}.shape != [1, D]" or s == f"[1, D] != {r}.shape":
                shape_hits += 1
    ctx.check(shape_hits == 4, val, val.node, "shape of each of the four bounds is compared with (1, D)", f"only {shape_hits} of the four bound shapes are validated against (1, D)", construct=f"shape checks {shape_hits}/4")
    # fixed variable: ANY[and of equalities connecting the four bounds]
    fixed_ok = False
    for d in all_disj:
        if d[0] == "any" and d[1][0] == "and":
            eqs = [x for x in d[1][1] if x[0] == "cmp" and x[1] == "=="]
            if len(eqs) == len(d[1][1]):
                comp = {r: r for r in ("lb", "ub", "plb", "pub")}

                def find(a):
                    while comp.get(a, a) != a:
                        a = comp[a]
                    return a

                for _c, _rel, l, r in eqs:
                    if l in comp and r in comp:
                        comp[find(l)] = find(r)
                if len({find(r) for r in ("lb", "ub", "plb", "pub")}) == 1:
                    fixed_ok = True
                    fixed_atom = d
    ctx.check(fixed_ok, val, val.node, "fixed variable (all four bounds equal) -> ValueError", "no guard rejects a variable whose four bounds coincide", construct="<missing guard: fixed variable>")
    # undocumented rejections
    documented = set(required.values()) | hb_atoms | order_atoms
    if fixed_ok:
        documented.add(fixed_atom)
    for d, hits in all_disj.items():
        s = show(d)
        if d in documented:
            continue
        if any(s in (f"{r}.shape != [1, D]", f"[1, D] != {r}.shape") for r in ("lb", "ub", "plb", "pub")):
            continue
        if "isreal" in s:
            continue  # complex input: documented 'real valued' check
        if "y.shape" in s or "y.ndim" in s:
            continue  # shape of the constraint callable's result
        node = hits[0][0]
        ctx.fail(val, node, f"the validator rejects a class of definitions that the property does not list as invalid: {s}", construct=f"undocumented rejection {s}")
    # ordering check must post-dominate the last adjustments of the plausible bounds
    cfg = cfg_of(val)
    order_nodes = [n for n, e, f, ds in conds if all(any(a_ in ds for a_ in pair) for pair in ordering.values())]
    if order_nodes:
        last_order = max(order_nodes, key=pos)
        on = cfg.head_of(last_order)
        bad = []
        for t, v, s, k in iter_stores(val.node):
            b = store_base(t)
            if isinstance(b, ast.Name) and b.id in (vparams[3], vparams[4]):
                sn = cfg.node_of(s)
                if sn is not None and not cfg.postdominates(on.id, sn.id):
                    bad.append(s)
        if bad:
            ctx.fail(val, bad[0], "the plausible bounds are modified on a path that does not go through the final ordering check lb <= plb < pub <= ub afterwards", construct=f"unchecked adjustment {norm_stmt(bad[0])[:80]}")
        else:
            ctx.ok(val, last_order, "final ordering check post-dominates every adjustment of the plausible bounds")
    # unknown dimension (constructor)
    init = R.bads_init
    iparams = [p for p in init.params if p != "self"]
    found = False
    for node in ast.walk(init.node):
        if isinstance(node, ast.Raise) and node.exc is not None and canon(node.exc).startswith("ValueError"):
            g = [canon(t, neg=not pol) for t, pol in guard_of(prog, init, node)]
            if any(x == "(x0 is None)" for x in g) and any("plausible_lower_bounds is None" in x and "plausible_upper_bounds is None" in x and " or " in x for x in g):
                found = True
                ctx.ok(init, node, "no x0 and a missing plausible bound -> ValueError (dimension unknown)")
    cases = None
    if len(iparams) > 5:
        tracked = iparams[1:6]  # x0, lb, ub, plb, pub
        cases = _noneness_cases(init, tracked)
        if any(o is None for o, _e in cases.values()):
            cases = None
    if not found and cases is not None:
        # another spelling of the guard (flags taken at entry, nested tests): decided over which arguments are None
        def _show(bits):
            return ", ".join(f"{p} {'given' if b else 'omitted'}" for p, b in zip(tracked, bits))

        bad = []
        for bits, (outcome, _env) in sorted(cases.items()):
            x0g, lbg, ubg, plbg, pubg = bits
            must_raise = (not x0g) and not ((plbg or lbg) and (pubg or ubg))
            if must_raise and outcome != "raise ValueError":
                bad.append(f"with {_show(bits)} the constructor {'goes on' if outcome == 'continue' else 'crashes on None' if outcome == 'crash' else 'raises ' + outcome[6:]} instead of raising ValueError (dimension unknown)")
            elif not must_raise and outcome != "continue":
                bad.append(f"with {_show(bits)} (a definition whose dimension is known) the constructor {'crashes on None' if outcome == 'crash' else 'raises ' + outcome[6:]}")
        if bad:
            ctx.fail(init, init.node, "unknown-dimension guard: " + bad[0], construct="unknown-dimension guard by cases")
        else:
            ctx.ok(init, init.node, "no x0 and a missing plausible bound -> ValueError, every other combination of omitted arguments proceeds (32 cases)")
    elif not found:
        ctx.fail(init, init.node, "no guard raises ValueError when neither x0 nor both plausible bounds are given", construct="<missing guard: unknown dimension>")
    # transformer's own checks
    T = R.transformer
    tchecks = {"order lb<=plb": (NS("<=", "lb", "plb"), A("<", "plb", "lb")), "order plb<pub": (NS("<", "plb", "pub"), A("<=", "pub", "plb")), "order pub<=ub": (NS("<=", "pub", "ub"), A("<", "ub", "pub"))}
    trename = make_rename({"self.lb": "lb", "self.ub": "ub", "self.plb": "plb", "self.pub": "pub"})
    tdis = {}
    tfin = False
    for m in T.methods.values():
        for node, exc in raise_ifs(prog, m):
            f = Normaliser(None, trename, nan_strict=True).quant(node.test, True)
            for d in top_disjuncts(f):
                tdis[d] = (m, node, exc)
            if "isfinite" in show(f) and "plb" in show(f) and "pub" in show(f):
                tfin = True
    for what, atoms in tchecks.items():
        hit = [a_ for a_ in atoms if a_ in tdis and tdis[a_][2] == "ValueError"]
        if hit:
            ctx.ok(tdis[hit[0]][0], tdis[hit[0]][1], f"transformer {what}")
        else:
            ctx.fail(T.methods.get("__init__") or next(iter(T.methods.values())), T.node, f"the transformer's own bounds check lacks {show(atoms[1])} ({what})", construct=f"<missing transformer guard: {what}>")
    ctx.check(tfin, T.methods.get("__init__") or next(iter(T.methods.values())), T.node, "transformer checks finiteness of the plausible range", "the transformer no longer checks that the plausible range is finite", construct="<missing transformer guard: finite plausible>")

    # ------------------------------------------------------------------ R2
    ctx.rule("R2", "validity predicates are per coordinate (no conjunction of two existentials)", floor=1)
    n2 = 0
    for node, exc, f, ds in conds:
        bad = _cross_coordinate(f)
        n2 += 1
        if bad:
            ctx.fail(val, node, "a raise condition conjoins two separately quantified coordinate predicates (np.any(a) and np.any(b)): it fires when *different* variables satisfy a and b, "
                     "e.g. one fully bounded and one fully unbounded variable", construct="cross-coordinate " + show(bad))
        else:
            ctx.ok(val, node, "per-coordinate: " + show(f)[:90])

    # ------------------------------------------------------------------ R3
    ctx.rule("R3", "no float-valued in-place store into an array whose dtype is inherited from the caller", floor=4)
    _dtype_rule(ctx, prog, R)

    # ------------------------------------------------------------------ R4
    ctx.rule("R4", "inputs are normalised with np.atleast_2d before the validating comparisons", floor=5)
    for p in vparams[1:5]:
        norm = [s for t, v, s, k in iter_stores(val.node) if isinstance(t, ast.Name) and t.id == p and isinstance(v, ast.Call) and call_name(v) == "np.atleast_2d" and v.args and canon(v.args[0]) == p]
        if not norm:
            ctx.fail(val, val.node, f"bound '{p}' is not passed through np.atleast_2d in the validator: list / (D,) / scalar spellings are compared as given", construct=f"<missing atleast_2d of {mapping[p]}>")
            continue
        nn = cfg.node_of(norm[0])
        users = [n for n, e, f, ds in conds if mapping[p] in show(f).replace("plb", "@" if mapping[p] != "plb" else "plb").replace("pub", "@" if mapping[p] != "pub" else "pub")]
        bad = [n for n in users if not cfg.dominates(nn.id, cfg.head_of(n).id)]
        ctx.check(not bad, val, norm[0], f"atleast_2d({mapping[p]}) dominates {len(users)} validating tests", f"a validating test on '{p}' can run before the np.atleast_2d normalisation", construct=f"unnormalised test on {mapping[p]}")
    icfg = cfg_of(init)
    x0n = [s for t, v, s, k in iter_stores(init.node) if isinstance(t, ast.Name) and t.id == iparams[1] and isinstance(v, ast.Call) and call_name(v) == "np.atleast_2d"]
    dset = [s for t, v, s, k in iter_stores(init.node) if self_attr_of(t) == "D"]
    ctx.check(bool(x0n) and bool(dset) and icfg.dominates(icfg.node_of(x0n[0]).id, icfg.node_of(dset[0]).id), init, x0n[0] if x0n else init.node,
              "x0 is made 2-D before the dimension is read", "the dimension is read from x0 before x0 is normalised with np.atleast_2d", construct="x0 normalisation")

    # ------------------------------------------------------------------ R5
    ctx.rule("R5", "the constructor cannot reach the target", floor=2)
    reach = prog.reachable_from(init)
    sinks = {f for f, _ in R.target_sinks}
    hit = [f for f in reach if f in sinks]
    if hit:
        path = prog.call_path(init, hit[0])
        ctx.fail(init, init.node, "constructing BADS can call the target function", construct="ctor reaches target via " + " -> ".join(f.short for f in path), witness=[f.short for f in path])
    else:
        ctx.ok(init, init.node, f"{len(reach)} functions reachable from the constructor, none contains the target call")
    ctx.check(any(f in sinks for f in prog.reachable_from(R.optimize)), R.optimize, R.optimize.node, "positive control: optimize() reaches the target",
              "positive control failed: optimize() cannot reach the target (call graph broken)", construct="positive control")
    # direct aliases of the callable in the constructor
    for node in ast.walk(init.node):
        if isinstance(node, ast.Call) and isinstance(node.func, ast.Name) and node.func.id == R.fun_param:
            ctx.fail(init, node, "the constructor calls the target callable directly", construct="ctor calls fun")

    # ------------------------------------------------------------------ R6
    ctx.rule("R6", "omitted plausible bounds default to copies of the hard bounds", floor=2)
    for pb, hb in ((iparams[4], iparams[2]), (iparams[5], iparams[3])) if len(iparams) > 5 else []:
        ok = False
        for t, v, s, k in iter_stores(init.node):
            if isinstance(t, ast.Name) and t.id == pb and v is not None and hb in {n.id for n in ast.walk(v) if isinstance(n, ast.Name)}:
                g = [canon(c, neg=not pol) for c, pol in guard_of(prog, init, s)]
                if any(f"{pb} is None" in x for x in g):
                    ok = True
                    ctx.ok(init, s, f"{pb} defaults to {canon(v)}")
        if not ok and cases is not None:
            # decided over which arguments are None: wherever pb is omitted, hb given and the constructor goes on, pb holds a
            # value computed from hb when the dimension is read; a given pb is left as it is
            i_pb, i_hb = tracked.index(pb), tracked.index(hb)
            bad = None
            for bits, (outcome, env_) in sorted(cases.items()):
                if outcome != "continue":
                    continue
                v_ = env_.get(pb)
                if not bits[i_pb] and bits[i_hb] and not (isinstance(v_, tuple) and hb in v_[1]):
                    bad = f"omitted {pb} is not defaulted from {hb} (it is {'None' if v_ == '<None>' else 'something else'} when the dimension is read)"
                elif bits[i_pb] and not (isinstance(v_, tuple) and v_[1] == frozenset([pb])):
                    bad = f"a given {pb} is replaced by a value not computed from it alone"
            if bad is None:
                ok = True
                ctx.ok(init, init.node, f"{pb} defaults to a value computed from {hb} in every case where it is omitted (by cases)")
            else:
                ctx.fail(init, init.node, bad, construct=f"<default of {pb} by cases>")
                continue
        if not ok:
            ctx.fail(init, init.node, f"omitted {pb} is no longer defaulted from {hb}", construct=f"<missing default of {pb}>")
    # ------------------------------------------------------------------ R7
    ctx.rule("R7", "a start on (or numerically at) a finite hard bound is moved strictly inside: x0 is clamped to the effective bounds", floor=1)
    from ..terms import match_clamp_all

    x0n = vparams[0] if vparams else None
    moved = []
    x0names = {x0n}
    grew = True
    while grew:
        grew = False
        for t, v, s, k in iter_stores(val.node):
            if isinstance(t, ast.Name) and isinstance(v, ast.Name) and k == "assign" and ((v.id in x0names) != (t.id in x0names)):
                x0names |= {t.id, v.id}  # the working copy an inlined helper clamps and hands back
                grew = True
    for t, v, s, k in iter_stores(val.node):
        if isinstance(t, ast.Name) and t.id in x0names and isinstance(v, ast.Call):
            for cv, lo, hi in match_clamp_all(v):
                if canon(cv) in x0names:
                    moved.append((s, rename(canon(lo)), rename(canon(hi))))
    if not moved:
        ctx.fail(val, val.node, "the validator no longer moves a starting point that lies on a hard bound to the inside (no clamp of x0)", construct="<missing x0 clamp to effective bounds>")
    for s, lo, hi in moved:
        ctx.check(lo == "LBEFF" and hi == "UBEFF", val, s, "x0 clamped to [LB_eff, UB_eff]",
                  f"x0 is clamped to ({lo}, {hi}) instead of the effective (inward-shifted) bounds: a start exactly on a finite hard bound stays on it and the first evaluation is on the boundary",
                  construct=f"x0 clamp bounds ({lo}, {hi})")
    # the effective bounds are the hard bounds shifted inwards; a definition that takes a hard bound as it is (no margin)
    # is vacuous only where every bound is infinite
    from .common import deref_expr as _dx7

    def _all_infinite(test, pol, at) -> bool:
        if not pol:
            return False
        f = Normaliser(resolver(at), rename, inline=inline_mask_helper(prog, val)).quant(test, True)
        cj = {show(c_) for c_ in top_conjuncts(f)}
        if any("isfinite(lb)" in c_ and c_.startswith("ALL[") and "not" in c_ for c_ in cj) and any("isfinite(ub)" in c_ and c_.startswith("ALL[") and "not" in c_ for c_ in cj):
            return True
        t = _dx7(prog, val, test)
        if isinstance(t, ast.Compare) and len(t.ops) == 1 and isinstance(t.ops[0], ast.Eq):
            for cnt, tot in ((t.left, t.comparators[0]), (t.comparators[0], t.left)):
                if canon(tot).replace("self.", "") not in ("(2 * D)", "(D * 2)", "(D + D)"):
                    continue
                counted, other = set(), False
                terms = []

                def flat(e_):
                    if isinstance(e_, ast.BinOp) and isinstance(e_.op, ast.Add):
                        flat(e_.left)
                        flat(e_.right)
                    else:
                        terms.append(e_)

                flat(cnt)
                for tm in terms:
                    if not (isinstance(tm, ast.Call) and (call_name(tm) in ("np.sum", "np.count_nonzero", "sum") or (isinstance(tm.func, ast.Attribute) and tm.func.attr == "sum"))):
                        other = True
                        continue
                    arg = tm.args[0] if tm.args else (tm.func.value if isinstance(tm.func, ast.Attribute) else None)
                    if not (isinstance(arg, ast.Call) and call_name(arg) == "np.isinf" and arg.args):
                        other = True
                        continue
                    a0 = arg.args[0]
                    parts = a0.args[0].elts if isinstance(a0, ast.Call) and call_name(a0) in ("np.concatenate", "np.vstack", "np.hstack") and a0.args and isinstance(a0.args[0], (ast.List, ast.Tuple)) else [a0]
                    for p_ in parts:
                        counted.add(rename(canon(p_)))
                if not other and counted == {"lb", "ub"} and len(terms) in (1, 2):
                    return True  # the number of infinite bounds equals the number of bounds
        return False

    for t, v, s, k in iter_stores(val.node):
        if isinstance(t, ast.Name) and mapping.get(t.id) in ("LBEFF", "UBEFF") and isinstance(v, ast.Name) and k == "assign":
            hard = "lb" if mapping[t.id] == "LBEFF" else "ub"
            if rename(v.id) != hard:
                continue
            gs = guard_of(prog, val, s)
            okv = any(_all_infinite(t_, p_, s) for t_, p_ in gs)
            ctx.check(okv, val, s, f"{t.id} = {v.id} only where every bound is infinite (no margin to take)",
                      f"the effective bound {t.id} is the hard bound itself on a path whose guard does not say that every bound is infinite: a start on a finite hard bound is not moved inside there", construct=f"effective bound without margin {t.id} = {v.id}")
    ctx.assume("after the finiteness validation, isinf and not-isfinite coincide on the bounds (NaN bounds are rejected by the ordering check)")


def _same_vars(d, atom) -> bool:
    def vars_(f):
        if f[0] in ("any", "all", "atom"):
            return vars_(f[1])
        if f[0] == "cmp":
            return {f[2], f[3]}
        if f[0] == "pred":
            return {f[2]}
        if f[0] in ("and", "or", "xor", "iff"):
            out = set()
            for x in f[1]:
                out |= vars_(x)
            return out
        return set()

    return vars_(d) == vars_(atom) and bool(vars_(atom))


def _cross_coordinate(f):
    """an 'and' node with >= 2 ANY members (at any depth) -> that node."""
    if f[0] == "and":
        anys = [x for x in f[1] if x[0] == "any"]
        if len(anys) >= 2:
            return f
    if f[0] in ("and", "or"):
        for x in f[1]:
            r = _cross_coordinate(x)
            if r:
                return r
    return None


class DtypePolicy(BasePolicy):
    """INH = dtype inherited from a caller-supplied array; FLT = float."""

    inplace_store_keeps_tags = True

    def __init__(self, params, attr_tags=None, prog=None, fn=None, seeds=None):
        self.params = params
        self.attr_tags = attr_tags or {}
        self.prog, self.fn, self.seeds = prog, fn, seeds

    def initial(self, flow):
        if self.seeds is not None:
            return dict(self.seeds)
        return {p: frozenset({"INH"}) for p in self.params}

    def clone_for(self, callee, seeds):
        return DtypePolicy([], {}, self.prog, callee, seeds)

    def eval(self, expr, state, flow):
        if isinstance(expr, ast.Call):
            n = call_name(expr)
            dt = None
            for k in expr.keywords:
                if k.arg == "dtype":
                    dt = canon(k.value)
            if isinstance(expr.func, ast.Attribute) and expr.func.attr == "astype" and expr.args:
                dt = canon(expr.args[0])
            if dt is not None:
                return frozenset({"FLT"}) if dt in ("float", "np.float64", "'float'", "'float64'", "np.float_", "np.double") else EMPTY
            if n in ("np.ones", "np.zeros", "np.full", "np.empty", "np.log", "np.exp", "np.sqrt", "np.random.uniform"):
                return frozenset({"FLT"})
            if n in ("np.maximum", "np.minimum", "np.clip", "np.where", "np.abs", "np.round", "np.fmax", "np.fmin") and expr.args:
                ts = [self.eval(a_, state, flow) for a_ in expr.args]
                if any("FLT" in t_ for t_ in ts):
                    return frozenset({"FLT"})
                acc = None
                for t_ in ts:
                    acc = t_ if acc is None else acc & t_
                return acc or EMPTY
            if n and n.startswith("np.") and expr.args and not n.startswith(("np.is", "np.any", "np.all", "np.arg", "np.logical", "np.nonzero", "np.flatnonzero", "np.size", "np.shape", "np.ndim", "np.count", "np.random", "np.sign", "np.searchsorted", "np.digitize", "np.unique", "np.lexsort", "np.int", "np.uint", "np.bool", "np.array_equal", "np.allclose")):
                # numpy's type promotion: an array function of a float array is float (value-preserving helpers such as
                # broadcast_to / tile / repeat / take / compress keep the dtype of their first argument)
                t0 = self.eval(expr.args[0], state, flow)
                if n in ("np.broadcast_to", "np.tile", "np.repeat", "np.take", "np.compress", "np.flip", "np.roll", "np.sort", "np.diag", "np.tril", "np.triu", "np.cumsum", "np.sum", "np.max", "np.min", "np.amax", "np.amin"):
                    return t0
                if "FLT" in t0:
                    return frozenset({"FLT"})
        if isinstance(expr, ast.Constant) and isinstance(expr.value, float):
            return frozenset({"FLT"})
        if isinstance(expr, ast.BinOp):
            a, b = self.eval(expr.left, state, flow), self.eval(expr.right, state, flow)
            if isinstance(expr.op, ast.Div) or "FLT" in a or "FLT" in b:
                return frozenset({"FLT"})
            return a & b
        if isinstance(expr, ast.IfExp):
            return self.eval(expr.body, state, flow) & self.eval(expr.orelse, state, flow)
        if isinstance(expr, (ast.GeneratorExp, ast.ListComp)):
            return self.eval(expr.elt, {}, flow)
        return super().eval(expr, state, flow)

    def eval_unpack(self, value, i, n, state, flow):
        if isinstance(value, (ast.GeneratorExp, ast.ListComp)):
            return self.eval(value.elt, {}, flow)
        return super().eval_unpack(value, i, n, state, flow)

    def eval_unknown_path(self, expr, state, flow):
        a = self_attr_of(expr) if isinstance(expr, ast.Attribute) else None
        if a in self.attr_tags:
            return self.attr_tags[a]
        return EMPTY


def _float_valued(v: ast.AST) -> bool:
    if isinstance(v, ast.Call) and call_name(v) in ("np.log", "np.exp", "np.sqrt", "np.log10", "np.log2", "np.power"):
        return True
    if isinstance(v, ast.BinOp) and isinstance(v.op, ast.Div):
        return True
    c = const_num(v)
    if c is not None and isinstance(c, float) and c == c and abs(c) != float("inf") and c != int(c):
        return True
    if isinstance(v, ast.BinOp):
        return _float_valued(v.left) or _float_valued(v.right)
    return False


def _dtype_rule(ctx, prog, R, include_validator=True):
    T = R.transformer
    init = T.find_method("__init__")
    params = [p for p in init.params if p not in ("self", "D")]
    f0 = TagFlow(prog, init, DtypePolicy(params, None, prog, init))
    # slot tags of self.<attr> at the point where __init__ calls the method that
    # performs the in-place stores (state of the constructor's flow at the call)
    def attr_tags_for(m):
        acc = None
        for call, targets in prog.calls_in(init):
            if m in targets:
                st = f0.state_before(call) or {}
                tags = {k[len("self."):]: v for k, v in st.items() if k.startswith("self.") and "." not in k[len("self."):]}
                acc = tags if acc is None else {k: acc[k] & tags[k] for k in acc.keys() & tags.keys()}
        return acc or {}

    n = 0
    for m in T.methods.values():
        fl = f0 if m is init else TagFlow(prog, m, DtypePolicy([], attr_tags_for(m), prog, m))
        for t, v, s, k in iter_stores(m.node):
            if not isinstance(t, ast.Subscript) or v is None or not _float_valued(v):
                continue
            base = store_base(t)
            st = fl.state_before(s)
            if st is None:
                continue
            tg = fl.policy.eval(base, st, fl)
            n += 1
            if "INH" in tg and "FLT" not in tg:
                ctx.fail(m, s, "a float-valued expression is stored in place into an array whose dtype is inherited from the caller's bounds: integer spellings are truncated and define a different problem",
                         construct=f"{canon(base)}[..] = {canon(v)[:60]} (dtype inherited)")
            elif "FLT" in tg:
                ctx.ok(m, s, f"{canon(base)} is float before the in-place store")
            else:
                ctx.fail(m, s, "the dtype of the target of a float-valued in-place store cannot be established as float", construct=f"{canon(base)}[..] = {canon(v)[:60]} (dtype unknown)")
    if not include_validator:
        return
    # the validator itself: any float-typed value written in place into a caller-typed array
    val = R.bounds_check
    vp = [p for p in val.params if p != "self"]
    fv = TagFlow(prog, val, DtypePolicy(vp, None, prog, val))
    for t, v, s, k in iter_stores(val.node):
        if not isinstance(t, ast.Subscript) or v is None:
            continue
        c = const_num(v)
        if c is not None and float(c) == int(c):
            continue  # an integral literal is representable in any numeric dtype
        base = store_base(t)
        st = fv.state_before(s)
        if st is None:
            continue
        tg = fv.policy.eval(base, st, fv)
        vt = fv.policy.eval(v, st, fv)
        if not (_float_valued(v) or "FLT" in vt):
            continue
        if "INH" in tg and "FLT" not in tg:
            ctx.fail(val, s, "a float-valued expression is stored in place into an array that keeps the caller's dtype: integer spellings of the same vector are truncated and define a different problem",
                     construct=f"{canon(base)}[..] = {canon(v)[:60]} (dtype inherited)")
        else:
            ctx.ok(val, s, f"{canon(base)} in-place float store is safe")
    # the same store spelled as a ufunc's out= argument: np.clip(x0, lo, hi, out=x0) casts the float result back into the
    # caller's dtype (numpy refuses the cast for integer arrays: a TypeError for the integer spelling of a valid problem)
    for c_ in ast.walk(val.node):
        if not (isinstance(c_, ast.Call) and isinstance(c_.func, ast.Attribute) and isinstance(c_.func.value, ast.Name) and c_.func.value.id == "np"):
            continue
        out = kw(c_, "out")
        if out is None or not isinstance(out, (ast.Name, ast.Subscript, ast.Attribute)):
            continue
        base = store_base(out) if isinstance(out, ast.Subscript) else out
        st = fv.state_before(c_)
        if st is None:
            continue
        tg = fv.policy.eval(base, st, fv)
        others = [fv.policy.eval(a_, st, fv) for a_ in c_.args if canon(a_) != canon(out)]
        if not any("FLT" in o_ or _float_valued(a_) for o_, a_ in zip(others, [a_ for a_ in c_.args if canon(a_) != canon(out)])):
            continue
        if "INH" in tg and "FLT" not in tg:
            ctx.fail(val, c_, f"the float result of {canon(c_.func)} is written back into {canon(out)} through out=, an array that keeps the caller's dtype: the integer spelling of the same vector is truncated or refused (TypeError)",
                     construct=f"{canon(c_.func)}(.., out={canon(out)}) (dtype inherited)")
        else:
            ctx.ok(val, c_, f"{canon(out)} is float before the out= store")
