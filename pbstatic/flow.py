"""A4 -- forward *must*-tag dataflow over a function's CFG.

Abstract value of a storage path (local name, ``self.attr``, ``OS[key]`` ...)
is the set of tags that hold on **every** path reaching the program point
(join = intersection; an unvisited predecessor is TOP).  A sink that demands a
tag therefore demands it of every reaching origin.

The transfer of expressions is supplied by the rule pack (``policy``):

    policy.eval(expr, state, flow)        -> frozenset of tags
    policy.eval_unpack(call, i, n, state, flow) -> tags of the i-th of n results
    policy.refine(test, polarity, state, flow)  -> state (optional)
    policy.after_stmt(node, state, flow)        -> state (optional side effects)
"""
from __future__ import annotations

import ast
from typing import Dict, FrozenSet, Optional

from .cfg import CFG, cfg_of
from .terms import canon, dotted, state_key

EMPTY: FrozenSet[str] = frozenset()

PRESERVING_METHODS = {"copy", "flatten", "squeeze", "ravel", "reshape", "astype", "item", "view", "transpose"}
PRESERVING_NP = {
    "np.copy", "np.atleast_1d", "np.atleast_2d", "np.reshape", "np.squeeze", "np.asarray", "np.array",
    "np.ravel", "np.transpose", "np.ascontiguousarray", "copy.copy", "copy.deepcopy", "deepcopy", "float",
}


def path_of(expr: ast.AST) -> Optional[str]:
    sk = state_key(expr)
    if sk:
        return f"{sk[0]}[{sk[1]}]"
    d = dotted(expr)
    if d is not None:
        return canon(expr)
    return None


class BasePolicy:
    """Default transfer: tags survive copies / reshapes / row selection and die
    under anything else."""

    row_select_preserves = True

    def eval(self, expr, state, flow) -> FrozenSet[str]:
        from .terms import call_name

        if expr is None:
            return EMPTY
        p = path_of(expr)
        if p is not None and p in state:
            return state[p]
        if isinstance(expr, ast.Call):
            n = call_name(expr)
            if n in PRESERVING_NP and expr.args:
                return self.eval(expr.args[0], state, flow)
            if isinstance(expr.func, ast.Attribute) and expr.func.attr in PRESERVING_METHODS:
                return self.eval(expr.func.value, state, flow)
            return self.eval_call(expr, state, flow)
        if isinstance(expr, ast.Subscript) and self.row_select_preserves:
            return self.eval_subscript(expr, state, flow)
        if isinstance(expr, ast.IfExp):
            return self.eval(expr.body, state, flow) & self.eval(expr.orelse, state, flow)
        if isinstance(expr, ast.Name) or isinstance(expr, ast.Attribute):
            return self.eval_unknown_path(expr, state, flow)
        return self.eval_other(expr, state, flow)

    def eval_subscript(self, expr, state, flow):
        return self.eval(expr.value, state, flow)

    # interprocedural helper summaries: a policy that sets ``prog``/``fn`` and implements
    # ``clone_for(callee, seeds)`` gets calls of small package helpers analysed with the
    # argument tags as parameter seeds (memo-free, depth-bounded)
    prog = None
    fn = None
    may_union = False
    _depth = 0

    def clone_for(self, callee, seeds):
        return None

    def summarise_call(self, expr, state, flow, index=None):
        """tags of the value a package helper returns (``index``: of the i-th element of a returned tuple)."""
        if self.prog is None or self.fn is None or self._depth >= 3:
            return EMPTY
        from .model import FunctionInfo, bind_args

        targets = [t for t in self.prog.resolve_call(self.fn, expr) if isinstance(t, FunctionInfo)]
        if len(targets) != 1 or targets[0] is self.fn:
            return EMPTY
        callee = targets[0]
        b = bind_args(callee, expr)
        seeds = {p: self.eval(a, state, flow) for p, a in b.items()}
        pol = self.clone_for(callee, seeds)
        if pol is None:
            return EMPTY
        pol._depth = self._depth + 1
        sub = TagFlow(self.prog, callee, pol, may=self.may_union)
        acc = None
        for n in ast.walk(callee.node):
            if isinstance(n, ast.Return) and n.value is not None and self.prog.function_of(n) is callee:
                rv = n.value
                if index is not None:
                    if isinstance(rv, ast.Name):
                        # ``res = (a, b); return res`` is not followed: no claim
                        rv = None
                    elif isinstance(rv, ast.Tuple) and index < len(rv.elts):
                        rv = rv.elts[index]
                    else:
                        rv = None
                    if rv is None:
                        acc = EMPTY if not self.may_union else acc
                        continue
                t = sub.tags(rv)
                if t is None:
                    continue
                acc = t if acc is None else ((acc | t) if self.may_union else (acc & t))
        return acc if acc is not None else EMPTY

    def eval_call(self, expr, state, flow):
        return self.summarise_call(expr, state, flow)

    def eval_other(self, expr, state, flow):
        return EMPTY

    def eval_unknown_path(self, expr, state, flow):
        return EMPTY

    def eval_unpack(self, value, i, n, state, flow):
        if isinstance(value, (ast.Tuple, ast.List)) and len(value.elts) == n:
            return self.eval(value.elts[i], state, flow)
        if isinstance(value, ast.IfExp):
            # a, b = X if c else (Y, Z)
            l, r = self.eval_unpack(value.body, i, n, state, flow), self.eval_unpack(value.orelse, i, n, state, flow)
            return (l | r) if self.may_union else (l & r)
        if isinstance(value, (ast.GeneratorExp, ast.ListComp)) and len(value.generators) == 1:
            # a, b = (f(v) for v in (x, y)): element-wise through the comprehension variable
            g = value.generators[0]
            if isinstance(g.iter, (ast.Tuple, ast.List)) and len(g.iter.elts) == n and isinstance(g.target, ast.Name) and not g.ifs:
                sub = dict(state)
                sub[g.target.id] = self.eval(g.iter.elts[i], state, flow)
                return self.eval(value.elt, sub, flow)
        return EMPTY

    def eval_iter(self, iter_expr, state, flow):
        return self.eval(iter_expr, state, flow)

    def refine(self, test, polarity, state, flow):
        return state

    def after_stmt(self, node, state, flow):
        return state

    def initial(self, flow) -> Dict[str, FrozenSet[str]]:
        return {}

    def default_tags(self, path: str) -> FrozenSet[str]:
        """tags of a storage path that has not been assigned in this function."""
        return EMPTY


class TagFlow:
    def __init__(self, prog, fn, policy: BasePolicy, may: bool = False):
        self.prog = prog
        self.fn = fn
        self.policy = policy
        self.may = may  # True: join = union (may-analysis, e.g. aliasing / taint)
        self.cfg: CFG = cfg_of(fn)
        self.inn: Dict[int, Optional[dict]] = {}
        self.out: Dict[int, Optional[dict]] = {}
        self._run()

    # state helpers ------------------------------------------------------
    def _meet(self, a: Optional[dict], b: Optional[dict]) -> Optional[dict]:
        """Join = intersection of must-tags.  A *local name* absent from one
        side is unbound there (using it raises NameError, so that origin is
        vacuous): the other side's tags survive.  A storage path (attribute,
        state key) absent from one side still holds its prior value there: the
        policy's default for that path takes part in the intersection."""
        if a is None:
            return None if b is None else dict(b)
        if b is None:
            return dict(a)
        if self.may:
            out = dict(a)
            for k, v in b.items():
                out[k] = out.get(k, EMPTY) | v
            return out
        out = {}
        for k in a.keys() | b.keys():
            if k in a and k in b:
                out[k] = a[k] & b[k]
            else:
                v = a[k] if k in a else b[k]
                if k.isidentifier():
                    out[k] = v
                else:
                    out[k] = v & self.policy.default_tags(k)
        return out

    def _assign(self, state, target, tags, value=None):
        pol = self.policy
        if isinstance(target, (ast.Tuple, ast.List)):
            n = len(target.elts)
            # the right-hand side is evaluated completely before any target is bound (``a, b = b, a``)
            pre = dict(state)
            parts = [pol.eval_unpack(value, i, n, pre, self) if value is not None else EMPTY for i in range(n)]
            for t, tg in zip(target.elts, parts):
                self._assign(state, t, tg)
            return
        if isinstance(target, ast.Starred):
            self._assign(state, target.value, EMPTY)
            return
        p = path_of(target)
        if p is not None:
            state[p] = tags
            # a rebinding of ``x`` invalidates facts about ``x.attr``
            for k in [k for k in state if k.startswith(p + ".")]:
                del state[k]
            return
        if isinstance(target, ast.Subscript):
            if getattr(self.policy, "inplace_store_keeps_tags", False):
                return  # e.g. dtype: a subscript store never changes the target's dtype
            # partial in-place update: weak
            bp = path_of(target.value)
            if bp is not None and not self.may:
                cur = state[bp] if bp in state else self.policy.default_tags(bp)
                state[bp] = cur & tags
            elif bp is not None:
                cur = state[bp] if bp in state else self.policy.default_tags(bp)
                state[bp] = cur | tags

    def _transfer(self, node, state: dict) -> dict:
        s = node.stmt
        pol = self.policy
        state = dict(state)
        if node.kind == "stmt":
            if isinstance(s, ast.Assign):
                if len(s.targets) == 1 and isinstance(s.targets[0], (ast.Tuple, ast.List)):
                    self._assign(state, s.targets[0], EMPTY, s.value)
                else:
                    tags = pol.eval(s.value, state, self)
                    for t in s.targets:
                        self._assign(state, t, tags, s.value)
            elif isinstance(s, ast.AnnAssign) and s.value is not None:
                self._assign(state, s.target, pol.eval(s.value, state, self), s.value)
            elif isinstance(s, ast.AugAssign):
                fake = ast.BinOp(left=s.target, op=s.op, right=s.value)
                ast.copy_location(fake, s)
                tags = pol.eval(fake, state, self)
                if isinstance(s.target, ast.Subscript):
                    self._assign(state, s.target, tags)
                else:
                    self._assign(state, s.target, tags)
            elif isinstance(s, ast.Delete):
                for t in s.targets:
                    self._assign(state, t, EMPTY)
        elif node.kind == "for":
            self._assign(state, s.target, pol.eval_iter(s.iter, state, self))
        elif node.kind == "with":
            for it in s.items:
                if it.optional_vars is not None:
                    self._assign(state, it.optional_vars, EMPTY)
        elif node.kind == "handler":
            if s.name:
                state[s.name] = EMPTY
        return pol.after_stmt(node, state, self)

    def _run(self):
        cfg = self.cfg
        order = list(range(len(cfg.nodes)))
        init = {}
        args = getattr(self.fn.node, "args", None)
        if args is not None:
            for a_ in list(args.posonlyargs) + list(args.args) + list(args.kwonlyargs) + ([args.vararg] if args.vararg else []) + ([args.kwarg] if args.kwarg else []):
                init[a_.arg] = EMPTY
        init.update(self.policy.initial(self))
        self.out[cfg.entry.id] = init
        work = list(cfg.g.successors(cfg.entry.id))
        iters = 0
        while work:
            iters += 1
            if iters > 200000:  # pragma: no cover
                raise RuntimeError("dataflow did not converge")
            nid = work.pop(0)
            node = cfg.nodes[nid]
            acc = None
            first = True
            for p in cfg.g.predecessors(nid):
                po = self.out.get(p)
                if po is None:
                    continue
                labels = cfg.g[p][nid]["labels"]
                pn = cfg.nodes[p]
                contrib = po
                if pn.kind == "test" and labels <= {"T", "F"} and len(labels) == 1:
                    contrib = self.policy.refine(pn.expr, "T" in labels, dict(po), self)
                    if contrib is None:  # edge proved infeasible by the policy
                        continue
                elif labels == {"exc"}:
                    # the statement may not have completed: use its in-state too
                    contrib = self._meet(po, self.inn.get(p))
                acc = dict(contrib) if first else self._meet(acc, contrib)
                first = False
            if first:
                continue
            old_in = self.inn.get(nid)
            if old_in is not None and old_in == acc and nid in self.out:
                continue
            self.inn[nid] = acc
            if node.kind in ("exit", "raise"):
                self.out[nid] = acc
                continue
            new_out = self._transfer(node, acc)
            if self.out.get(nid) != new_out or nid not in self.out:
                self.out[nid] = new_out
                for sx in cfg.g.successors(nid):
                    if sx not in work:
                        work.append(sx)

    # queries --------------------------------------------------------------
    def state_before(self, ast_node) -> Optional[dict]:
        n = self.cfg.node_of(ast_node)
        if n is None:
            return None
        return self.inn.get(n.id)

    def tags(self, expr: ast.AST) -> Optional[FrozenSet[str]]:
        """Tags of ``expr`` evaluated where it stands; None if unreachable."""
        st = self.state_before(expr)
        if st is None:
            return None
        n = self.cfg.node_of(expr)
        # inside a short-circuit / conditional sub-expression, refine by the
        # operands that must have held
        return self.policy.eval(expr, st, self)

    def state_at_exit(self) -> Optional[dict]:
        return self.inn.get(self.cfg.exit.id)
