"""CLI: python3-vt -m pbstatic.run <Cxx> --tier quick|thorough
           python3-vt -m pbstatic.run --replay <file>
           python3-vt -m pbstatic.run --all [--tier ...]

Exit 0 = every armed rule instance held (KNOWN-FINDING lines allowed),
     1 = VIOLATION (a finding not listed in known_findings.json),
     2 = ANALYSIS-ERROR (anchor vanished, parse failure, internal exception).
"""
from __future__ import annotations

import argparse
import importlib
import json
import os
import sys
import time
import traceback

from . import report
from .model import AnalysisError, Program

CLAIMED = [
    "C01", "C02", "C03", "C04", "C05", "C07", "C08", "C09", "C10", "C11",
    "C12", "C13", "C14", "C15", "C16", "C17", "C18", "C19", "C20",
]


def load_pack(prop: str):
    return importlib.import_module(f"pbstatic.rules.{prop.lower()}")


def run_property(prop: str, tier: str, seed: int, only_key: str = None, quiet: bool = False, root: str = None) -> int:
    t0 = time.time()
    ctx = report.Ctx(None, prop, tier, seed)
    explanation = ""
    try:
        pack = load_pack(prop)
        explanation = getattr(pack, "EXPLANATION", "")
        prog = Program(root)
        from .inline import normalise

        prog, inlined = normalise(prog)
        ctx.prog = prog
        if inlined:
            ctx.extra["normalisation"] = {"inlined_helpers": inlined}
            ctx.note("helpers inlined before the rules ran (A9): " + ", ".join(inlined))
        pack.check(ctx)
        if tier == "thorough" and hasattr(pack, "check_thorough"):
            pack.check_thorough(ctx)
        ctx.finish_floors()
        if tier == "thorough" and only_key is None and not os.environ.get("PBSTATIC_SCRATCH"):
            from .corpus import selftest

            ctx.extra["self_validation"] = selftest.run_for(prop, seed)
    except AnalysisError as e:
        msg = f"ANALYSIS-ERROR property={prop} {e}"
        print(msg)
        if not os.environ.get("PBSTATIC_SCRATCH"):
            report.write_evidence(ctx, time.time() - t0, [], [], explanation or "analysis error", error=str(e))
        return 2
    except Exception as e:  # internal error: never exit 1
        tb = traceback.format_exc()
        print(f"ANALYSIS-ERROR property={prop} internal exception: {e.__class__.__name__}: {e}")
        print(tb)
        try:
            if not os.environ.get("PBSTATIC_SCRATCH"):
                report.write_evidence(ctx, time.time() - t0, [], [], explanation or "analysis error", error=tb[-2000:])
        except Exception:
            pass
        return 2

    known = report.load_known()
    violations, matched = [], []
    for f in ctx.findings:
        k = report.match_known(f, known)
        if k is not None:
            matched.append(k)
            print(f"KNOWN-FINDING: property={prop} {k.get('what_fails', f.message)}")
        else:
            violations.append(f)
    if only_key is not None:
        violations = [f for f in violations if f.key == only_key]
    if not quiet:
        inv = prog.inventory()
        print(
            f"[{prop}] tier={tier} analysed {inv['modules']} modules, {inv['functions']} functions, "
            f"{inv['calls']} call sites ({inv['resolved_package']} package / {inv['resolved_external']} external / {inv['unresolved']} unresolved)"
        )
        for r in ctx.rules.values():
            status = "FAIL" if r.failed else ("UNDECIDED" if r.undecided and not r.held else "ok")
            print(f"  {r.id:<4} {status:<9} instances={r.instances} held={r.held} floor={r.floor}  {r.decides}")
            for u in r.undecided:
                print(f"       UNDECIDED clause={r.id}: {u}")
    wall = time.time() - t0
    scratch = bool(os.environ.get("PBSTATIC_SCRATCH"))
    if only_key is None and not scratch:
        report.write_evidence(ctx, wall, violations, matched, explanation)
    rc = 0
    for i, f in enumerate(violations):
        path = report.write_replay(ctx, f, i) if (only_key is None and not scratch) else "-"
        print(f.text())
        print(f"VIOLATION property={prop} replay={path}")
        rc = 1
    if not quiet:
        print(f"[{prop}] {'VIOLATIONS: %d' % len(violations) if rc else 'holds'} ({wall:.2f}s)")
    return rc


def main(argv=None):
    ap = argparse.ArgumentParser()
    ap.add_argument("prop", nargs="?")
    ap.add_argument("--tier", default=os.environ.get("VERIF_TIER", "quick"), choices=["quick", "thorough"])
    ap.add_argument("--replay")
    ap.add_argument("--all", action="store_true")
    ap.add_argument("--repo")
    args = ap.parse_args(argv)
    try:
        seed = int(os.environ.get("VERIF_SEED", "0"))
    except ValueError:
        seed = 0
    if args.repo:
        os.environ["PBSTATIC_REPO"] = args.repo
    if args.replay:
        with open(args.replay) as fh:
            rp = json.load(fh)
        rc = run_property(rp["property"], "quick", seed, only_key=rp["key"])
        if rc == 0:
            print(f"replay: finding {rp['key']} no longer reported")
        return rc
    if args.all:
        worst = 0
        for p in CLAIMED:
            try:
                load_pack(p)
            except ModuleNotFoundError:
                continue
            worst = max(worst, run_property(p, args.tier, seed))
        return worst
    if not args.prop:
        ap.error("property id required")
    return run_property(args.prop.upper(), args.tier, seed)


if __name__ == "__main__":
    sys.exit(main())
